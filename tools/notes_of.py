#!/usr/bin/env python3-vt
"""usage: tools/notes_of.py PATCH PROP[,PROP]  -- notes (fallbacks, skipped programs) recorded by a check on a scratch copy with the patch applied"""
import sys, os, subprocess, tempfile, shutil
HERE = os.path.dirname(os.path.dirname(os.path.abspath(__file__)))
tmp = tempfile.mkdtemp(prefix="pepit_notes_")
os.environ["VERIF_REPO"] = tmp
os.environ["VERIF_NO_EVIDENCE"] = "1"
sys.path.insert(0, HERE)
import importlib
try:
    shutil.copytree("/repo/PEPit", os.path.join(tmp, "PEPit"), ignore=shutil.ignore_patterns("__pycache__", "examples"))
    if sys.argv[1] != "-":
        subprocess.run(["patch", "-p1", "-s", "-i", os.path.abspath(sys.argv[1])], cwd=tmp, check=True)
    from sa.model import Repo, AnalysisError
    from sa import core
    repo = Repo()
    for p in sys.argv[2].split(","):
        ctx = core.Ctx(p, repo, "quick")
        try:
            importlib.import_module("sa.rules." + p.lower()).run(ctx)
        except AnalysisError as e:
            print(p, "ANALYSIS-ERROR", e)
        print(p, "notes:", ctx.notes, "counts:", {k: v for k, v in ctx.analysed.items() if "program" in k or "run" in k})
finally:
    shutil.rmtree(tmp, ignore_errors=True)
