#!/usr/bin/env python3-vt
"""usage: tools/tryseed.py PATCH [PROP,PROP...]   -- apply a patch to a scratch copy of /repo/PEPit and run the checks on it"""
import sys, os, subprocess, tempfile, shutil, json
HERE = os.path.dirname(os.path.dirname(os.path.abspath(__file__)))
sys.path.insert(0, HERE)
from sa.selftest import _copy_pkg
patch = os.path.abspath(sys.argv[1])
man = json.load(open(os.path.join(HERE, "MANIFEST.json")))
props = sys.argv[2].split(",") if len(sys.argv) > 2 else [c["property_id"] for c in man["checks"]]
tmp = tempfile.mkdtemp(prefix="pepit_seed_")
try:
    _copy_pkg(tmp)
    r = subprocess.run(["patch", "-p1", "-s", "-i", patch], cwd=tmp, capture_output=True, text=True)
    if r.returncode != 0:
        print("PATCH FAILED", r.stdout, r.stderr); sys.exit(3)
    env = dict(os.environ, VERIF_REPO=tmp, VERIF_NO_EVIDENCE="1")
    fired = []
    for p in props:
        r = subprocess.run([sys.executable, "-B", "-m", "sa.main", p], cwd=HERE, env=env, capture_output=True, text=True)
        tag = {0: "silent", 1: "FIRES", 2: "ANALYSIS-ERROR"}.get(r.returncode, str(r.returncode))
        if r.returncode != 0:
            fired.append(p)
            print("== %s %s" % (p, tag))
            for l in r.stdout.splitlines():
                if l.startswith("  FAIL") or l.startswith("ANALYSIS") or l.startswith("       "):
                    print(l[:260])
    print("RESULT %s fired=%s" % (os.path.basename(os.path.dirname(patch)), fired))
finally:
    shutil.rmtree(tmp, ignore_errors=True)
