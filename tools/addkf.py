#!/usr/bin/env python3
"""tools/addkf.py PROP RULE CONSTRUCT ID WHAT"""
import json, sys, os
p = os.path.join(os.path.dirname(os.path.dirname(os.path.abspath(__file__))), "known_findings.json")
d = json.load(open(p))
prop, rule, construct, fid, what = sys.argv[1:6]
if not any((f["property"], f["rule"], f["construct"]) == (prop, rule, construct) for f in d["findings"]):
    d["findings"].append({"property": prop, "rule": rule, "construct": construct, "id": fid, "what": what})
json.dump(d, open(p, "w"), indent=1)
