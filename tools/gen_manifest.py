#!/usr/bin/env python3
"""Regenerates MANIFEST.json from the table below (kept in one place so it is always schema-valid)."""
import json, os
HERE = os.path.dirname(os.path.dirname(os.path.abspath(__file__)))

CHECKS = {
 # id: (category, level text, technique, note, design_ref)
 "C01": ("other",
         "Certificate bookkeeping decided on every path: send/track pairing and the lists the reconstruction ranges over, alignment of recovered multipliers with tracked objects in both back-ends, symbolic producer/consumer slot equation of the cvxpy back-end, Lagrangian sign parity, dual mode returning the constant of the identity, LMIs symmetric as written. Structure, not numbers.",
         "structured path analysis (pairing / exactly-once counts), symbolic count polynomials, sign-parity extraction, normal-form symmetry of LMI entries",
         "trusts cvxpy / MOSEK dual sign conventions; positivity of multipliers and tolerance are not decided", "DESIGN.md 5 C01"),
 "C02": ("other",
         "Lock-step leaf creation and post-solve assignment of every registered leaf at its own index from the factor of the clipped Gram matrix; sibling agreement and exhaustiveness of the four consumers of an expression decomposition; one objective <= metric constraint per metric; accumulation shape of the eval accessors.",
         "AST shape rules with role resolution, sibling cross-checking of decomposition consumers, path counts",
         "numeric facts (Gram reproduction, feasibility, primal <= dual) are not decided", "DESIGN.md 5 C02"),
 "C03": ("translation_validation",
         "Every condition emitted by every class family's hook is normalised from its syntax tree and compared with the literature's condition (spec/classes.py), parameters symbolic; all 24 families, all conditions, all parameter values at once. Decides the formulas, not the mathematics behind them.",
         "AST abstract interpretation of class hooks + algebraic normal forms (polynomial canonicalisation) compared with a reference table",
         "trusts spec/classes.py as transcription of the literature, sa/nf.py arithmetic, and C06 for the operator overloads", "DESIGN.md 5 C03"),
 "C04": ("other",
         "Abstract truth table of the pair generator's skip predicate, exchange-invariance / diagonal-triviality queries on normal forms, whole-list loop domains, stationary-sample existence, and two-way equivalence with the documented conditions; holds for every number and order of samples because no rule depends on them.",
         "finite abstract-domain evaluation of the skip predicate + normal-form queries + loop-domain analysis on the AST",
         "trusts spec/classes.py; does not decide that a finite value is attained by a real member", "DESIGN.md 5 C04"),
 "C05": ("other",
         "Every container of the declared model (discovered by the kind of object appended) is drained by exactly one whole-list loop of the solve root with the send method of its kind for every owner; sense dispatch and comparison operators by literal-set equality and normal forms; dense / sparse translators and LMI encodings interpreted per key kind; objective sense; nothing accumulates across solves; MOSEK matrix-variable indices from send order.",
         "container discovery + exactly-one-drain path counts, literal-set agreement, abstract interpretation of the translators over (key kind, mirrored?, index order), effect closure",
         "trusts MOSEK / cvxpy API facts listed in the evidence; numeric equality of dense and sparse data on concrete expressions is not executed", "DESIGN.md 5 C05"),
 "C06": ("other",
         "No operator or dictionary helper writes to an operand or creates a leaf (effect summaries over the operators' call graph); operand kinds closed as documented through delegation chains; base operators have the documented shape and derived ones are definitional in normal form; dictionary helpers interpreted abstractly per key class against their specification.",
         "effect analysis over a resolved call graph, closed-dispatch analysis, normal-form evaluation of operator bodies, abstract interpretation over key classes",
         "floating-point coefficient arithmetic is not analysed", "DESIGN.md 5 C06"),
 "C07": ("other",
         "Decision table of Function.oracle enumerated over the finite domain (evaluated?, differentiable?, term needs value?, term needs gradient?), shape of lookup / need classification / add_point, weighted-sum remainder in normal form for 1..3 terms, differentiability flags of sums, multiples and 24 families, stationary / fixed points, pruned weights before every consumer.",
         "abstract path enumeration over a finite boolean domain, normal-form unrolling, sibling table over constructors, belief-consistency (pruning) rule",
         "order-dependent remainder assignment over arbitrary call histories is decided per call, not over histories", "DESIGN.md 5 C07"),
 "C08": ("translation_validation",
         "Each of the 8 steps is interpreted abstractly per option literal (11 paths): returned values, recorded samples per function, side constraints (normal form and sense) and oracle queries are compared, up to renaming of fresh leaves, with the reference step of spec/steps.py; option dispatches closed by a raise.",
         "abstract interpretation of straight-line step code into normal forms, compared with a reference program up to renaming",
         "trusts spec/steps.py as transcription of the docstrings; that the real operation satisfies what is recorded is mathematics", "DESIGN.md 5 C08"),
 "C11": ("other",
         "Sibling cross-checking of the cvxpy and MOSEK back-ends (MOSEK is never executed by the test-suite): interface and arities, initialised attributes, tracked-list discipline, sense mapping, one dual sign transformation, row-index bookkeeping, provenance of matrix-variable indices and of the objective slot, heuristic constraint / objective, LMI encodings, sparse translator.",
         "sibling agreement between implementations of one interface, index-provenance dataflow, reachability contradiction (leaf creation after the objective leaf)",
         "trusts the MOSEK Task API facts listed in the evidence; equality of optimal values is not decided", "DESIGN.md 5 C11"),
 "C12": ("other",
         "Inventory of process-global mutable state (class-level cells written through the class or advanced by next(), module-level objects, memo tables of functools decorators, default arguments evaluated once, function attributes used as storage) against the reset routine PEP.__init__ calls first; every verbosity guard encloses output only; no identity / hash / set-order / randomness / clock dependence in the package.",
         "state inventory from effect summaries vs reset set, purity of memoised call closures (reads of inventory cells / attributes written after construction), escape analysis of mutable defaults, guard-body effect-freedom with reaching definitions, package-wide determinism lint",
         "bit-for-bit equality of solver input follows only structurally", "DESIGN.md 5 C12"),
 "C13": ("other",
         "A new wrapper, fresh tracking lists and a fresh objective leaf per solve; class and partition constraints regenerated before the first send; every accumulation reachable from the per-solve roots is reset there, keyed, under an idempotence guard or an identifier counter; derived objects recompute their value at every eval (no functools memo over attributes written after construction); exits of the solve root.",
         "dominance on structured control flow, interprocedural effect closure with constant-argument refinement, memo-path enumeration, purity of memoised call closures",
         "equality of returned numbers across solves is not decided", "DESIGN.md 5 C13"),
 "C14": ("other",
         "Multipliers are captured exactly once, after exactly one solve and before every dimension-reduction call on every path; the residual comes from that capture; dual mode returns the reconstructed constant and primal mode the solver value; both back-ends add objective >= optimum - tolerance, untracked, then minimise a linear function of the Gram matrix; heuristic names dispatched by a closed chain.",
         "dominance / ordering rules on the solve root, orientation table of the heuristic constraint, closed-dispatch analysis",
         "'trace does not increase' and 'within tolerance' are numeric facts, not decided", "DESIGN.md 5 C14"),
 "C15": ("other",
         "Memo discipline of get_block, bounded symbolic unrolling for d = 1..4 (d entries, d-1 fresh leaves, entries sum back to the point, identity for d = 1), loop-domain analysis of the orthogonality generator (all points x all points, every unordered pair of distinct blocks once, unconditional), registration / draining of every partition, block-smooth formula vs spec/classes.py.",
         "normal-form unrolling with a stated bound, loop-domain enumeration, registry / drain path rules",
         "validity on real coordinate projections is mathematics; unrolling bound d <= 4", "DESIGN.md 5 C15"),
 "C16": ("other",
         "Every except clause names exception classes; the 6 value / dual accessors raise ValueError on the nothing-stored path (abstract evaluation over leaf? x value stored?) and wrapper accessors re-raise ValueError; the solve root returns the solver's None before any consumer of the solution; back-ends' solve values are None-when-unsolved; every string-option dispatch is closed by a raising else.",
         "abstract path evaluation over a finite boolean domain, handler well-formedness lint, dominance, closed-dispatch analysis",
         "solver status semantics are API facts", "DESIGN.md 5 C16"),
 "C17": ("other",
         "Both generators append exactly one cell per pair on every path (the constraint also appended to the class list, or 0), one row per outer sample, label rows / columns by the first / second list and store a DataFrame under the condition name; the reader maps cells to multipliers in place; names built from (function, condition, outer, inner); every store into the tables attribute holds a DataFrame; families emitting outside the generators still name and table.",
         "exactly-once path counts in loop bodies, writer / reader type agreement, def-use of name parts",
         "multiplier values are C01's business", "DESIGN.md 5 C17"),
}
NOT_APPLICABLE = {
 "C09": "compares the returned bound with numerical runs of a method on real functions: both sides are runtime numbers, no clause is a property of code shape beyond what C03/C04/C05/C08 already decide",
 "C10": "equality of a solver-computed value with a closed form over a parameter range: deciding it means solving SDPs; no structural clause carries assurance",
}
PENDING = {}

def main():
    props = [json.loads(l)["id"] for l in open(os.path.join(HERE, "properties.jsonl"))]
    checks = []
    for pid in props:
        if pid in CHECKS:
            cat, text, tech, note, ref = CHECKS[pid]
            checks.append({
                "property_id": pid,
                "quick_cmd": "./check %s --tier quick" % pid,
                "thorough_cmd": "./check %s --tier thorough" % pid,
                "evidence_file": "/verif/evidence/%s.json" % pid,
                "replay_cmd_template": "./check %s --replay {path}" % pid,
                "engine": "sa",
                "level_claimed": {"category": cat, "text": text, "design_ref": ref},
                "level_note": note,
                "technique": tech,
            })
    na = []
    for pid in props:
        if pid in CHECKS:
            continue
        if pid in NOT_APPLICABLE:
            na.append({"property_id": pid, "reason": NOT_APPLICABLE[pid]})
        else:
            na.append({"property_id": pid, "reason": PENDING.get(pid, "static check not built yet in this round (planned in DESIGN.md section 5)")})
    man = {
        "version": 1,
        "setup_cmd": "chmod +x /verif/check && python3-vt -B -c \"import ast, fractions, json\"",
        "hooks": {"guard": "PEPIT_VERIF", "enable": "none needed: the checks parse /repo's source and never import it",
                  "baseline_off_cmd": "cd /repo && /venv/bin/python -m pytest -ra -q -p no:cacheprovider --timeout=900 --continue-on-collection-errors",
                  "source_commits": [], "add_only": True},
        "engines": [{"name": "sa", "path": "/verif/sa", "serves_properties": sorted(CHECKS),
                     "kind_free_text": "repository-specific static analysis in pure Python (ast): source model, structured path analysis, effect summaries, algebraic normal forms of DSL expressions, reference tables in /verif/spec"}],
        "checks": checks,
        "not_applicable": na,
        "notes": "All checks are static: they parse /repo's current working tree on every run (no import, no execution, no solver). exit 0 = all obligations discharged (KNOWN-FINDING lines for /verif/known_findings.json entries), exit 1 = VIOLATION line, exit 2 = ANALYSIS-ERROR (anchor vanished / construct outside the analysed fragment).",
    }
    json.dump(man, open(os.path.join(HERE, "MANIFEST.json"), "w"), indent=1)
    print("MANIFEST.json: %d checks, %d not applicable" % (len(checks), len(na)))

if __name__ == "__main__":
    main()
