#!/usr/bin/env python3
"""Regenerates MANIFEST.json from the table below (kept in one place so it is always schema-valid)."""
import json, os
HERE = os.path.dirname(os.path.dirname(os.path.abspath(__file__)))

CHECKS = {
 # id: (category, level text, technique, note, design_ref)
 "C03": ("translation_validation",
         "Every condition emitted by every class family's hook is normalised from its syntax tree and compared with the literature's condition (spec/classes.py), parameters symbolic; all 24 families, all conditions, all parameter values at once. Decides the formulas, not the mathematics behind them.",
         "AST abstract interpretation of class hooks + algebraic normal forms (polynomial canonicalisation) compared with a reference table",
         "trusts spec/classes.py as transcription of the literature, sa/nf.py arithmetic, and C06 for the operator overloads", "DESIGN.md 5 C03"),
 "C04": ("other",
         "Abstract truth table of the pair generator's skip predicate, exchange-invariance / diagonal-triviality queries on normal forms, whole-list loop domains, stationary-sample existence, and two-way equivalence with the documented conditions; holds for every number and order of samples because no rule depends on them.",
         "finite abstract-domain evaluation of the skip predicate + normal-form queries + loop-domain analysis on the AST",
         "trusts spec/classes.py; does not decide that a finite value is attained by a real member", "DESIGN.md 5 C04"),
}
NOT_APPLICABLE = {
 "C09": "compares the returned bound with numerical runs of a method on real functions: both sides are runtime numbers, no clause is a property of code shape beyond what C03/C04/C05/C08 already decide",
 "C10": "equality of a solver-computed value with a closed form over a parameter range: deciding it means solving SDPs; no structural clause carries assurance",
}
PENDING = {}

def main():
    props = [json.loads(l)["id"] for l in open(os.path.join(HERE, "properties.jsonl"))]
    checks = []
    for pid in props:
        if pid in CHECKS:
            cat, text, tech, note, ref = CHECKS[pid]
            checks.append({
                "property_id": pid,
                "quick_cmd": "./check %s --tier quick" % pid,
                "thorough_cmd": "./check %s --tier thorough" % pid,
                "evidence_file": "/verif/evidence/%s.json" % pid,
                "replay_cmd_template": "./check %s --replay {path}" % pid,
                "engine": "sa",
                "level_claimed": {"category": cat, "text": text, "design_ref": ref},
                "level_note": note,
                "technique": tech,
            })
    na = []
    for pid in props:
        if pid in CHECKS:
            continue
        if pid in NOT_APPLICABLE:
            na.append({"property_id": pid, "reason": NOT_APPLICABLE[pid]})
        else:
            na.append({"property_id": pid, "reason": PENDING.get(pid, "static check not built yet in this round (planned in DESIGN.md section 5)")})
    man = {
        "version": 1,
        "setup_cmd": "chmod +x /verif/check && python3-vt -B -c \"import ast, fractions, json\"",
        "hooks": {"guard": "PEPIT_VERIF", "enable": "none needed: the checks parse /repo's source and never import it",
                  "baseline_off_cmd": "cd /repo && /venv/bin/python -m pytest -ra -q -p no:cacheprovider --timeout=900 --continue-on-collection-errors",
                  "source_commits": [], "add_only": True},
        "engines": [{"name": "sa", "path": "/verif/sa", "serves_properties": sorted(CHECKS),
                     "kind_free_text": "repository-specific static analysis in pure Python (ast): source model, structured path analysis, effect summaries, algebraic normal forms of DSL expressions, reference tables in /verif/spec"}],
        "checks": checks,
        "not_applicable": na,
        "notes": "All checks are static: they parse /repo's current working tree on every run (no import, no execution, no solver). exit 0 = all obligations discharged (KNOWN-FINDING lines for /verif/known_findings.json entries), exit 1 = VIOLATION line, exit 2 = ANALYSIS-ERROR (anchor vanished / construct outside the analysed fragment).",
    }
    json.dump(man, open(os.path.join(HERE, "MANIFEST.json"), "w"), indent=1)
    print("MANIFEST.json: %d checks, %d not applicable" % (len(checks), len(na)))

if __name__ == "__main__":
    main()
