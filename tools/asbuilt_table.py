#!/usr/bin/env python3-vt
"""tools/asbuilt_table.py -- prints the 'as built' table of DESIGN.md: the rules each check records obligations for on the current tree
(run in-process, nothing is written).  A star marks the rules decided, wholly or in part, by unrolling the source with sa/miniint.py."""
import sys, os, io, contextlib, importlib, re
HERE = os.path.dirname(os.path.dirname(os.path.abspath(__file__)))
sys.path.insert(0, HERE)
from sa.model import Repo
from sa import core
PROPS = ["C01", "C02", "C03", "C04", "C05", "C06", "C07", "C08", "C11", "C12", "C13", "C14", "C15", "C16", "C17"]
STAR = set("""R-SOLVEPROG R-MOSEKPROG R-MOSEKDUAL R-MOSEKROW R-TRANSLPROG R-LEAFREG R-EVALSHAPE R-GENPROG R-HOOKPROG R-HOOKTABLE R-FUNCSYS R-ENTRY
R-CONSCTOR R-STEP R-STEPOPT R-ROUTE R-WSUM R-ADDPOINT R-LOOKUP R-SEPARATE R-ORTHO R-SUMBACK R-MEMOBLK R-UNSOLVED R-SIGN R-SLOTS R-LMIENC R-MAINVARS
R-SENSE R-TRACK R-SOLVECALL R-HEUROBJ R-TRILORDER R-PSDSTORE R-LMIORDER R-KEYKINDS R-SOLVERCHOICE R-ONEVALUE R-ROWIDX""".split())
repo = Repo()
print("| id | rules run by `./check <id>` (\\* = decided, wholly or in part, by unrolling the source on an abstract model with `sa/miniint.py`) |")
print("|----|------------------------------|")
for prop in PROPS:
    mod = importlib.import_module("sa.rules.%s" % prop.lower())
    ctx = core.Ctx(prop, repo, "quick")
    with contextlib.redirect_stdout(io.StringIO()):
        mod.run(ctx)
    rules = sorted({o.rule for o in ctx.obligations})
    print("| %s | %s |" % (prop, ", ".join(r + ("\\*" if r in STAR else "") for r in rules)))
