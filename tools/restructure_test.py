#!/usr/bin/env python3-vt
"""Metamorphic test 2: in a scratch copy, every `x += e` on a plain local name becomes `x = x + e` and every two-armed `if c: A else: B`
(not part of an elif chain, c not containing a walrus) becomes `if not c: B else: A`.  Behaviour is unchanged; every check must give the same verdict."""
import sys, os, ast, subprocess, tempfile, shutil, json
HERE = os.path.dirname(os.path.dirname(os.path.abspath(__file__)))
sys.path.insert(0, HERE)
from sa.selftest import _copy_pkg

MODE = sys.argv[1] if len(sys.argv) > 1 else "both"


class T(ast.NodeTransformer):
    def visit_AugAssign(self, node):
        self.generic_visit(node)
        if MODE in ("aug", "both") and isinstance(node.target, ast.Name):
            return ast.copy_location(ast.Assign(targets=[ast.Name(id=node.target.id, ctx=ast.Store())],
                                                value=ast.BinOp(left=ast.Name(id=node.target.id, ctx=ast.Load()), op=node.op, right=node.value)), node)
        return node

    def visit_If(self, node):
        self.generic_visit(node)
        if MODE not in ("if", "both"):
            return node
        is_chain_member = len(node.orelse) == 1 and isinstance(node.orelse[0], ast.If)
        parent_chain = getattr(node, "_in_chain", False)
        if node.orelse and not is_chain_member and not parent_chain:
            return ast.copy_location(ast.If(test=ast.UnaryOp(op=ast.Not(), operand=node.test), body=node.orelse, orelse=node.body), node)
        return node


class Idioms(ast.NodeTransformer):
    """isinstance(x, A) or isinstance(x, B) -> isinstance(x, (A, B));  d.keys() in for / in -> d;  X == list() -> not X;  X != list() -> X"""

    def visit_BoolOp(self, node):
        self.generic_visit(node)
        if isinstance(node.op, ast.Or) and all(isinstance(v, ast.Call) and isinstance(v.func, ast.Name) and v.func.id == "isinstance" and len(v.args) == 2
                                                for v in node.values):
            subj = {ast.unparse(v.args[0]) for v in node.values}
            if len(subj) == 1:
                return ast.copy_location(ast.Call(func=ast.Name(id="isinstance", ctx=ast.Load()),
                                                  args=[node.values[0].args[0], ast.Tuple(elts=[v.args[1] for v in node.values], ctx=ast.Load())], keywords=[]), node)
        return node

    def visit_For(self, node):
        self.generic_visit(node)
        it = node.iter
        if isinstance(it, ast.Call) and isinstance(it.func, ast.Attribute) and it.func.attr == "keys" and not it.args:
            node.iter = it.func.value
        return node

    def visit_Compare(self, node):
        self.generic_visit(node)
        if len(node.ops) == 1:
            c = node.comparators[0]
            if isinstance(node.ops[0], (ast.In, ast.NotIn)) and isinstance(c, ast.Call) and isinstance(c.func, ast.Attribute) and c.func.attr == "keys" and not c.args:
                node.comparators = [c.func.value]
            if isinstance(node.ops[0], (ast.Eq, ast.NotEq)) and isinstance(c, ast.Call) and isinstance(c.func, ast.Name) and c.func.id in ("list", "dict") \
                    and not c.args and not c.keywords and not isinstance(node.left, ast.Call):
                if isinstance(node.ops[0], ast.Eq):
                    return ast.copy_location(ast.UnaryOp(op=ast.Not(), operand=node.left), node)
                return node.left
        return node


def mark_chains(tree):
    for n in ast.walk(tree):
        if isinstance(n, ast.If) and len(n.orelse) == 1 and isinstance(n.orelse[0], ast.If):
            n.orelse[0]._in_chain = True


man = json.load(open(os.path.join(HERE, "MANIFEST.json")))
props = [c["property_id"] for c in man["checks"]]
tmp = tempfile.mkdtemp(prefix="pepit_rs_")
bad = 0
try:
    _copy_pkg(tmp)
    for d, _, files in os.walk(os.path.join(tmp, "PEPit")):
        for f in files:
            if f.endswith(".py"):
                p = os.path.join(d, f)
                tree = ast.parse(open(p).read())
                mark_chains(tree)
                tree = Idioms().visit(tree) if MODE == "idioms" else T().visit(tree)
                ast.fix_missing_locations(tree)
                open(p, "w").write(ast.unparse(tree) + "\n")
    for pr in props:
        outs = []
        for repo in (None, tmp):
            env = dict(os.environ, VERIF_NO_EVIDENCE="1")
            if repo:
                env["VERIF_REPO"] = repo
            r = subprocess.run([sys.executable, "-B", "-m", "sa.main", pr], cwd=HERE, env=env, capture_output=True, text=True)
            kf = sorted(l.split(" -- ")[0] for l in r.stdout.splitlines() if l.startswith("KNOWN-FINDING"))
            outs.append((r.returncode, kf, [l for l in r.stdout.splitlines() if l.startswith("  FAIL") or l.startswith("ANALYSIS")]))
        same = outs[0][:2] == outs[1][:2]
        bad += 0 if same else 1
        print(pr, "same" if same else "DIFFERENT: exit %s vs %s %s" % (outs[0][0], outs[1][0], outs[1][2][:5]))
finally:
    shutil.rmtree(tmp, ignore_errors=True)
sys.exit(1 if bad else 0)
