#!/usr/bin/env python3-vt
"""usage: tools/trymut.py PROP[,PROP] FILE OLD NEW   -- run checks on a scratch copy with one textual edit"""
import sys, os
sys.path.insert(0, os.path.dirname(os.path.dirname(os.path.abspath(__file__))))
from sa.selftest import run_variant
props, f, old, new = sys.argv[1].split(","), sys.argv[2], sys.argv[3], sys.argv[4]
for p in props:
    st, code, out = run_variant(p, [(f, old, new)])
    print("==", p, st, code)
    print("\n".join(l for l in out.splitlines() if not l.startswith("KNOWN-FINDING"))[:3000])
