#!/usr/bin/env python3-vt
"""usage: tools/mutation_survey.py [--files a.py,b.py] [--jobs 16] [--out FILE] [--limit N]

Sensitivity survey of the checks (a test of the checker, not a check): generic single-site mutants of the core package --
deleted statement, negated condition, swapped comparison / arithmetic operator, changed constant, swapped arguments, dropped return value --
are written one at a time into a scratch copy of PEPit/ (mkdtemp outside /repo and /verif, removed at once) and all 15 checks are run on it
in one process.  The output lists, per mutant, which checks fire; the survivors (no check fires) are the material for triage by hand:
equivalent / outside every property / blind spot.  Nothing here decides a property."""
import ast
import os
import sys
import json
import shutil
import tempfile
import subprocess
from concurrent.futures import ThreadPoolExecutor

HERE = os.path.dirname(os.path.dirname(os.path.abspath(__file__)))
sys.path.insert(0, HERE)
REPO = os.environ.get("VERIF_REPO", "/repo")
PROPS = ["C01", "C02", "C03", "C04", "C05", "C06", "C07", "C08", "C11", "C12", "C13", "C14", "C15", "C16", "C17"]

RUNNER = r'''
import sys, os, io, contextlib
sys.path.insert(0, %r)
from sa.model import Repo, AnalysisError
from sa import core
import importlib
out = {}
try:
    repo = Repo()
except Exception as e:
    print("PARSE-ERROR", e); sys.exit(0)
known = core.load_known()
for prop in %r:
    mod = importlib.import_module("sa.rules.%%s" %% prop.lower())
    ctx = core.Ctx(prop, repo, "quick")
    status = "silent"
    rules = []
    try:
        try:
            with contextlib.redirect_stdout(io.StringIO()):
                mod.run(ctx)
        except AnalysisError as e:
            viol, kf = core.triage(ctx, known)
            if not viol:
                raise
        viol, kf = core.triage(ctx, known)
        if viol:
            status = "fires"
            rules = sorted({o.rule for o in viol})
        else:
            for name, measured, floor in ctx.floors:
                if measured < floor:
                    status = "analysis-error"
                    rules = ["floor:" + name]
    except AnalysisError as e:
        status = "analysis-error"
        rules = [str(e)[:80]]
    except Exception as e:
        status = "internal-error"
        rules = [repr(e)[:80]]
    if status != "silent":
        out[prop] = [status, rules]
import json
print("RESULT " + json.dumps(out))
'''


def core_files():
    out = []
    for d, dirs, files in os.walk(os.path.join(REPO, "PEPit")):
        if "examples" in d.split(os.sep) or "__pycache__" in d:
            continue
        for f in files:
            if f.endswith(".py") and f != "__init__.py":
                out.append(os.path.relpath(os.path.join(d, f), REPO))
    return sorted(out)


class Mutant:
    def __init__(self, rel, lineno, kind, desc, new_src):
        self.rel, self.lineno, self.kind, self.desc, self.new_src = rel, lineno, kind, desc, new_src


def _is_docstring(stmt):
    return isinstance(stmt, ast.Expr) and isinstance(stmt.value, ast.Constant) and isinstance(stmt.value.value, str)


CMP_SWAP = {ast.Lt: ast.LtE, ast.LtE: ast.Lt, ast.Gt: ast.GtE, ast.GtE: ast.Gt, ast.Eq: ast.NotEq, ast.NotEq: ast.Eq,
            ast.Is: ast.IsNot, ast.IsNot: ast.Is, ast.In: ast.NotIn, ast.NotIn: ast.In}
BIN_SWAP = {ast.Add: ast.Sub, ast.Sub: ast.Add, ast.Mult: ast.Div, ast.Div: ast.Mult}


def mutants_of(rel):
    path = os.path.join(REPO, rel)
    text = open(path, encoding="utf-8").read()
    tree = ast.parse(text)
    out = []

    def emit(kind, node, desc, mutate, undo):
        mutate()
        try:
            new = ast.unparse(tree)
            ast.parse(new)
            out.append(Mutant(rel, getattr(node, "lineno", 0), kind, desc, new))
        except Exception:
            pass
        finally:
            undo()

    # statement-level mutants
    for parent in ast.walk(tree):
        for field in ("body", "orelse", "finalbody"):
            block = getattr(parent, field, None)
            if not isinstance(block, list) or not block or not all(isinstance(s, ast.stmt) for s in block):
                continue
            for i, s in enumerate(list(block)):
                if _is_docstring(s) or isinstance(s, (ast.FunctionDef, ast.ClassDef, ast.Import, ast.ImportFrom, ast.Pass)):
                    continue
                if isinstance(s, ast.Expr) and isinstance(s.value, ast.Call) and isinstance(s.value.func, ast.Name) and s.value.func.id == "print":
                    continue
                if isinstance(s, (ast.Expr, ast.Assign, ast.AugAssign, ast.Raise, ast.Assert)):
                    def mut(block=block, i=i):
                        block[i] = ast.Pass()
                    def undo(block=block, i=i, s=s):
                        block[i] = s
                    emit("delete", s, "delete `%s`" % ast.unparse(s).split("\n")[0][:70], mut, undo)
                if isinstance(s, ast.Return) and s.value is not None and not (isinstance(s.value, ast.Constant) and s.value.value is None):
                    old = s.value
                    def mut(s=s):
                        s.value = ast.Constant(value=None)
                    def undo(s=s, old=old):
                        s.value = old
                    emit("return-none", s, "return None instead of `%s`" % ast.unparse(old)[:60], mut, undo)
                if isinstance(s, (ast.If, ast.While)):
                    old = s.test
                    def mut(s=s, old=old):
                        s.test = ast.UnaryOp(op=ast.Not(), operand=old)
                    def undo(s=s, old=old):
                        s.test = old
                    emit("negate", s, "negate `%s`" % ast.unparse(old)[:60], mut, undo)
                    if isinstance(s, ast.If):
                        for const in (True, False):
                            def mut(s=s, const=const):
                                s.test = ast.Constant(value=const)
                            emit("cond-const", s, "`%s` -> %s" % (ast.unparse(old)[:50], const), mut, undo)
    # expression-level mutants
    for node in ast.walk(tree):
        if isinstance(node, ast.Compare) and len(node.ops) == 1 and type(node.ops[0]) in CMP_SWAP:
            old = node.ops[0]
            def mut(node=node, old=old):
                node.ops[0] = CMP_SWAP[type(old)]()
            def undo(node=node, old=old):
                node.ops[0] = old
            emit("cmp", node, "`%s`: %s -> %s" % (ast.unparse(node)[:50], type(old).__name__, CMP_SWAP[type(old)].__name__), mut, undo)
        if isinstance(node, ast.BinOp) and type(node.op) in BIN_SWAP:
            old = node.op
            def mut(node=node, old=old):
                node.op = BIN_SWAP[type(old)]()
            def undo(node=node, old=old):
                node.op = old
            emit("binop", node, "`%s`: %s -> %s" % (ast.unparse(node)[:50], type(old).__name__, BIN_SWAP[type(old)].__name__), mut, undo)
        if isinstance(node, ast.AugAssign) and type(node.op) in BIN_SWAP:
            old = node.op
            def mut(node=node, old=old):
                node.op = BIN_SWAP[type(old)]()
            def undo(node=node, old=old):
                node.op = old
            emit("augop", node, "`%s`: %s -> %s" % (ast.unparse(node)[:50], type(old).__name__, BIN_SWAP[type(old)].__name__), mut, undo)
        if isinstance(node, ast.UnaryOp) and isinstance(node.op, ast.USub):
            old = node.op
            def mut(node=node):
                node.op = ast.UAdd()
            def undo(node=node, old=old):
                node.op = old
            emit("unary", node, "drop the minus of `%s`" % ast.unparse(node)[:50], mut, undo)
        if isinstance(node, ast.Constant) and not isinstance(node.value, str) and node.value is not None and not isinstance(node.value, bytes):
            old = node.value
            if isinstance(old, bool):
                new = not old
            elif isinstance(old, (int, float)):
                new = old + 1 if old != 1 else 0
            else:
                continue
            def mut(node=node, new=new):
                node.value = new
            def undo(node=node, old=old):
                node.value = old
            emit("const", node, "constant %r -> %r" % (old, new), mut, undo)
        if isinstance(node, ast.Constant) and isinstance(node.value, str) and node.value in ("equality", "inequality", "dual", "primal", "trace"):
            old = node.value
            new = {"equality": "inequality", "inequality": "equality", "dual": "primal", "primal": "dual", "trace": "logdet1"}[old]
            def mut(node=node, new=new):
                node.value = new
            def undo(node=node, old=old):
                node.value = old
            emit("strconst", node, "%r -> %r" % (old, new), mut, undo)
        if isinstance(node, ast.Call) and len(node.args) >= 2 and not any(isinstance(a, ast.Starred) for a in node.args):
            if isinstance(node.func, ast.Name) and node.func.id in ("print", "isinstance", "range", "zip", "max", "min"):
                continue
            a0, a1 = node.args[0], node.args[1]
            if ast.dump(a0) == ast.dump(a1):
                continue
            def mut(node=node):
                node.args[0], node.args[1] = node.args[1], node.args[0]
            emit("argswap", node, "swap first two arguments of `%s`" % ast.unparse(node)[:60], mut, mut)
        if isinstance(node, ast.BoolOp):
            old = node.op
            def mut(node=node, old=old):
                node.op = ast.Or() if isinstance(old, ast.And) else ast.And()
            def undo(node=node, old=old):
                node.op = old
            emit("boolop", node, "`%s`: and <-> or" % ast.unparse(node)[:60], mut, undo)
    return out


def run_mutant(m):
    tmp = tempfile.mkdtemp(prefix="pepit_mut_")
    try:
        from sa.selftest import _copy_pkg
        _copy_pkg(tmp)
        with open(os.path.join(tmp, m.rel), "w", encoding="utf-8") as fh:
            fh.write(m.new_src)
        env = dict(os.environ, VERIF_REPO=tmp, VERIF_NO_EVIDENCE="1")
        r = subprocess.run([sys.executable, "-B", "-c", RUNNER % (HERE, PROPS)], cwd=HERE, env=env, capture_output=True, text=True, timeout=600)
        res = None
        for line in r.stdout.splitlines():
            if line.startswith("RESULT "):
                res = json.loads(line[7:])
            if line.startswith("PARSE-ERROR"):
                res = {"*": ["parse-error", [line]]}
        if res is None:
            res = {"*": ["crash", [(r.stderr or r.stdout)[-200:]]]}
        return m, res
    finally:
        shutil.rmtree(tmp, ignore_errors=True)


def main():
    args = sys.argv[1:]
    files = None
    jobs = 16
    out = os.path.join(HERE, "out", "mutation_survey.jsonl")
    limit = None
    i = 0
    while i < len(args):
        if args[i] == "--files":
            files = args[i + 1].split(",")
            i += 2
        elif args[i] == "--jobs":
            jobs = int(args[i + 1])
            i += 2
        elif args[i] == "--out":
            out = args[i + 1]
            i += 2
        elif args[i] == "--limit":
            limit = int(args[i + 1])
            i += 2
        else:
            i += 1
    files = files or core_files()
    ms = []
    # the roundtrip through ast.unparse must itself be silent, otherwise every mutant of that file would be noise: checked by tools/roundtrip_test.py
    for rel in files:
        ms += mutants_of(rel)
    if limit:
        import random
        random.Random(0).shuffle(ms)
        ms = ms[:limit]
    print("%d mutants over %d files" % (len(ms), len(files)))
    os.makedirs(os.path.dirname(out), exist_ok=True)
    n_fire = n_silent = n_err = 0
    with open(out, "w") as fh, ThreadPoolExecutor(max_workers=jobs) as ex:
        for m, res in ex.map(run_mutant, ms):
            fired = sorted(p for p, v in res.items() if v[0] == "fires")
            errs = sorted(p for p, v in res.items() if v[0] != "fires")
            rec = {"file": m.rel, "line": m.lineno, "kind": m.kind, "desc": m.desc, "fires": {p: res[p][1] for p in fired},
                   "errors": {p: res[p] for p in errs}}
            fh.write(json.dumps(rec) + "\n")
            if fired:
                n_fire += 1
            elif errs:
                n_err += 1
            else:
                n_silent += 1
    print("fired: %d   analysis-error only: %d   silent: %d   -> %s" % (n_fire, n_err, n_silent, out))


if __name__ == "__main__":
    main()
