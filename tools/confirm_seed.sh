#!/bin/bash
# usage: confirm_seed.sh <seed id>   -- confirms a seeded change in a scratch worktree of /repo (removed afterwards)
id=$1
S=/verif/seeded/$id
orig=$id
case $id in C05_3) orig=C05_1;; C05_4) orig=C05_2;; esac
[ -f $S/orig_id.txt ] && orig=$(cat $S/orig_id.txt)
wt=/tmp/confirm/wt_$id
out=/tmp/confirm/results/$id.txt
mkdir -p /tmp/confirm/results
git -C /repo worktree add -q --detach $wt HEAD || exit 9
mkdir -p $wt/_seed/$orig && cp -r $S/* $wt/_seed/$orig/
cd $wt
timeout 600 /venv/bin/python -W ignore _seed/$orig/demo.py > /tmp/confirm/results/$id.clean.log 2>&1; c0=$?
git apply _seed/$orig/patch.diff; ap=$?
timeout 600 /venv/bin/python -W ignore _seed/$orig/demo.py > /tmp/confirm/results/$id.mut.log 2>&1; c1=$?
t=$(timeout 1800 /venv/bin/python -m pytest -q -p no:cacheprovider --deselect tests/test_examples.py::TestExamplesCVXPY::test_gradient_descent_lc --deselect tests/test_examples.py::TestExamplesMosek::test_gradient_descent_lc -n 4 --timeout=900 tests 2>&1 | tail -1)
echo "$id apply=$ap demo_clean=$c0 demo_mutated=$c1 suite='$t'" > $out
cd /; git -C /repo worktree remove --force $wt
