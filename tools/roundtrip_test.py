#!/usr/bin/env python3-vt
"""Formatting-independence test: every core file is replaced by ast.unparse(ast.parse(file)) (all comments, blank lines and
line numbers change) in a scratch copy; every check must give the same verdict and the same known findings as on /repo."""
import sys, os, ast, subprocess, tempfile, shutil, json
HERE = os.path.dirname(os.path.dirname(os.path.abspath(__file__)))
sys.path.insert(0, HERE)
from sa.selftest import _copy_pkg
man = json.load(open(os.path.join(HERE, "MANIFEST.json")))
props = [c["property_id"] for c in man["checks"]]
tmp = tempfile.mkdtemp(prefix="pepit_rt_")
bad = 0
try:
    _copy_pkg(tmp)
    for d, _, files in os.walk(os.path.join(tmp, "PEPit")):
        for f in files:
            if f.endswith(".py"):
                p = os.path.join(d, f)
                srcs = open(p).read()
                open(p, "w").write(ast.unparse(ast.parse(srcs)) + "\n")
    for pr in props:
        outs = []
        for repo in (None, tmp):
            env = dict(os.environ, VERIF_NO_EVIDENCE="1")
            if repo:
                env["VERIF_REPO"] = repo
            r = subprocess.run([sys.executable, "-B", "-m", "sa.main", pr], cwd=HERE, env=env, capture_output=True, text=True)
            kf = sorted(l.split(" -- ")[0] for l in r.stdout.splitlines() if l.startswith("KNOWN-FINDING"))
            outs.append((r.returncode, kf))
        same = outs[0] == outs[1]
        bad += 0 if same else 1
        print(pr, "same verdict and known findings" if same else "DIFFERENT: %s vs %s" % outs)
finally:
    shutil.rmtree(tmp, ignore_errors=True)
sys.exit(1 if bad else 0)
