#!/usr/bin/env python3-vt
"""Metamorphic test: every local variable of every function of the core package is renamed (suffix _rn) in a scratch copy,
`list()` / `dict()` are replaced by `[]` / `{}` -- behaviour is unchanged, so every check must give the same verdict."""
import sys, os, ast, subprocess, tempfile, shutil, json
HERE = os.path.dirname(os.path.dirname(os.path.abspath(__file__)))
sys.path.insert(0, HERE)
from sa.selftest import _copy_pkg


class Renamer(ast.NodeTransformer):
    def visit_FunctionDef(self, fn):
        nested = any(isinstance(n, (ast.FunctionDef, ast.Lambda, ast.ClassDef)) and n is not fn for n in ast.walk(fn))
        self.generic_visit(fn)
        if nested:
            return fn
        params = {a.arg for a in fn.args.posonlyargs + fn.args.args + fn.args.kwonlyargs}
        if fn.args.vararg:
            params.add(fn.args.vararg.arg)
        if fn.args.kwarg:
            params.add(fn.args.kwarg.arg)
        glob = {n for g in ast.walk(fn) if isinstance(g, (ast.Global, ast.Nonlocal)) for n in g.names}
        stored = {n.id for n in ast.walk(fn) if isinstance(n, ast.Name) and isinstance(n.ctx, ast.Store)} - params - glob
        imported = {(a.asname or a.name).split(".")[0] for n in ast.walk(fn) if isinstance(n, (ast.Import, ast.ImportFrom)) for a in n.names}
        stored -= imported
        for n in ast.walk(fn):
            if isinstance(n, ast.Name) and n.id in stored:
                n.id = n.id + "_rn"
        return fn

    def visit_Call(self, node):
        self.generic_visit(node)
        if isinstance(node.func, ast.Name) and node.func.id == "list" and not node.args and not node.keywords:
            return ast.copy_location(ast.List(elts=[], ctx=ast.Load()), node)
        if isinstance(node.func, ast.Name) and node.func.id == "dict" and not node.args and not node.keywords:
            return ast.copy_location(ast.Dict(keys=[], values=[]), node)
        return node


man = json.load(open(os.path.join(HERE, "MANIFEST.json")))
props = [c["property_id"] for c in man["checks"]]
tmp = tempfile.mkdtemp(prefix="pepit_rn_")
bad = 0
try:
    _copy_pkg(tmp)
    for d, _, files in os.walk(os.path.join(tmp, "PEPit")):
        for f in files:
            if f.endswith(".py"):
                p = os.path.join(d, f)
                tree = Renamer().visit(ast.parse(open(p).read()))
                ast.fix_missing_locations(tree)
                open(p, "w").write(ast.unparse(tree) + "\n")
    if "--keep" in sys.argv:
        print("kept at", tmp)
    for pr in props:
        outs = []
        for repo in (None, tmp):
            env = dict(os.environ, VERIF_NO_EVIDENCE="1")
            if repo:
                env["VERIF_REPO"] = repo
            r = subprocess.run([sys.executable, "-B", "-m", "sa.main", pr], cwd=HERE, env=env, capture_output=True, text=True)
            kf = sorted(l.split(" -- ")[0] for l in r.stdout.splitlines() if l.startswith("KNOWN-FINDING"))
            outs.append((r.returncode, kf, [l for l in r.stdout.splitlines() if l.startswith("  FAIL") or l.startswith("ANALYSIS")]))
        same = outs[0][:2] == outs[1][:2]
        bad += 0 if same else 1
        print(pr, "same" if same else "DIFFERENT: exit %s vs %s %s" % (outs[0][0], outs[1][0], outs[1][2][:4]))
finally:
    if "--keep" not in sys.argv:
        shutil.rmtree(tmp, ignore_errors=True)
sys.exit(1 if bad else 0)
