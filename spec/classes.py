"""Reference conditions of the 24 class families, transcribed from the literature each class docstring cites
(DESIGN.md appendix A).  Written in the expression syntax of the DSL and parsed by the same normaliser as the code.

Roles: (xi, gi, fi), (xj, gj, fj) two recorded samples of `list_of_points`; (xs, 0, fs) a stationary sample;
(ui, vi, hi), (uj, vj, hj) samples of the adjoint of a linear operator; Pk(p) the projection of p on block k;
parameters are written with the attribute name that holds them (mu, L, M, D, beta, rho, v, L_k).

dom:
  pair:A*B      every ordered pair of distinct samples (first from A, second from B)
  pair/2:A*A    the condition is invariant under i<->j and is required once per unordered pair of distinct samples
  each:A        every sample of A
  all:A*B       every pair, no sample excluded (diagonal included when A is B)
  blockpair:A*A every ordered pair of distinct samples, for every block k
  lmi:A*A       the matrix [entry(i, j)] over all samples is positive semidefinite
guard: the parameter condition under which the family is imposed (as written in the hook)
"""

CONVEX = "fi - fj >= gj*(xi-xj)"

CLASSES = {
    "ConvexFunction": [
        dict(dom="pair:points*points", cond=CONVEX),
    ],
    "StronglyConvexFunction": [
        dict(dom="pair:points*points", cond="fi - fj >= gj*(xi-xj) + mu/2*(xi-xj)**2"),
    ],
    "SmoothConvexFunction": [
        dict(dom="pair:points*points", cond="fi - fj >= gj*(xi-xj) + 1/(2*L)*(gi-gj)**2"),
    ],
    "SmoothStronglyConvexFunction": [
        dict(dom="pair:points*points",
             cond="fi - fj >= gj*(xi-xj) + 1/(2*L)*(gi-gj)**2 + mu/(2*(1-mu/L))*(xi-xj-1/L*(gi-gj))**2"),
    ],
    "SmoothFunction": [
        dict(dom="pair:points*points",
             cond="fi - fj >= -L/4*(xi-xj)**2 + 1/2*(gi+gj)*(xi-xj) + 1/(4*L)*(gi-gj)**2"),
    ],
    "ConvexLipschitzFunction": [
        dict(dom="pair:points*points", cond=CONVEX),
        dict(dom="each:points", cond="gi**2 <= M**2"),
    ],
    "SmoothConvexLipschitzFunction": [
        dict(dom="pair:points*points", cond="fi - fj >= gj*(xi-xj) + 1/(2*L)*(gi-gj)**2"),
        dict(dom="each:points", cond="gi**2 <= M**2"),
    ],
    "ConvexIndicatorFunction": [
        dict(dom="each:points", cond="fi == 0"),
        dict(dom="pair:points*points", cond="gj*(xi-xj) <= 0"),
        dict(dom="pair/2:points*points", cond="(xi-xj)**2 <= D**2", guard="self.D != np.inf"),
    ],
    "ConvexSupportFunction": [
        dict(dom="each:points", cond="gi*xi - fi == 0", name="fenchel_value"),
        dict(dom="each:points", cond="gi**2 <= M**2", guard="self.M != np.inf", name="lipschitz_continuity"),
        dict(dom="pair:points*points", cond="xj*(gi-gj) <= 0"),
    ],
    "ConvexQGFunction": [
        dict(dom="pair:points*points", cond=CONVEX),
        dict(dom="pair:stationary*points", cond="fs - fj >= gj*(xs-xj) + 1/(2*L)*gj**2"),
    ],
    "RsiEbFunction": [
        dict(dom="pair:stationary*points", cond="gj*(xj-xs) >= mu*(xj-xs)**2", name="rsi"),
        dict(dom="pair:stationary*points", cond="gj**2 <= L**2*(xj-xs)**2", name="eb"),
    ],
    "BlockSmoothConvexFunction": [
        dict(dom="blockpair:points*points", cond="fi - fj >= gj*(xi-xj) + 1/(2*L_k)*(Pk(gi)-Pk(gj))**2"),
    ],
    "SmoothStronglyConvexQuadraticFunction": [
        dict(dom="each:points", cond="fi - fs == 1/2*(xi-xs)*gi"),
        dict(dom="pair/2:points*points", cond="(xi-xs)*gj == (xj-xs)*gi"),
        dict(dom="lmi:points*points", entry="(L+mu)*gi*(xj-xs) - gi*gj - mu*L*(xi-xs)*(xj-xs)"),
    ],
    "MonotoneOperator": [
        dict(dom="pair/2:points*points", cond="(gi-gj)*(xi-xj) >= 0"),
    ],
    "StronglyMonotoneOperator": [
        dict(dom="pair/2:points*points", cond="(gi-gj)*(xi-xj) >= mu*(xi-xj)**2"),
    ],
    "CocoerciveOperator": [
        dict(dom="pair/2:points*points", cond="(gi-gj)*(xi-xj) >= beta*(gi-gj)**2"),
    ],
    "LipschitzOperator": [
        dict(dom="pair/2:points*points", cond="(gi-gj)**2 <= L**2*(xi-xj)**2"),
    ],
    "NonexpansiveOperator": [
        dict(dom="pair/2:points*points", cond="(gi-gj)**2 <= (xi-xj)**2"),
        dict(dom="each:points", cond="v**2 <= (xi-gi)*v", guard="self.v is not None"),
    ],
    "NegativelyComonotoneOperator": [
        dict(dom="pair/2:points*points", cond="(gi-gj)*(xi-xj) >= -rho*(gi-gj)**2"),
    ],
    # `name`: the key under which the condition's table of multipliers is stored and the word used in the constraint names -- given where two
    # conditions of one family range over the same domain (the only place where two names could be exchanged without anything else changing)
    "CocoerciveStronglyMonotoneOperator": [
        dict(dom="pair/2:points*points", cond="(gi-gj)*(xi-xj) >= beta*(gi-gj)**2", name="cocoercivity"),
        dict(dom="pair/2:points*points", cond="(gi-gj)*(xi-xj) >= mu*(xi-xj)**2", name="strong_monotonicity"),
    ],
    "LipschitzStronglyMonotoneOperator": [
        dict(dom="pair/2:points*points", cond="(gi-gj)*(xi-xj) >= mu*(xi-xj)**2", name="strong_monotonicity"),
        dict(dom="pair/2:points*points", cond="(gi-gj)**2 <= L**2*(xi-xj)**2", name="lipschitz_continuity"),
    ],
    "LinearOperator": [
        dict(dom="all:points*T.points", cond="xi*vj == gi*uj"),
        dict(dom="lmi:points*points", entry="L**2*xi*xj - gi*gj"),
        dict(dom="lmi:T.points*T.points", entry="L**2*ui*uj - vi*vj"),
    ],
    "SymmetricLinearOperator": [
        dict(dom="pair/2:points*points", cond="xi*gj == xj*gi"),
        dict(dom="lmi:points*points", entry="L*gi*xj - gi*gj - mu*L*xi*xj + mu*xi*gj"),
    ],
    "SkewSymmetricLinearOperator": [
        # x_i . A x_j = - x_j . A x_i for ALL i, j: the diagonal (x_i . A x_i = 0) is part of the condition
        dict(dom="all:points*points", cond="xi*gj == -xj*gi"),
        dict(dom="lmi:points*points", entry="L**2*xi*xj - gi*gj"),
    ],
}

# sorts of the names used above
POINT_NAMES = {"xi", "xj", "gi", "gj", "xs", "ui", "uj", "vi", "vj", "v"}
EXPR_NAMES = {"fi", "fj", "fs", "hi", "hj"}

# parameter sample points (admissible values) used only to classify a difference between an emitted condition and
# its reference as a relaxation (negative semidefinite difference) -- never to accept a condition as correct
PARAM_SAMPLES = [
    {"mu": "1/10", "L": "1", "M": "1", "D": "1", "beta": "1", "rho": "1", "L_k": "1"},
    {"mu": "1/3", "L": "2", "M": "3", "D": "1/2", "beta": "1/2", "rho": "2", "L_k": "3"},
    {"mu": "1", "L": "7", "M": "1/5", "D": "4", "beta": "3", "rho": "1/4", "L_k": "1/2"},
]
