"""Reference behaviour of the 8 primitive steps, transcribed from their docstrings (DESIGN.md appendix B).

Written in the same mini-language the step interpreter of sa/rules/c08.py understands and interpreted by the same
normaliser as the implementation: Point() / Expression() create fresh leaves, F.add_point((x, g, f)) records a sample
on F, F.add_constraint(c) adds a side condition on F, F.oracle(x) / F.value(x) query F.  The comparison is made on
normal forms up to renaming of fresh leaves, so this file fixes WHAT each step must record and return, not how the
implementation spells it.
"""


def proximal_step(x0, f, gamma):
    # x = x0 - gamma * g with g a recorded subgradient of f at x
    g = Point()
    fx = Expression()
    x = x0 - gamma * g
    f.add_point((x, g, fx))
    return x, g, fx


def inexact_gradient_step(x0, f, gamma, epsilon, notion='absolute'):
    g0, f0 = f.oracle(x0)
    d = Point()
    if notion == 'absolute':
        # ||d - g0||^2 <= epsilon^2
        f.add_constraint((g0 - d) ** 2 - epsilon ** 2 <= 0)
    elif notion == 'relative':
        # ||d - g0||^2 <= epsilon^2 ||g0||^2
        f.add_constraint((g0 - d) ** 2 - epsilon ** 2 * g0 ** 2 <= 0)
    else:
        raise ValueError("unknown notion")
    return x0 - gamma * d, d, f0


def exact_linesearch_step(x0, f, directions):
    x = Point()
    g, fx = f.oracle(x)
    # gradient at x orthogonal to x - x0 and to every search direction
    f.add_constraint((x - x0) * g == 0)
    for d in directions:
        f.add_constraint(d * g == 0)
    return x, g, fx


def linear_optimization_step(dir, ind):
    # x in argmin <dir, .> + ind  <=>  -dir in the normal cone of ind at x
    x = Point()
    fx = Expression()
    ind.add_point((x, -dir, fx))
    return x, -dir, fx


def bregman_gradient_step(gx0, sx0, mirror_map, gamma):
    # grad h(x) = grad h(x0) - gamma * grad f(x0)
    x = Point()
    hx = Expression()
    s = sx0 - gamma * gx0
    mirror_map.add_point((x, s, hx))
    return x, s, hx


def bregman_proximal_step(sx0, mirror_map, min_function, gamma):
    # grad h(x) = grad h(x0) - gamma * g,  g a recorded subgradient of f at x
    x = Point()
    g = Point()
    fx = Expression()
    hx = Expression()
    s = sx0 - gamma * g
    min_function.add_point((x, g, fx))
    mirror_map.add_point((x, s, hx))
    return x, s, hx, g, fx


def epsilon_subgradient_step(x0, f, gamma):
    # g0 is an epsilon-subgradient of f at x0:  f(x0) + f*(g0) - <g0, x0> <= epsilon, with f*(g0) = <g0, y> - f(y), g0 in df(y)
    g0 = Point()
    eps = Expression()
    y = Point()
    fy = Expression()
    f0 = f.value(x0)
    f.add_point((y, g0, fy))
    f.add_constraint(f0 + (g0 * y - fy) - g0 * x0 <= eps)
    return x0 - gamma * g0, g0, f0, eps


def inexact_proximal_step(x0, f, gamma, opt='PD_gapII'):
    if opt == 'PD_gapI':
        # primal-dual gap of the proximal subproblem:  ||x - x0 + gamma v||^2 / 2 + gamma (f(x) - f(w) - <v, x - w>) <= eps
        v = Point()
        w = Point()
        fw = Expression()
        x = Point()
        g = Point()
        fx = Expression()
        eps = Expression()
        f.add_point((w, v, fw))
        f.add_point((x, g, fx))
        f.add_constraint((x - x0 + gamma * v) ** 2 / 2 + gamma * (fx - fw - v * (x - w)) <= eps)
        return x, g, fx, w, v, fw, eps
    elif opt == 'PD_gapII':
        # x = x0 - gamma g + e with ||e||^2 / 2 <= eps
        e = Point()
        g = Point()
        fx = Expression()
        eps = Expression()
        x = x0 - gamma * g + e
        f.add_point((x, g, fx))
        f.add_constraint(e ** 2 / 2 <= eps)
        return x, g, fx, x, g, fx, eps
    elif opt == 'PD_gapIII':
        # v = (x0 - x) / gamma in d_eps f(x) written through a point w with v in df(w)
        x = Point()
        g = Point()
        w = Point()
        fw = Expression()
        fx = Expression()
        eps = Expression()
        v = (x0 - x) / gamma
        f.add_point((x, g, fx))
        f.add_point((w, v, fw))
        f.add_constraint(gamma * (fx - fw - v * (x - w)) <= eps)
        return x, g, fx, w, v, fw, eps
    else:
        raise ValueError("unknown option")


# sort of each positional parameter (the implementation's parameters are matched by position)
PARAM_SORTS = {
    "proximal_step": ["point", "function", "scalar"],
    "inexact_gradient_step": ["point", "function", "scalar", "scalar", "option"],
    "exact_linesearch_step": ["point", "function", "points"],
    "linear_optimization_step": ["point", "function"],
    "bregman_gradient_step": ["point", "point", "function", "scalar"],
    "bregman_proximal_step": ["point", "function", "function", "scalar"],
    "epsilon_subgradient_step": ["point", "function", "scalar"],
    "inexact_proximal_step": ["point", "function", "scalar", "option"],
}
