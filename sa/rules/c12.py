"""C12 -- a model's result does not depend on what happened earlier in the process."""
from . import state, c06, solveprog

LEVEL = "other"
EXPLANATION = ("Inventory of process-global mutable state of the core package (class-body counters / containers written through the class, "
               "module-level objects) against the reset routine that PEP.__init__ calls first; every verbosity guard encloses output only; "
               "no identity / hash / set-order / randomness / clock dependence anywhere in the package. Holds for every history because the "
               "rules are about which cells exist and where they are re-initialised, not about particular models. The module-level null objects are shared by all "
               "models: no arithmetic, in-place or comparison special method of the DSL classes writes to an operand (R-NOMUT).")
TRUSTED = ["CPython ast", "effect summaries of sa/effects.py (writes classified by root object)"]
ASSUMPTIONS = ["bit-for-bit equality of solver input follows from the absence of surviving state only structurally; numeric libraries are deterministic"]


def run(ctx):
    n = state.r_reset(ctx)
    state.r_process_memo(ctx)   # memo tables of functools decorators and defaults evaluated once survive the reset routine
    v = state.r_verbose(ctx)
    state.r_determ(ctx)
    solveprog.r_solve_program(ctx, {"verbosity"})
    c06.r_nomut(ctx, operands_only=True)   # null_point / null_expression are shared by every model: no operator (in-place ones included) writes to an operand
    state.r_memo(ctx, exits=False)  # module-level null objects (derived points / expressions) keep no value from an earlier model
    ctx.floor("class-level state cells", n, 8)
    ctx.floor("verbosity guards", v, 20)
