"""C08 -- primitive steps encode exactly their defining optimality conditions (translation validation against spec/steps.py)."""
import ast
import itertools
import os

from ..model import AnalysisError, src, loc, call_name, dotted, params_of, norm_stmt, is_const, get_arg, strip_docstrings, set_parents
from ..nf import (Evaluator, Rat, PointV, ExprV, ConsV, TupleV, Opaque, SortError, values_equal)
from .. import flow
from ..core import VERIF
from . import c16

LEVEL = "translation_validation"
EXPLANATION = ("Each of the 8 step functions is interpreted abstractly once per option literal found in the code (12 paths): fresh leaves are atoms, "
               "parameters are symbols, every returned value, recorded sample (per function argument), side constraint (normal form and sense) and "
               "oracle query is collected and compared, up to renaming of the fresh leaves, with the same interpretation of the reference step in "
               "spec/steps.py (transcribed from the step docstrings). Every option dispatch must be closed by a raise."
               " R-STEPOPT: the unknown-option probe is also run with each numeric argument equal to 0 (a symbol equals nothing but itself).")
TRUSTED = ["CPython ast", "spec/steps.py is a faithful transcription of the documented optimality conditions", "sa/nf.py arithmetic",
           "operator overloads deliver the vector-space calculus (C06)"]
ASSUMPTIONS = ["that the real operation on a real function satisfies what was recorded is mathematics, not decided here"]


class Raised(Exception):
    pass


class StepInterp(Evaluator):
    def __init__(self, fn, sorts, option):
        super().__init__({})
        self.fn = fn
        self.option = option
        self.events = []
        self.fresh_atoms = []     # (atom, sort)
        self.ret = None
        self.option_literals = set()
        self.in_forall = None
        ps = params_of(fn)
        if len(ps) != len(sorts):
            raise AnalysisError("%s takes %d parameters, the reference %d" % (fn.name, len(ps), len(sorts)))
        for k, (p, s) in enumerate(zip(ps, sorts)):
            if s == "point":
                self.env[p] = PointV.atom("arg%d" % k)
            elif s == "scalar":
                self.env[p] = Rat.sym("arg%d" % k)
            elif s == "function":
                self.env[p] = Opaque("function", "F%d" % k)
            elif s == "points":
                self.env[p] = Opaque("points", "arg%d" % k)
            elif s == "option":
                self.env[p] = Opaque("option", option)
            else:
                raise AnalysisError("unknown parameter sort %s" % s)

    def new(self, sort):
        a = "new%d" % (len(self.fresh_atoms) + 1)
        self.fresh_atoms.append((a, sort))
        return PointV.atom(a) if sort == "point" else ExprV.atom(a)

    def name(self, node):
        raise AnalysisError("%s: unbound name %s" % (self.fn.name, node.id))

    def attribute(self, node):
        raise AnalysisError("%s: attribute %s outside the analysed fragment" % (self.fn.name, src(node)))

    def call(self, node):
        nm = call_name(node)
        if isinstance(node.func, ast.Name) and nm in ("Point", "Expression"):
            leaf = get_arg(node, 0, "is_leaf")
            if leaf is None or is_const(leaf, True):
                return self.new("point" if nm == "Point" else "expr")
            raise AnalysisError("%s: derived object built by hand in a step (%s)" % (self.fn.name, src(node)))
        if isinstance(node.func, ast.Attribute):
            recv = self.ev(node.func.value) if isinstance(node.func.value, ast.Name) else None
            if isinstance(recv, Opaque) and recv.tag == "function":
                F = recv.payload
                if nm in ("oracle", "value", "gradient", "subgradient"):
                    arg = get_arg(node, 0, "point")
                    x = self.ev(arg)
                    if not isinstance(x, PointV):
                        raise SortError("%s queried at a non-point" % nm)
                    self.events.append((nm if nm != "subgradient" else "gradient", F, x, self.in_forall))
                    if nm == "oracle":
                        return TupleV([self.new("point"), self.new("expr")])
                    return self.new("expr") if nm == "value" else self.new("point")
                if nm in ("get_name",):
                    return Opaque("str")
            if nm in ("format", "get_name"):
                return Opaque("str")
        raise AnalysisError("%s: call %s outside the analysed fragment" % (self.fn.name, src(node)))

    def ev_Compare(self, node):
        if len(node.ops) == 1:
            l = node.left
            if isinstance(l, ast.Name) and isinstance(self.env.get(l.id), Opaque) and self.env[l.id].tag == "option":
                r = node.comparators[0]
                if isinstance(r, ast.Constant) and isinstance(node.ops[0], (ast.Eq, ast.NotEq)):
                    self.option_literals.add(r.value)
                    eq = self.env[l.id].payload == r.value
                    return Opaque("bool", eq if isinstance(node.ops[0], ast.Eq) else not eq)
                if isinstance(r, (ast.Tuple, ast.List, ast.Set)) and isinstance(node.ops[0], (ast.In, ast.NotIn)) \
                        and all(isinstance(x, ast.Constant) for x in r.elts):
                    for x in r.elts:
                        self.option_literals.add(x.value)
                    inn = self.env[l.id].payload in [x.value for x in r.elts]
                    return Opaque("bool", inn if isinstance(node.ops[0], ast.In) else not inn)
        return super().ev_Compare(node)

    # -- statements -----------------------------------------------------------------------------
    def run(self, stmts):
        for s in stmts:
            if self.ret is not None:
                return
            self.stmt(s)

    def _is_text(self, e):
        """An expression that only builds a name / message: f-string, str constant, .format(...), concatenations of those."""
        if isinstance(e, ast.JoinedStr) or (isinstance(e, ast.Constant) and isinstance(e.value, str)):
            return True
        if isinstance(e, ast.Call) and call_name(e) in ("format", "get_name", "str", "join"):
            return True
        if isinstance(e, ast.BinOp) and isinstance(e.op, (ast.Add, ast.Mod)):
            return self._is_text(e.left) or self._is_text(e.right)
        if isinstance(e, ast.Name) and isinstance(self.env.get(e.id), Opaque) and self.env[e.id].tag == "str":
            return True
        return False

    def stmt(self, s):
        if isinstance(s, ast.Assign) and len(s.targets) == 1 and isinstance(s.targets[0], ast.Name) and self._is_text(s.value):
            self.env[s.targets[0].id] = Opaque("str")
            return
        if isinstance(s, ast.Assign) and len(s.targets) == 1:
            v = self.ev(s.value)
            self.bind(s.targets[0], v)
        elif isinstance(s, ast.AugAssign) and isinstance(s.target, ast.Name) and s.target.id in self.env:
            self.env[s.target.id] = self.ev(ast.BinOp(left=ast.Name(id=s.target.id, ctx=ast.Load()), op=s.op, right=s.value))
        elif isinstance(s, ast.Expr) and isinstance(s.value, ast.Call):
            c = s.value
            nm = call_name(c)
            if isinstance(c.func, ast.Attribute) and isinstance(c.func.value, ast.Name):
                recv = self.env.get(c.func.value.id)
                if isinstance(recv, Opaque) and recv.tag == "function" and nm == "add_point":
                    t = self.ev(get_arg(c, 0, "triplet"))
                    if not (isinstance(t, TupleV) and len(t.items) == 3 and isinstance(t.items[0], PointV) and isinstance(t.items[1], PointV) and isinstance(t.items[2], ExprV)):
                        raise SortError("add_point receives %s, not (point, point, expression)" % t)
                    self.events.append(("rec", recv.payload, t, self.in_forall))
                    return
                if isinstance(recv, Opaque) and recv.tag == "function" and nm == "add_constraint":
                    cons = self.ev(get_arg(c, 0, "constraint"))
                    if not isinstance(cons, ConsV):
                        raise SortError("add_constraint receives %s" % cons)
                    self.events.append(("con", recv.payload, cons, self.in_forall))
                    return
                if nm == "set_name":
                    return
                if isinstance(recv, Opaque) and recv.tag == "function":
                    self.ev(c)
                    return
            raise AnalysisError("%s: statement `%s` outside the analysed fragment" % (self.fn.name, norm_stmt(s)[:70]))
        elif isinstance(s, ast.If):
            t = self.ev(s.test)
            if not (isinstance(t, Opaque) and t.tag == "bool"):
                raise AnalysisError("%s: branch on `%s` outside the analysed fragment" % (self.fn.name, src(s.test)))
            self.run(s.body if t.payload else s.orelse)
            if not t.payload and not s.orelse:
                self.fell_through_dispatch = True
        elif isinstance(s, ast.For):
            it = self.ev(s.iter) if isinstance(s.iter, ast.Name) else None
            if not (isinstance(it, Opaque) and it.tag == "points" and isinstance(s.target, ast.Name)):
                raise AnalysisError("%s: loop over `%s` outside the analysed fragment" % (self.fn.name, src(s.iter)))
            if self.in_forall:
                raise AnalysisError("%s: nested loops" % self.fn.name)
            self.in_forall = it.payload
            self.env[s.target.id] = PointV.atom("each(%s)" % it.payload)
            self.run(s.body)
            self.in_forall = None
        elif isinstance(s, ast.Return):
            v = self.ev(s.value)
            self.ret = v.items if isinstance(v, TupleV) else [v]
        elif isinstance(s, ast.Raise):
            raise Raised(c16._exc_name(s))
        elif isinstance(s, ast.Pass):
            return
        else:
            raise AnalysisError("%s: statement kind %s outside the analysed fragment" % (self.fn.name, type(s).__name__))

    def bind(self, target, v):
        if isinstance(target, ast.Name):
            self.env[target.id] = v
        elif isinstance(target, ast.Tuple):
            if not isinstance(v, TupleV) or len(v.items) != len(target.elts):
                raise AnalysisError("%s: cannot unpack %s" % (self.fn.name, src(target)))
            for t, x in zip(target.elts, v.items):
                self.bind(t, x)
        else:
            raise AnalysisError("%s: assignment target %s" % (self.fn.name, src(target)))


FALLBACKS = []


def interpret(fn, sorts, option, repo=None, engine=None):
    """By unrolling (rules/stepprog.py); the small symbolic interpreter below is the fall-back for a step outside the unrolling fragment.
    -> (result, outcome, engine used); a step and its reference are always interpreted by the same engine."""
    from . import stepprog
    if engine in (None, "unrolled"):
        try:
            return stepprog.interpret(fn, sorts, option, repo) + ("unrolled",)
        except SortError:
            raise
        except AnalysisError as first:
            if engine == "unrolled":
                raise
            FALLBACKS.append("%s[%s]: %s" % (fn.name, option, first))
            try:
                return _interpret_symbolic(fn, sorts, option) + ("symbolic",)
            except AnalysisError:
                raise first
    return _interpret_symbolic(fn, sorts, option) + ("symbolic",)


def _interpret_symbolic(fn, sorts, option):
    it = StepInterp(fn, sorts, option)
    try:
        it.run(fn.body)
        outcome = "returns" if it.ret is not None else "falls through"
    except Raised as e:
        outcome = "raises " + str(e)
    return it, outcome


def _rename(v, m):
    if isinstance(v, (PointV, ExprV, ConsV)):
        return v.rename(m)
    if isinstance(v, TupleV):
        return TupleV([_rename(x, m) for x in v.items])
    return v


def compare(impl, spec):
    """None when equal up to renaming of fresh atoms, else a description of the closest mismatch."""
    pi = [a for a, s in impl.fresh_atoms if s == "point"]
    ps = [a for a, s in spec.fresh_atoms if s == "point"]
    ei = [a for a, s in impl.fresh_atoms if s == "expr"]
    es = [a for a, s in spec.fresh_atoms if s == "expr"]
    if len(impl.ret or []) != len(spec.ret or []):
        return "returns %d values, documented %d" % (len(impl.ret or []), len(spec.ret or []))
    if len(impl.events) != len(spec.events):
        return "records %s, documented %s" % (_summ(impl.events), _summ(spec.events))
    if (len(pi), len(ei)) != (len(ps), len(es)):
        return "creates %d fresh points and %d fresh expressions, documented %d and %d" % (len(pi), len(ei), len(ps), len(es))
    best = None
    for pp in itertools.permutations(ps):
        for pe in itertools.permutations(es):
            m = dict(zip(pi, ["@" + a for a in pp]))
            m.update(zip(ei, ["@" + a for a in pe]))
            ms = {a: "@" + a for a in ps + es}
            why = _diff(impl, spec, m, ms)
            if why is None:
                return None
            if best is None or why[0] > best[0]:
                best = why
    return best[1]


def _diff(impl, spec, m, ms):
    score = 0
    for k, (a, b) in enumerate(zip(impl.ret, spec.ret)):
        if not values_equal(_rename(a, m), _rename(b, ms)):
            return (score, "returned value %d is `%s`, documented `%s`" % (k + 1, a, b))
        score += 1
    rest = list(spec.events)
    for e in impl.events:
        hit = None
        for r in rest:
            if e[0] == r[0] and e[1] == r[1] and e[3] == r[3] and values_equal(_rename(e[2], m), _rename(r[2], ms)):
                hit = r
                break
        if hit is None:
            cands = [r for r in rest if r[0] == e[0]]
            return (score, "%s on %s: `%s`%s matches no documented %s (%s)" % (
                {"rec": "sample recorded", "con": "side constraint", "oracle": "oracle query", "value": "value query", "gradient": "gradient query"}[e[0]],
                e[1], e[2], " for every element of %s" % e[3] if e[3] else "", e[0], "; ".join("on %s: `%s`" % (r[1], r[2]) for r in cands) or "none"))
        rest.remove(hit)
        score += 1
    return None


def _summ(events):
    out = {}
    for e in events:
        out[e[0]] = out.get(e[0], 0) + 1
    return out


def load_spec():
    p = os.path.join(VERIF, "spec", "steps.py")
    with open(p) as fh:
        text = fh.read()
    tree = set_parents(strip_docstrings(ast.parse(text)))
    fns = {n.name: n for n in tree.body if isinstance(n, ast.FunctionDef)}
    sorts = None
    for n in tree.body:
        if isinstance(n, ast.Assign) and isinstance(n.targets[0], ast.Name) and n.targets[0].id == "PARAM_SORTS":
            sorts = ast.literal_eval(n.value)
    return fns, sorts


def step_functions(repo, spec_names=()):
    out = {}
    for rel, m in repo.modules.items():
        if rel.startswith("PEPit/primitive_steps/") and not rel.endswith("__init__.py"):
            base = os.path.basename(rel)[:-3]
            for name, fn in m.functions.items():
                # the step of a module is the public function the module is named after (others are helpers: followed when the step calls them)
                if not name.startswith("_") and (name == base or name in spec_names):
                    out[name] = fn
    return out


def r_addconstraint(ctx):
    fn = ctx.repo.cls("Function").methods.get("add_constraint")
    if fn is None:
        raise AnalysisError("Function.add_constraint missing")
    p0 = params_of(fn)[1]
    pc = flow.path_counts(fn.body, lambda n: isinstance(n, ast.Call) and call_name(n) == "append" and dotted(n.func.value) == "self.list_of_constraints"
                          and n.args and dotted(n.args[0]) == p0)
    normal = pc.get("next", set()) | pc.get("return", set())
    ctx.ob("R-ADDCONS", "Function.add_constraint::registered", normal == {1},
           "every side constraint handed to add_constraint is appended to list_of_constraints, on every path" if normal == {1} else
           "add_constraint can complete without storing the constraint (appends per path: %s)" % sorted(normal), loc(fn, fn))


def r_step_option_rejection(ctx):
    """An option value that is not one of the documented ones is refused (ValueError) whatever the numeric arguments are -- also when one of them
    is 0, the value for which a step may have a shortcut that returns before the option is looked at."""
    from . import stepprog
    spec_fns, sorts = load_spec()
    steps = step_functions(ctx.repo, set(spec_fns))
    n = 0
    for name, fn in sorted(steps.items()):
        srt = sorts.get(name)
        if srt is None or "option" not in srt:
            continue
        scalars = [k for k, s0 in enumerate(srt) if s0 == "scalar"]
        cases = [()] + [(k,) for k in scalars] + ([tuple(scalars)] if len(scalars) > 1 else [])
        bad = None
        for zeros in cases:
            n += 1
            try:
                _r, out = stepprog.interpret(fn, srt, "\0none", ctx.repo, zeros=zeros)
            except (SortError, AnalysisError) as e:
                ctx.notes.append("R-STEPOPT: %s not unrolled (%s); the option dispatch is decided on the symbolic run of R-STEP only" % (name, e))
                bad = None
                break
            if not out.startswith("raises ValueError"):
                ps = params_of(fn)
                bad = "with %s an unknown option value %s instead of being refused with a ValueError" % (
                    ", ".join("%s = 0" % ps[k] for k in zeros) if zeros else "generic arguments", out)
                break
        ctx.ob("R-STEPOPT", "%s::unknown option refused for every numeric argument" % name, bad is None,
               "an unknown option value raises ValueError, also when a numeric argument is 0" if bad is None else bad, loc(fn, fn))
    ctx.count("option-rejection runs of steps", n)
    return n


def r_step_routes(ctx):
    """C07, the route through a step: a step that records a sample of its own on a function (add_point) records it at a point that involves
    something the step has just created -- at a point that is given to the step, the function may already have a value (and a gradient), and only
    its oracle knows; a sample written next to it gives the function two values there."""
    spec_fns, sorts = load_spec()
    steps = step_functions(ctx.repo, set(spec_fns))
    n = 0
    for name, fn in sorted(steps.items()):
        if name not in spec_fns:
            continue
        srt = sorts[name]
        try:
            probe, _o, _e = interpret(fn, srt, "\0none", ctx.repo)
            opts = sorted(probe.option_literals) if "option" in srt else [None]
        except (SortError, AnalysisError) as e:
            ctx.notes.append("R-ROUTE: %s not interpretable (%s); R-STEP under C08 reports it" % (name, e))
            continue
        for opt in opts:
            try:
                ii, io, _e = interpret(fn, srt, opt, ctx.repo)
            except (SortError, AnalysisError) as e:
                ctx.notes.append("R-ROUTE: %s[%s] not interpretable (%s); R-STEP under C08 reports it" % (name, opt, e))
                continue
            fresh = {a for a, _s in ii.fresh_atoms}
            bad = None
            for ev in ii.events:
                if ev[0] == "rec" and isinstance(ev[2], TupleV) and isinstance(ev[2].items[0], PointV):
                    n += 1
                    if not (set(ev[2].items[0].atoms()) & fresh):
                        bad = "records the sample %s on %s at the point %s, which is given to the step: if the function was evaluated there before, " \
                              "it now has two values (and a differentiable one two gradients) at that point; only its oracle knows" % (ev[2], ev[1], ev[2].items[0])
                        break
            key = "%s[%s]" % (name, opt) if opt is not None else name
            ctx.ob("R-ROUTE", key + "::own samples at new points only", bad is None,
                   "every sample the step records itself sits at a point made from something the step created" if bad is None else bad, loc(fn, fn))
    ctx.count("samples recorded by steps", n)
    return n


def run(ctx):
    spec_fns, sorts = load_spec()
    steps = step_functions(ctx.repo, set(spec_fns))
    ctx.count("step functions", len(steps))
    npaths = 0
    for name, fn in sorted(steps.items()):
        ctx.unit(name)
        if name not in spec_fns:
            raise AnalysisError("step %s has no reference in spec/steps.py" % name)
        sfn = spec_fns[name]
        srt = sorts[name]
        has_opt = "option" in srt
        # option literals of the reference and of the implementation
        probe_s, _, _e = interpret(sfn, srt, "\0none")
        lits_s = probe_s.option_literals
        try:
            probe_i, out_i, _e = interpret(fn, srt, "\0none", ctx.repo)
            lits_i = probe_i.option_literals
        except (SortError, AnalysisError) as e:
            ctx.ob("R-STEP", "%s" % name, False, "not interpretable: %s" % e, loc(fn, fn))
            continue
        if has_opt:
            ok = lits_i == lits_s
            ctx.ob("R-STEP", "%s::options" % name, ok, "accepts exactly %s" % sorted(lits_s) if ok else "dispatches on %s, documented %s" % (sorted(lits_i), sorted(lits_s)), loc(fn, fn))
            okr = out_i.startswith("raises ValueError")
            ctx.ob("R-STEP", "%s::unknown option" % name, okr, "any other option value raises ValueError" if okr else "an unknown option value %s" % out_i, loc(fn, fn))
            # the default value is a documented option
            d = fn.args.defaults[-1] if fn.args.defaults else None
            ds = sfn.args.defaults[-1] if sfn.args.defaults else None
            okd = d is not None and ds is not None and isinstance(d, ast.Constant) and d.value == ds.value
            ctx.ob("R-STEP", "%s::default option" % name, okd, "default option is %r" % (ds.value if ds is not None else None) if okd else
                   "default option is %s, documented %s" % (src(d) if d is not None else None, src(ds) if ds is not None else None), loc(fn, fn))
        for opt in (sorted(lits_s | lits_i) if has_opt else [None]):
            npaths += 1
            key = "%s[%s]" % (name, opt) if opt is not None else name
            ctx.count("programs")
            try:
                ii, io, eng = interpret(fn, srt, opt, ctx.repo)
                si, so, _e = interpret(sfn, srt, opt, None, engine=eng)
            except SortError as e:
                ctx.ob("R-STEP", key, False, "operand kinds: %s" % e, loc(fn, fn))
                continue
            except AnalysisError as e:
                ctx.ob("R-STEP", key, False, "not interpretable: %s" % e, loc(fn, fn))
                continue
            if so != io:
                ctx.ob("R-STEP", key, False, "the step %s, the documented step %s" % (io, so), loc(fn, fn))
                continue
            why = compare(ii, si) if so == "returns" else None
            if why:
                ctx.count("disagreements_checked")
            ctx.ob("R-STEP", key, why is None, "returns, records and constrains exactly what is documented" if why is None else why, loc(fn, fn))
            ctx.sample({"step": key, "returns": [str(v) for v in (ii.ret or [])],
                        "events": [(e[0], e[1], str(e[2])) for e in ii.events], "verdict": "equal" if why is None else why})
    ctx.count("step paths", npaths)
    for f0 in sorted(set(FALLBACKS)):
        ctx.notes.append("R-STEP: unrolling left the fragment, symbolic interpreter used instead: %s" % f0)
    del FALLBACKS[:]
    # the steps record through Function.add_point / add_constraint: these must register what they are given on every path
    from . import c07
    c07.with_system(ctx, c07.r_addpoint)
    r_addconstraint(ctx)
    r_step_option_rejection(ctx)
    ctx.floor("step functions", len(steps), 8)
    ctx.floor("step paths", npaths, 10)
