"""C02 -- primal output is a feasible, self-consistent worst-case instance."""
from . import pepsolve, translate, wrappers, c16, mosekprog, solveprog

LEVEL = "other"
EXPLANATION = ("Lock-step leaf creation (index taken, counter incremented, object registered) and post-solve assignment of every registered leaf at its "
               "own index from the triangular factor of the clipped Gram matrix -- constructors and assignment routine unrolled, numpy kept as algebraic terms (R-LEAFREG); sibling agreement and exhaustiveness of the consumers of an "
               "expression decomposition (R-KEYKINDS); one constraint objective <= metric per metric (R-OBJ); accumulation shape of the eval accessors "
               "(R-EVALSHAPE).")
TRUSTED = ["CPython ast", "numpy: qr(A, mode='r') returns R with R^T R = A^T A; eigh returns an orthonormal eigenbasis"]
ASSUMPTIONS = ["Gram reproduction, feasibility up to tolerance and primal <= dual are numeric facts, not decided"]


def run(ctx):
    translate.r_leafreg(ctx)
    translate.r_keykinds(ctx)
    pepsolve.r_obj(ctx)
    translate.r_evalshape(ctx)
    c16.r_operand_access(ctx)
    c16.ensure_accessor_programs(ctx)    # after a solve the accessors return the value of the object they belong to (entries of an LMI at their own positions)
    pepsolve.r_primalflow(ctx)
    wrappers.r_lmienc(ctx)
    mosekprog.r_solve_call(ctx)
    solveprog.r_solve_program(ctx, {"primal", "return"})
    wrappers.r_mainvars(ctx)
    wrappers.r_trilorder(ctx)
    ctx.floor("decomposition consumers", ctx.analysed.get("decomposition consumers", 0), 4)
