"""The class-constraint hooks as programs (R-HOOKPROG).

`add_class_constraints` of each of the class families is unrolled by sa/miniint.py on a small concrete function object of that class: three recorded
samples (x_k, g_k, f_k) whose components are atoms of the exact calculus of sa/nf.py, symbolic class parameters, and -- where the class has them --
a declared stationary sample (x_s, 0, f_s), an adjoint with two samples of its own, a partition with two blocks, a displacement vector.  Everything
the hook goes through is followed: the two generators of Function, condition callbacks (methods, static methods, lambdas, partials, local
functions), private helpers, comprehensions, itertools.  What matters is what arrives in `list_of_class_constraints` / `list_of_class_psd`.

The expected content is computed from the reference table spec/classes.py: every reference condition is instantiated on every element of its
domain of the same concrete samples (ordered pairs of different samples, unordered pairs, single samples, stationary x all, all x adjoint, per block)
under the guard it is documented with.

  sound    (C03)  every emitted condition is equivalent to an expected instance, or provably weaker than one;
  complete (C04)  every expected instance is emitted exactly once, and nothing else (weaker conditions included) is emitted;
                  the LMIs built have the expected symmetric part entry by entry.

Each family is run in the configurations that change what is expected: guarded parameter finite / infinite, displacement vector given / absent,
stationary sample declared / not declared."""
import ast
import itertools
from fractions import Fraction
from ..model import AnalysisError, src, loc, call_name, dotted, params_of, get_arg, clone
from ..miniint import IndexInterp, SymObj, VecObj, Matrix, Closure, ProgramRaise, is_token
from ..nf import Rat, PointV, ExprV, ConsV, Evaluator, parse_expr, SortError
from .. import classes as K
from . import formula
from .stepprog import _Interp as _CmpInterp
from .genprog import _shape

INF = ("attr", "np.inf")


class Bound:
    """a method of the modelled function object held as a value (a condition callback)"""

    def __init__(self, obj, fn, preset_args=(), preset_kw=None):
        self.obj, self.fn, self.preset_args, self.preset_kw = obj, fn, tuple(preset_args), dict(preset_kw or {})


class _Interp(_CmpInterp):
    repo = None

    def ev(self, e):
        if isinstance(e, ast.Attribute):
            d = dotted(e)
            if d in ("np.inf", "numpy.inf", "math.inf"):
                return INF
            if isinstance(e.value, (ast.Name, ast.Attribute)) and not (d and d in self.env):
                try:
                    base = self.ev(e.value)
                except AnalysisError:
                    base = None
                if isinstance(base, SymObj) and base.attrs.get("_cls") is not None and e.attr not in base.attrs:
                    m = base.attrs["_cls"].find_method(e.attr)
                    if m is not None:
                        return Bound(base, m)
                if isinstance(base, list) and e.attr == "shape":
                    return _shape(base)
        if isinstance(e, ast.Compare) and len(e.ops) == 1:
            a, b = self.ev(e.left), self.ev(e.comparators[0])
            if a == INF or b == INF:
                other = b if a == INF else a
                same = other == INF
                if isinstance(e.ops[0], (ast.Eq, ast.Is)):
                    return same
                if isinstance(e.ops[0], (ast.NotEq, ast.IsNot)):
                    return not same
                if isinstance(e.ops[0], (ast.Lt, ast.LtE)):
                    return (b == INF) if not same else isinstance(e.ops[0], ast.LtE)
                if isinstance(e.ops[0], (ast.Gt, ast.GtE)):
                    return (a == INF) if not same else isinstance(e.ops[0], ast.GtE)
            if (type(a).__name__ == "Rat" or type(b).__name__ == "Rat") and isinstance(e.ops[0], (ast.Lt, ast.LtE, ast.Gt, ast.GtE)) \
                    and not isinstance(a, VecObj) and not isinstance(b, VecObj):
                raise AnalysisError("ordering of a symbolic class parameter in `%s`" % src(e)[:60])
            self.env["__cmp_a"], self.env["__cmp_b"] = a, b
            try:
                return super().ev(ast.Compare(left=ast.Name(id="__cmp_a", ctx=ast.Load()), ops=e.ops, comparators=[ast.Name(id="__cmp_b", ctx=ast.Load())]))
            finally:
                self.env.pop("__cmp_a", None)
                self.env.pop("__cmp_b", None)
        return super().ev(e)


class _Run:
    def __init__(self, repo, cls, cfg):
        self.repo, self.cls, self.cfg = repo, cls, cfg
        self.new_leaves = 0

    def leaf(self, sort, label):
        return VecObj("Point", PointV.atom(label), name=None) if sort == "point" else VecObj("Expression", ExprV.atom(label), name=None)

    def call_function(self, fn, obj, args, kws, it, node):
        a = fn.args
        if a.vararg or a.kwarg or a.kwonlyargs or it.depth >= 8:
            raise AnalysisError("call `%s` outside the hook-program fragment" % src(node)[:60])
        ps = [x.arg for x in a.posonlyargs + a.args]
        static = any(isinstance(d0, ast.Name) and d0.id == "staticmethod" for d0 in fn.decorator_list)
        env2 = {k0: v0 for k0, v0 in it.env.items() if "." in k0 or (is_token(v0) and v0[0] == "type")}
        if getattr(fn, "_cls", None) is not None and not static:
            env2[ps[0]] = obj
            ps = ps[1:]
        defaults = dict(zip(ps[len(ps) - len(a.defaults):], a.defaults))
        for k0, p0 in enumerate(ps):
            if k0 < len(args):
                env2[p0] = args[k0]
            elif p0 in kws:
                env2[p0] = kws[p0]
            elif p0 in defaults:
                env2[p0] = it.ev(defaults[p0])
            else:
                raise ProgramRaise("TypeError", "missing argument `%s` in `%s`" % (p0, src(node)[:50]))
        extra = [k0 for k0 in kws if k0 not in ps]
        if extra or len(args) > len(ps):
            raise ProgramRaise("TypeError", "unexpected argument in `%s`" % src(node)[:50])
        sub = type(it).__new__(type(it))
        sub.__dict__.update(it.__dict__)
        sub.__dict__.pop("ev", None)
        sub.env = env2
        sub.depth = it.depth + 1
        mod = getattr(fn, "_module", None)
        c0 = getattr(fn, "_cls", None)
        sub.home = (self.repo, mod, c0.name if c0 is not None else None) if mod is not None else it.home
        try:
            return sub.run(fn.body)
        finally:
            it.steps = sub.steps

    def partition_call(self, nm, vals, node):
        if nm == "get_nb_blocks" and not vals:
            return 2
        if nm == "get_block" and len(vals) == 2:
            p, k = vals
            if isinstance(p, VecObj) and isinstance(p.val, PointV) and isinstance(k, int):
                return VecObj("Point", PointV({("P", "k%d" % k, a0): w0 for a0, w0 in p.val.d.items()}))
        raise AnalysisError("partition call `%s` outside the hook-program fragment" % src(node)[:60])

    def on_call(self, node, it):
        nm = call_name(node)
        f = node.func
        # calling a value that is a bound method / partial
        if isinstance(f, ast.Name) and isinstance(it.env.get(f.id), Bound):
            b = it.env[f.id]
            args = list(b.preset_args) + it.call_args(node)
            kws = dict(b.preset_kw)
            kws.update({k.arg: it.ev(k.value) for k in node.keywords if k.arg})
            if b.obj.kind == "BlockPartition":
                return self.partition_call(b.fn.name, args + list(kws.values()), node)
            return self.call_function(b.fn, b.obj, args, kws, it, node)
        if isinstance(f, ast.Name) and nm == "partial" and node.args:
            b = it.ev(node.args[0])
            if isinstance(b, Bound):
                return Bound(b.obj, b.fn, b.preset_args + tuple(it.ev(a) for a in node.args[1:]),
                             dict(b.preset_kw, **{k.arg: it.ev(k.value) for k in node.keywords if k.arg}))
        if isinstance(f, ast.Name) and nm in ("Point", "Expression") and not (nm in it.env and not is_token(it.env[nm])):
            self.new_leaves += 1
            return self.leaf("point" if nm == "Point" else "expr", "%s created by the hook #%d" % (nm, self.new_leaves))
        if isinstance(f, ast.Name) and nm == "PSDMatrix":
            arg = get_arg(node, 0, "matrix_of_expressions")
            return SymObj("PSDMatrix", label="lmi", matrix=it.ev(arg), name=None)
        if isinstance(f, ast.Name) and nm == "isinstance" and len(node.args) == 2:
            return NotImplemented
        if isinstance(f, ast.Attribute) and isinstance(f.value, ast.Name) and f.value.id not in it.env and it.home is not None and it.home[1] is not None:
            # <Class>.<method>(...): a method of another class of the package called through the class (a condition borrowed from a sibling family)
            from ..model import ClassInfo
            r0 = self.repo.resolve_name(it.home[1], f.value.id)
            if isinstance(r0, ClassInfo):
                m = r0.find_method(nm)
                if m is not None:
                    args = it.call_args(node)
                    kws = {k.arg: it.ev(k.value) for k in node.keywords if k.arg}
                    static = any(isinstance(d0, ast.Name) and d0.id == "staticmethod" for d0 in m.decorator_list)
                    if static:
                        return self.call_function(m, None, args, kws, it, node)
                    if args:
                        return self.call_function(m, args[0], args[1:], kws, it, node)
        if isinstance(f, ast.Attribute):
            if nm == "DataFrame":
                kw = {k.arg: it.ev(k.value) for k in node.keywords if k.arg}
                args = it.call_args(node)
                return SymObj("DataFrame", label="df", data=args[0] if args else kw.get("data"), columns=kw.get("columns"), index=kw.get("index"))
            if nm in ("warn", "simplefilter"):
                return None
            try:
                recv = it.ev(f.value)
            except AnalysisError:
                return NotImplemented
            if isinstance(recv, Bound):
                return NotImplemented
            if isinstance(recv, list) and nm == "reshape":
                a = it.call_args(node)
                a = list(a[0]) if len(a) == 1 and isinstance(a[0], (tuple, list)) else a
                if a == [1, -1] and not any(isinstance(r, list) for r in recv):
                    return [list(recv)]
            if isinstance(recv, SymObj):
                if nm == "get_name" and not node.args:
                    return recv.attrs.get("name")
                if nm == "set_name":
                    recv.attrs["name"] = it.ev(node.args[0]) if node.args else it.ev(node.keywords[0].value)
                    return None
                if recv.kind == "BlockPartition" and nm in ("get_nb_blocks", "get_block"):
                    return self.partition_call(nm, it.call_args(node) + [it.ev(k.value) for k in node.keywords], node)
                c0 = recv.attrs.get("_cls")
                if c0 is not None:
                    if nm in ("stationary_point", "fixed_point") and recv.attrs.get("is_function"):
                        kw = {k.arg: it.ev(k.value) for k in node.keywords if k.arg}
                        tag = "s" if nm == "stationary_point" else "fp"
                        x = self.leaf("point", "x%s" % tag)
                        fx = self.leaf("expr", "f%s" % tag)
                        g = VecObj("Point", PointV(), name=None) if nm == "stationary_point" else x
                        sample = (x, g, fx)
                        recv.attrs["list_of_points"].append(sample)
                        if nm == "stationary_point":
                            recv.attrs["list_of_stationary_points"].append(sample)
                        self.created_stationary = True
                        return (x, g, fx) if kw.get("return_gradient_and_function_value") else x
                    m = c0.find_method(nm)
                    if m is not None and m.name != K.HOOK:
                        args = it.call_args(node)
                        kws = {k.arg: it.ev(k.value) for k in node.keywords if k.arg}
                        return self.call_function(m, recv, args, kws, it, node)
        return NotImplemented


def _params_of_class(repo, cls):
    """attributes of the instance that store constructor parameters (self.X = X)"""
    out = []
    for c in cls.mro():
        init = c.methods.get("__init__")
        if init is None:
            continue
        ps = set(params_of(init)[1:])
        for s0 in ast.walk(init):
            if isinstance(s0, ast.Assign) and len(s0.targets) == 1 and isinstance(s0.targets[0], ast.Attribute) and dotted(s0.targets[0].value) == "self" \
                    and isinstance(s0.value, ast.Name) and s0.value.id in ps:
                out.append((s0.targets[0].attr, s0.value.id))
        if c.name != "Function":
            break
    return out


def _compared_with_inf(fn):
    names = set()
    for n0 in ast.walk(fn):
        if isinstance(n0, ast.Compare) and len(n0.ops) == 1:
            for a, b in ((n0.left, n0.comparators[0]), (n0.comparators[0], n0.left)):
                if dotted(b) in ("np.inf", "numpy.inf", "math.inf") and (dotted(a) or "").startswith("self."):
                    names.add(dotted(a)[5:])
    return names


def _compared_with_none(fn):
    names = set()
    for n0 in ast.walk(fn):
        if isinstance(n0, ast.Compare) and len(n0.ops) == 1 and isinstance(n0.comparators[0], ast.Constant) and n0.comparators[0].value is None \
                and (dotted(n0.left) or "").startswith("self."):
            names.add(dotted(n0.left)[5:])
    return names


def _samples(prefix, n, first=0):
    return [(VecObj("Point", PointV.atom("%s%d" % (prefix[0], k)), name=None), VecObj("Point", PointV.atom("%s%d" % (prefix[1], k)), name=None),
             VecObj("Expression", ExprV.atom("%s%d" % (prefix[2], k)), name=None)) for k in range(first, first + n)]


class _RefEval(Evaluator):
    def __init__(self, spec, binding):
        super().__init__({})
        self.spec, self.binding = spec, binding

    def name(self, node):
        if node.id in self.binding:
            return self.binding[node.id]
        if node.id in self.spec.POINT_NAMES or node.id in self.spec.EXPR_NAMES:
            raise AnalysisError("reference name %s has no instance here" % node.id)
        return Rat.sym(node.id)

    def call(self, node):
        if isinstance(node.func, ast.Name) and node.func.id == "Pk" and len(node.args) == 1:
            p = self.ev(node.args[0])
            return PointV({("P", self.binding["__block"], a): v for a, v in p.d.items()})
        raise AnalysisError("call %s in the reference table" % src(node))


def _val(x):
    return x.val if isinstance(x, VecObj) else x


def _bind(i_sample=None, j_sample=None, stationary=None, roles=("x", "g", "f"), roles_j=None, block=None, extra=None):
    b = {}
    if i_sample is not None:
        for r0, v0 in zip(roles, i_sample):
            b[r0 + "i"] = _val(v0)
    if j_sample is not None:
        for r0, v0 in zip(roles_j or roles, j_sample):
            b[r0 + "j"] = _val(v0)
    if stationary is not None:
        b["xs"], b["fs"] = _val(stationary[0]), _val(stationary[2])
    if block is not None:
        b["__block"] = block
    b.update(extra or {})
    return b


def _expected(spec, entries, me, guards_true):
    """-> (list of (description, ConsV), list of (description, {(i, j): ExprV}))"""
    pts = me.attrs["list_of_points"]
    stat = me.attrs["list_of_stationary_points"]
    T = me.attrs.get("T")
    tpts = T.attrs["list_of_points"] if isinstance(T, SymObj) else []
    lists = {"points": (pts, ("x", "g", "f")), "stationary": (stat, ("x", "g", "f")), "T.points": (tpts, ("u", "v", "h"))}
    extra = {}
    if isinstance(me.attrs.get("v"), VecObj):
        extra["v"] = me.attrs["v"].val
    scal, lmis = [], []
    for r in entries:
        g = r.get("guard")
        if g and not guards_true.get(g, True):
            continue
        kind, _, dom = r["dom"].partition(":")
        names = dom.split("*")
        A, rolesA = lists[names[0]]
        B, rolesB = lists[names[1]] if len(names) > 1 else (None, None)
        st0 = stat[0] if stat else None

        def inst(text, **kw):
            return _RefEval(spec, _bind(extra=extra, **kw)).ev(parse_expr(text))
        if kind == "each":
            for i, s in enumerate(A):
                scal.append(("%s on sample %d" % (r["cond"], i), inst(r["cond"], i_sample=s, stationary=st0)))
        elif kind in ("pair", "pair/2", "all", "blockpair"):
            blocks = ["k0", "k1"] if kind == "blockpair" else [None]
            for blk in blocks:
                for i, si in enumerate(A):
                    for j, sj in enumerate(B):
                        if names[0] == "stationary":
                            # stationary x all: the pair (stationary sample, sample j); the stationary sample with itself is skipped
                            if sj is si:
                                continue
                            scal.append(("%s on (stationary %d, sample %d)" % (r["cond"], i, j), inst(r["cond"], j_sample=sj, stationary=si)))
                            continue
                        if kind != "all" and si is sj:
                            continue
                        if kind == "pair/2" and A is B and i > j:
                            continue
                        c = inst(r["cond"], i_sample=si, j_sample=sj, roles=rolesA, roles_j=rolesB if kind == "all" else rolesA, stationary=st0, block=blk)
                        scal.append(("%s on (sample %d, sample %d)%s" % (r["cond"], i, j, " block %s" % blk if blk else ""), c))
        elif kind == "lmi":
            M = {}
            for i, si in enumerate(A):
                for j, sj in enumerate(B):
                    M[(i, j)] = inst(r["entry"], i_sample=si, j_sample=sj, roles=rolesA, roles_j=rolesA, stationary=st0)
            lmis.append((r["entry"] + " on " + dom, M, len(A)))
        else:
            raise AnalysisError("reference domain %s" % r["dom"])
    return scal, lmis


def _equiv(a, b, symmetric_pair=None):
    if a.equivalent(b):
        return True
    return False


def _matrix_entries(m):
    """PSDMatrix model -> {(i, j): ExprV} or None"""
    mat = m.attrs.get("matrix")
    out = {}
    if isinstance(mat, Matrix):
        if not (isinstance(mat.shape, tuple) and len(mat.shape) == 2):
            return None
        for i in range(mat.shape[0]):
            for j in range(mat.shape[1]):
                v = mat.get((i, j))
                out[(i, j)] = _val(v) if isinstance(v, VecObj) else (ExprV.const(v) if type(v).__name__ == "Rat" else (ExprV() if v == 0 else None))
        return out, mat.shape[0]
    if isinstance(mat, list) and mat and all(isinstance(r, list) for r in mat):
        for i, r in enumerate(mat):
            for j, v in enumerate(r):
                out[(i, j)] = _val(v) if isinstance(v, VecObj) else None
        return out, len(mat)
    return None


def _sympart(M, n):
    half = Rat(Fraction(1, 2))
    return {(i, j): (M[(i, j)] + M[(j, i)]).scale(half) for i in range(n) for j in range(n)}


def family_configs(repo, cls, entries):
    hook = cls.find_method(K.HOOK)
    infs = sorted(_compared_with_inf(hook) | {g.split()[0][5:] for g in (r.get("guard") or "" for r in entries) if g.endswith("!= np.inf")})
    nones = sorted({g.split()[0][5:] for g in (r.get("guard") or "" for r in entries) if g.endswith("is not None")} | (_compared_with_none(hook) & {"v"}))
    uses_stationary = any("stationary" in r["dom"] or "xs" in (r.get("cond") or r.get("entry") or "") for r in entries) or \
        any(isinstance(n0, ast.Attribute) and n0.attr == "list_of_stationary_points" for n0 in ast.walk(hook))
    axes = [[(a, True), (a, False)] for a in infs] + [[(a, "given"), (a, None)] for a in nones]
    init = cls.methods.get("__init__")
    born_with_one = init is not None and any(isinstance(n0, ast.Call) and call_name(n0) == "stationary_point" for n0 in ast.walk(init))
    if uses_stationary:
        axes.append([("__stationary", True)] if born_with_one else [("__stationary", True), ("__stationary", False)])
    return [dict(c) for c in itertools.product(*axes)] if axes else [{}]


def _adjoint(repo):
    return SymObj("Function", label="self.T", _cls=repo.cls("Function"), is_function=True, name=None, counter=8,
                  list_of_points=_samples("uvh", 2), list_of_stationary_points=[], list_of_class_constraints=[], list_of_class_psd=[],
                  tables_of_constraints={})


def _construct(repo, cls, cfg, me):
    """The constructors of the class (its own and those of the families it derives from) unrolled with symbolic parameters: whatever attribute they
    compute from the parameters (a stored 1 / L, a parent's parameter set to -rho) is on the model.  -> False when outside the fragment."""
    base = repo.cls("Function")
    saved = dict(me.attrs)

    def run_init(c, args, kws, depth=0):
        init = c.methods.get("__init__")
        if init is None:
            for b0 in c.bases:
                if b0 is not base:
                    return run_init(b0, args, kws, depth + 1)
            return
        ps = params_of(init)[1:]
        a = init.args
        defaults = dict(zip(ps[len(ps) - len(a.defaults):], a.defaults))
        env = {params_of(init)[0]: me, "Function.counter": 9, "np.inf": INF, "Expression": ("type", "Expression"), "Point": ("type", "Point"),
               "int": ("type", "int"), "float": ("type", "float"), "list": ("type", "list")}
        it = _Interp(env, on_call=None)
        it.symbolic_truth = False
        for k0, p0 in enumerate(ps):
            if k0 < len(args):
                env[p0] = args[k0]
            elif p0 in kws:
                env[p0] = kws[p0]
            elif depth == 0 and p0 in ("is_leaf", "decomposition_dict", "reuse_gradient", "name"):
                env[p0] = {"is_leaf": True, "decomposition_dict": None, "name": None}.get(p0, it.ev(defaults[p0]) if p0 in defaults else False)
            elif depth == 0 and p0 in cfg and cfg[p0] is False:
                env[p0] = INF
            elif depth == 0 and p0 in cfg and cfg[p0] is None:
                env[p0] = None
            elif depth == 0 and p0 in cfg and cfg[p0] == "given":
                env[p0] = VecObj("Point", PointV.atom(p0), name=None)
            elif depth == 0 and p0 == "partition":
                env[p0] = SymObj("BlockPartition", label="partition", _cls=repo.cls("BlockPartition"))
            elif depth == 0 and p0 == "L" and cls.name.startswith("Block"):
                env[p0] = [Rat.sym("L_k"), Rat.sym("L_k")]
            elif depth == 0:
                env[p0] = Rat.sym(p0)
            elif p0 in defaults:
                env[p0] = it.ev(defaults[p0])
            else:
                raise AnalysisError("constructor argument %s" % p0)
        it.env = env

        def on_call(node, it0):
            nm = call_name(node)
            f = node.func
            if isinstance(f, ast.Attribute) and nm == "__init__" and isinstance(f.value, ast.Call) and call_name(f.value) == "super":
                kw = {k.arg: it0.ev(k.value) for k in node.keywords if k.arg}
                for b0 in c.bases:
                    if b0 is base:
                        if "reuse_gradient" in kw:
                            me.attrs["reuse_gradient"] = kw["reuse_gradient"]
                        return None
                    return run_init(b0, it0.call_args(node), kw, depth + 1)
                return None
            if isinstance(f, ast.Name) and nm == "Function":
                return _adjoint(repo)
            if isinstance(f, ast.Name) and nm == "isinstance":
                return True
            if isinstance(f, ast.Name) and nm in ("print",):
                return None
            if isinstance(f, ast.Attribute) and dotted(f.value) == params_of(init)[0] and nm in ("stationary_point", "fixed_point"):
                x = VecObj("Point", PointV.atom("xs"), name=None)
                fx = VecObj("Expression", ExprV.atom("fs"), name=None)
                s0 = (x, VecObj("Point", PointV(), name=None), fx)
                me.attrs["list_of_points"].insert(0, s0)
                me.attrs["list_of_stationary_points"].append(s0)
                me.attrs["__born_with_stationary"] = True
                return x
            if isinstance(f, ast.Attribute) and nm in ("warn",):
                return None
            return NotImplemented
        it.on_call = on_call
        it.home = (repo, init._module, c.name)
        it.run(init.body)
    try:
        run_init(cls, [], {})
        return True
    except (AnalysisError, SortError):
        me.attrs.clear()
        me.attrs.update(saved)
        return False


def run_family(repo, cls, spec, entries, cfg, named=False):
    """-> (emitted scalar ConsV list, emitted LMIs, expected scalar list, expected LMIs, model); named: the point of the second sample has a name"""
    hook = cls.find_method(K.HOOK)
    pts = _samples("xgf", 3)
    if named:
        pts[1][0].attrs["name"] = "P1"
    me = SymObj(cls.name, label="self", _cls=cls, is_function=True, name=None, counter=7, _is_leaf=True, reuse_gradient=False,
                list_of_points=list(pts), list_of_stationary_points=[], list_of_class_constraints=[], list_of_class_psd=[],
                list_of_constraints=[], list_of_psd=[], tables_of_constraints={})
    me.attrs["decomposition_dict"] = {me: 1}
    guards_true = {}
    constructed = _construct(repo, cls, cfg, me)
    if constructed:
        for a0, v0 in cfg.items():          # attributes that are not constructor parameters (set later through a method): the configuration decides
            if a0 != "__stationary" and not any(a0 == p0 for _a, p0 in _params_of_class(repo, cls)):
                me.attrs[a0] = VecObj("Point", PointV.atom(a0), name=None) if v0 == "given" else (None if v0 is None else (INF if v0 is False else me.attrs.get(a0, Rat.sym(a0))))
    init = cls.methods.get("__init__") if not constructed else None
    if init is not None:
        for s0 in ast.walk(init):
            if isinstance(s0, ast.Assign) and len(s0.targets) == 1 and isinstance(s0.targets[0], ast.Attribute) and dotted(s0.targets[0].value) == "self" \
                    and isinstance(s0.value, ast.Constant) and s0.targets[0].attr not in me.attrs:
                a0 = s0.targets[0].attr
                me.attrs[a0] = VecObj("Point", PointV.atom(a0), name=None) if cfg.get(a0) == "given" else s0.value.value
    for attr, pname in ([] if constructed else _params_of_class(repo, cls)):
        if attr in me.attrs:
            continue
        if attr in cfg and cfg[attr] is False:
            me.attrs[attr] = INF
        elif attr in cfg and cfg[attr] is None:
            me.attrs[attr] = None
        elif attr in cfg and cfg[attr] == "given":
            me.attrs[attr] = VecObj("Point", PointV.atom(attr), name=None)
        elif attr == "partition":
            me.attrs[attr] = SymObj("BlockPartition", label="partition", _cls=repo.cls("BlockPartition"))
        elif attr == "L" and cls.name.startswith("Block"):
            me.attrs[attr] = [Rat.sym("L_k"), Rat.sym("L_k")]
        else:
            me.attrs[attr] = Rat.sym(attr)
    for k0, v0 in cfg.items():
        if k0 == "__stationary":
            continue
        guards_true["self.%s != np.inf" % k0] = v0 is True
        guards_true["self.%s is not None" % k0] = v0 == "given"
    if cfg.get("__stationary") and not me.attrs.get("__born_with_stationary"):
        s = (VecObj("Point", PointV.atom("xs"), name=None), VecObj("Point", PointV(), name=None), VecObj("Expression", ExprV.atom("fs"), name=None))
        me.attrs["list_of_points"].insert(0, s)
        me.attrs["list_of_stationary_points"].append(s)
    # an adjoint (LinearOperator): another function object with samples of its own, whose hook is empty
    if "T" not in me.attrs and any(isinstance(n0, ast.Attribute) and n0.attr == "T" and dotted(n0.value) == "self" for n0 in ast.walk(hook)):
        me.attrs["T"] = SymObj("Function", label="self.T", _cls=repo.cls("Function"), is_function=True, name=None, counter=8,
                               list_of_points=_samples("uvh", 2), list_of_stationary_points=[], list_of_class_constraints=[], list_of_class_psd=[],
                               tables_of_constraints={})
    run = _Run(repo, cls, cfg)
    run.created_stationary = False
    env = {params_of(hook)[0]: me, "Expression": ("type", "Expression"), "Point": ("type", "Point"), "tuple": ("type", "tuple"), "int": ("type", "int"),
           "float": ("type", "float"), "list": ("type", "list"), "str": ("type", "str"), "Function.counter": 9, "Point.counter": 12, "Expression.counter": 14,
           # the module-level null objects of the DSL
           "null_point": VecObj("Point", PointV(), name=None, shared="the module-level null point"),
           "null_expression": VecObj("Expression", ExprV(), name=None, shared="the module-level null expression")}
    it = _Interp(env, on_call=run.on_call)
    it.home = (repo, hook._module, cls.name)
    it.run(hook.body)
    em_s, em_l = [], []
    for c in me.attrs["list_of_class_constraints"]:
        if not (isinstance(c, SymObj) and c.kind == "Constraint" and isinstance(c.attrs.get("cons"), ConsV)):
            raise AnalysisError("%s: `%r` in list_of_class_constraints is not a comparison of expressions" % (cls.name, c))
        em_s.append(c.attrs["cons"])
    for m in me.attrs["list_of_class_psd"]:
        if not (isinstance(m, SymObj) and m.kind == "PSDMatrix"):
            raise AnalysisError("%s: `%r` in list_of_class_psd is not an LMI" % (cls.name, m))
        ent = _matrix_entries(m)
        if ent is None or any(v is None for v in ent[0].values()):
            raise AnalysisError("%s: entries of a class LMI outside the fragment" % cls.name)
        em_l.append(ent)
    ex_s, ex_l = _expected(spec, entries, me, guards_true)
    return em_s, em_l, ex_s, ex_l, me


def r_hook_programs(ctx, side, only=None):
    """side: 'sound' (C03) or 'complete' (C04).  Returns {family: True / False / None (not interpretable)} and records the obligations."""
    repo = ctx.repo
    spec = formula.load_spec()
    verdict = {}
    fams = sorted([c for c in repo.all_classes() if c.name in spec.CLASSES and c.find_method(K.HOOK) is not None and (only is None or c.name in only)],
                  key=lambda c: c.name)
    nprog = 0
    for cls in fams:
        entries = spec.CLASSES[cls.name]
        hook = cls.find_method(K.HOOK)
        ctx.unit("%s.%s" % (cls.name, K.HOOK))
        problems = []
        specific = []
        ok_runs = 0
        try:
            cfgs = family_configs(repo, cls, entries)
            for cfg in cfgs:
                label = ", ".join("%s %s" % (k0.replace("__stationary", "stationary sample"),
                                             {True: "finite / declared", False: "infinite / not declared", None: "absent", "given": "given"}[v0]) for k0, v0 in sorted(cfg.items())) or "default"
                try:
                    em_s, em_l, ex_s, ex_l, me = run_family(repo, cls, spec, entries, cfg)
                except ProgramRaise as ex:
                    problems.append("[%s] the hook raises on a well-formed function: %s" % (label, ex))
                    continue
                ok_runs += 1
                nprog += 1
                # ---- scalar conditions
                used = [0] * len(ex_s)
                for c in em_s:
                    hit = [k for k, (_d, e0) in enumerate(ex_s) if c.equivalent(e0)]
                    if hit:
                        k = min(hit, key=lambda k0: used[k0])
                        used[k] += 1
                        continue
                    weaker = any(formula.classify_relaxation(c, e0, spec) for _d, e0 in ex_s if e0.sense == "<=" and c.sense == "<=")
                    if side == "sound" and weaker:
                        continue
                    problems.append("[%s] the condition `%s` is emitted; it is %s" % (
                        label, c, "only a weakening of a documented condition" if weaker else "no instance of a documented condition of %s on these samples" % cls.name))
                    break
                else:
                    if side == "complete":
                        # an expected instance equivalent to another one (a symmetric condition on (i, j) and (j, i)) counts once
                        missing = [d for k, ((d, e0), u) in enumerate(zip(ex_s, used)) if u == 0
                                   and not any(used[k2] and ex_s[k2][1].equivalent(e0) for k2 in range(len(ex_s)) if k2 != k)]
                        # a condition documented for ALL pairs whose instances on a sample paired with itself are the only ones missing: one
                        # finding of its own (keyed by the condition), so that anything else missing in the same hook is still reported
                        import re as _re
                        diag = [d for d in missing if _re.search(r"on \(sample (\d+), sample \1\)", d)]
                        if diag and len(diag) == len(missing):
                            cond0 = diag[0].split(" on (")[0]
                            specific.append(("diagonal instances of `%s`" % cond0,
                                             "[%s] not emitted for a sample paired with itself: %s (%d instances)" % (label, diag[0], len(diag))))
                        elif missing:
                            problems.append("[%s] not emitted: %s (%d of %d expected instances missing)" % (label, missing[0], len(missing), len(ex_s)))
                # ---- LMIs
                if len(em_l) != len(ex_l) and (side == "complete" or len(em_l) > len(ex_l)):
                    problems.append("[%s] %d class LMIs are built, %d are documented" % (label, len(em_l), len(ex_l)))
                else:
                    rest = list(ex_l)
                    for ent, n in em_l:
                        got = _sympart(ent, n) if all((i, j) in ent for i in range(n) for j in range(n)) else None
                        hit = None
                        for cand in rest:
                            d, M, n2 = cand
                            if got is not None and n2 == n and all(got[k0].equals(v0) for k0, v0 in _sympart(M, n).items()):
                                hit = cand
                                break
                        if hit is None:
                            problems.append("[%s] a class LMI of size %d has not the documented entries (%s)" % (label, n, "; ".join(d for d, _m, _n in rest) or "none left"))
                            break
                        rest.remove(hit)
            verdict[cls.name] = (not problems and not specific) if ok_runs or problems else None
        except (AnalysisError, SortError) as ex:
            ctx.notes.append("R-HOOKPROG %s skipped: %s" % (cls.name, ex))
            verdict[cls.name] = None
            continue
        ctx.ob("R-HOOKPROG", "%s.%s (unrolled, %s)" % (cls.name, K.HOOK, side), not problems,
               "on three samples%s: exactly the documented conditions, instance by instance" % ("" if len(cfgs) == 1 else " in %d configurations" % len(cfgs))
               if not problems else problems[0], loc(hook, hook))
        seen = set()
        for sub, msg in specific:
            if sub not in seen:
                seen.add(sub)
                ctx.ob("R-HOOKPROG", "%s.%s (unrolled, %s)::%s" % (cls.name, K.HOOK, side, sub), False, msg, loc(hook, hook))
    ctx.count("hook programs unrolled", nprog)
    return verdict


def class_lmis_symmetric(ctx, only=None):
    """For the families whose hook is outside the hook interpreter: every class LMI built by the unrolled hook has entry (i, j) equal to entry (j, i)
    as written (the certificate drops the multipliers of the entry equalities, which is harmless only then).  -> number of LMIs examined"""
    repo = ctx.repo
    spec = formula.load_spec()
    n = 0
    for cls in sorted([c for c in repo.all_classes() if c.name in spec.CLASSES and c.find_method(K.HOOK) is not None and (only is None or c.name in only)],
                      key=lambda c: c.name):
        entries = spec.CLASSES[cls.name]
        if not any(r["dom"].startswith("lmi") for r in entries):
            continue
        hook = cls.find_method(K.HOOK)
        try:
            cfg = family_configs(repo, cls, entries)[0]
            em_s, em_l, ex_s, ex_l, me = run_family(repo, cls, spec, entries, cfg)
        except (AnalysisError, SortError) as ex:
            raise AnalysisError("class LMIs of %s: hook outside the structural and the unrolling fragment (%s)" % (cls.name, ex))
        for k, (ent, size) in enumerate(em_l):
            n += 1
            bad = [(i, j) for i in range(size) for j in range(i) if not ent[(i, j)].equals(ent[(j, i)])]
            ctx.ob("R-LMIDUAL", "%s::class LMI #%d::symmetric-as-written (unrolled)" % (cls.name, k + 1), not bad,
                   "entry (i, j) equals entry (j, i) on three samples" if not bad else
                   "entry %s differs from its mirror: the solver is given entry equalities whose multipliers the certificate drops" % (bad[0],), loc(hook, hook))
    return n


def _table_problem(cls, me, label, expected=()):
    """first thing wrong with the tables of multipliers / the emitted objects of one unrolled hook (None: nothing)"""
    cons = [c for c in me.attrs["list_of_class_constraints"] if isinstance(c, SymObj)]
    twice = [c for k, c in enumerate(cons) if any(c is d for d in cons[:k])]
    if twice:
        return "[%s] one Constraint object is emitted %d times (`%s`): its cells share one name and one multiplier" % (
            label, sum(1 for d in cons if d is twice[0]), twice[0].attrs.get("cons")), 0
    ident = lambda sample, k: sample[0].attrs.get("name") or "Point_%d" % k
    lists = {"all samples": me.attrs["list_of_points"], "the stationary samples": me.attrs["list_of_stationary_points"]}
    if isinstance(me.attrs.get("T"), SymObj):
        lists["the samples of the adjoint"] = me.attrs["T"].attrs.get("list_of_points", [])
    labels = {what: [ident(s0, k) for k, s0 in enumerate(l0)] for what, l0 in lists.items()}
    fid = me.attrs.get("name") or "Function_%s" % me.attrs.get("counter")
    tabs = me.attrs.get("tables_of_constraints")
    if not isinstance(tabs, dict):
        raise AnalysisError("tables_of_constraints of %s is not a dict" % cls.name)
    n = 0
    for tname, t in tabs.items():
        for tt in (t if isinstance(t, list) else [t]):
            n += 1
            data = tt.attrs.get("data") if isinstance(tt, SymObj) and tt.kind == "DataFrame" else None
            if not (isinstance(data, list) and all(isinstance(r0, list) for r0 in data) and len({len(r0) for r0 in data}) <= 1):
                raise AnalysisError("table `%s` of %s: data outside the fragment" % (tname, cls.name))
            nr, nc = len(data), (len(data[0]) if data else 0)
            sizes = {len(l0): what for what, l0 in lists.items()}
            if nc not in sizes or (nr != 1 and nr not in sizes):
                return "[%s] the table `%s` has %d row(s) and %d column(s); the function has %s" % (
                    label, tname, nr, nc, ", ".join("%d = %s" % (k0, v0) for k0, v0 in sorted(sizes.items()))), n
            cells = [x for r0 in data for x in r0 if isinstance(x, SymObj)]
            if any(x is y for k, x in enumerate(cells) for y in cells[:k]):
                return "[%s] two cells of the table `%s` hold the same Constraint object" % (label, tname), n
            cols, rows = tt.attrs.get("columns"), tt.attrs.get("index")
            if (isinstance(cols, list) and len(cols) != nc) or (isinstance(rows, list) and len(rows) != nr):
                return "[%s] the table `%s` has %d row(s) and %d column(s) but %s row label(s) and %s column label(s)" % (
                    label, tname, nr, nc, len(rows) if isinstance(rows, list) else "no", len(cols) if isinstance(cols, list) else "no"), n
            if isinstance(cols, list) and not all(isinstance(x, str) for x in cols):
                return "[%s] the columns of the table `%s` are labelled %s, not by the names of the samples" % (label, tname, cols), n
            if isinstance(cols, list) and all(isinstance(x, str) for x in cols):
                if not any(cols == l0 for l0 in labels.values()):
                    return "[%s] the columns of the table `%s` are labelled %s; the samples of the function are called %s" % (
                        label, tname, cols, " / ".join("%s (%s)" % (l0, what) for what, l0 in labels.items() if len(l0) == len(cols)) or "otherwise"), n
                if nr > 1 and isinstance(rows, list) and all(isinstance(x, str) for x in rows) and not any(rows == l0 for l0 in labels.values()):
                    return "[%s] the rows of the table `%s` are labelled %s; the samples of the function are called %s" % (
                        label, tname, rows, " / ".join("%s (%s)" % (l0, what) for what, l0 in labels.items() if len(l0) == len(rows)) or "otherwise"), n
                def base_atoms(vals):
                    out = set()
                    for v0 in vals:
                        for a0 in v0.atoms():
                            while isinstance(a0, tuple) and len(a0) == 3 and a0[0] == "P":
                                a0 = a0[2]          # a block of a point is about that point
                            out.add(a0)
                    return out
                row_lists = [lists[w0] for w0, l0 in labels.items() if isinstance(rows, list) and rows == l0] if nr > 1 or (isinstance(rows, list) and any(rows == l0 for l0 in labels.values())) else []
                col_lists = [lists[w0] for w0, l0 in labels.items() if cols == l0]
                every = base_atoms([v0.val for l0 in lists.values() for s0 in l0 for v0 in s0])
                for i0, r0 in enumerate(data):
                    for j0, x in enumerate(r0):
                        cv = x.attrs.get("cons") if isinstance(x, SymObj) else None
                        if isinstance(cv, ConsV) and col_lists:
                            # the constraint of a cell is about the samples of its row and column: among the atoms of the function's samples, it
                            # mentions only those of the sample of its column (and of its row, in a table of pairs)
                            mine = base_atoms([cv]) & every
                            ok_cell = False
                            anchor = base_atoms([v0.val for s0 in lists["the stationary samples"] for v0 in s0])          # a condition may refer to the minimiser
                            for cl in col_lists:
                                allowed = base_atoms([v0.val for v0 in cl[j0]]) | anchor
                                if mine <= allowed:
                                    ok_cell = True
                                for rl in row_lists:
                                    if mine <= allowed | base_atoms([v0.val for v0 in rl[i0]]):
                                        ok_cell = True
                            if not ok_cell:
                                return "[%s] cell (%d, %d) of the table `%s` holds `%s`, which is not about the sample(s) of its row and column (%s%s)" % (
                                    label, i0, j0, tname, cv, (rows[i0] + ", ") if isinstance(rows, list) and len(rows) == nr and isinstance(rows[i0], str) else "", cols[j0]), n
                        if isinstance(cv, ConsV) and expected and nr == len(lists["all samples"]) == nc and isinstance(rows, list) and rows == labels["all samples"] \
                                and cols == labels["all samples"]:
                            # a table over all ordered pairs of samples: the documented condition is written for an ordered pair (first sample,
                            # second sample); the cell (i, j) holds its instance on (sample i, sample j), not the one on (sample j, sample i)
                            import re as _re
                            hits = set()
                            conds = set()
                            for d0, e0 in expected:
                                m0 = _re.search(r"on \(sample (\d+), sample (\d+)\)", d0)
                                if m0 and cv.equivalent(e0):
                                    hits.add((int(m0.group(1)), int(m0.group(2))))
                                    conds.add(d0.split(" on (")[0])
                            # the reference has an instance of its own of that condition for this ordered pair (a condition written for unordered
                            # pairs has one instance per pair, and either cell may hold it)
                            documented_here = any(d0.split(" on (")[0] in conds and _re.search(r"on \(sample %d, sample %d\)" % (i0, j0), d0) for d0, _e in expected)
                            if hits and (i0, j0) not in hits and documented_here:
                                return "[%s] cell (%d, %d) of the table `%s` holds `%s`: the documented condition on the ordered pair (sample %d, sample %d), not the " \
                                       "one on (sample %d, sample %d) -- the multiplier shown for a pair is that of the other orientation" % (
                                           label, i0, j0, tname, cv, sorted(hits)[0][0], sorted(hits)[0][1], i0, j0), n
                        nm0 = x.attrs.get("name") if isinstance(x, SymObj) else None
                        if not isinstance(nm0, str):
                            continue
                        pair = "(%s, %s)" % (rows[i0], cols[j0]) if isinstance(rows, list) and len(rows) == nr and isinstance(rows[i0], str) else None
                        single = "(%s)" % cols[j0]
                        want = pair if (nr > 1 and pair) else single
                        if fid not in nm0 or not (want in nm0 or (nr == 1 and pair is not None and pair in nm0)):
                            return "[%s] the constraint in cell (%d, %d) of the table `%s` is named `%s`: a name that identifies the function and the %s reads `...%s...%s`" % (
                                label, i0, j0, tname, nm0, "pair" if "," in want else "sample", fid, want), n
    return None, n


def r_hook_tables(ctx, only=None):
    """C17 on the unrolled hooks: after the hook of a family has run on its model (three samples, a stationary one where the family has one; once
    with unnamed points, once with the point of the second sample named), every table of multipliers it stored has one column per sample of a
    recorded list of the function -- all samples, the stationary samples, the samples of the adjoint -- and one row per sample of such a list (a
    single row for a condition on single samples), labelled by the samples' own names (or `Point_<position>`); no Constraint object sits in two
    cells or is emitted twice (one object has one name and one multiplier: two cells sharing it show the name and the value written last); and the
    name of the constraint in a cell contains the function's id and the labels of its row and column."""
    repo = ctx.repo
    spec = formula.load_spec()
    fams = sorted([c for c in repo.all_classes() if c.name in spec.CLASSES and c.find_method(K.HOOK) is not None and (only is None or c.name in only)],
                  key=lambda c: c.name)
    n_tables = 0
    for cls in fams:
        entries = spec.CLASSES[cls.name]
        hook = cls.find_method(K.HOOK)
        bad = None
        ran = 0
        try:
            for cfg in family_configs(repo, cls, entries):
                label = ", ".join("%s %s" % (k0.replace("__stationary", "stationary sample"),
                                             {True: "finite / declared", False: "infinite / not declared", None: "absent", "given": "given"}[v0]) for k0, v0 in sorted(cfg.items())) or "default"
                for named in (False, True):
                    try:
                        _a, _b, _c, _d, me = run_family(repo, cls, spec, entries, cfg, named=named)
                    except ProgramRaise:
                        continue          # reported by R-HOOKPROG under C03 / C04
                    ran += 1
                    bad, n0 = _table_problem(cls, me, label + (", the point of the second sample named P1" if named else ""), expected=_c)
                    n_tables += n0
                    if bad:
                        break
                if bad:
                    break
        except (AnalysisError, SortError) as ex:
            ctx.notes.append("R-HOOKTABLE %s skipped: %s" % (cls.name, ex))
            continue
        if ran:
            ctx.program_ok[("hooktable", cls.name)] = bad is None
            ctx.ob("R-HOOKTABLE", "%s.%s::tables of multipliers (unrolled)" % (cls.name, K.HOOK), bad is None,
                   "every table has one column (and row) per sample of a recorded list, labelled by the samples; every cell has a Constraint object of its own, "
                   "named after the function, its row and its column" if bad is None else bad, loc(hook, hook))
    ctx.count("tables of multipliers examined", n_tables)
    return n_tables
