"""C16 -- no number without a solution: failures are reported, not fabricated.

R-EXCEPT    every `except` clause names exception classes (a call / literal there raises TypeError at match time)
R-UNSOLVED  each primal / dual accessor raises ValueError on the 'nothing stored, nothing to derive from' path and
            wrapper accessors re-raise ValueError
R-NONE      the solve root returns the solver's None before touching values or duals; each back-end's solve returns
            a value that is None-when-unsolved by API or is guarded by a status test
R-OPTIONS   every string-option dispatch is closed by an else that always raises
R-RAISEMSG  the message of each raise in an accessor is built without an operation that can fail (str + None)
"""
import ast
from ..model import AnalysisError, src, loc, call_name, dotted, qualname, norm_stmt, is_const, params_of
from .. import flow
from . import common, solveprog, translate, wrappers

LEVEL = "other"
EXPLANATION = ("Path rules over the syntax trees of the 6 value/dual accessors, the solve root, both back-ends' solve methods, "
               "every except clause and every string-option dispatch of the core package: abstract evaluation of the accessors "
               "over the finite domain (leaf?, value stored?), handler well-formedness, dominance of the None early return, "
               "closed if/elif chains. Holds for every object kind and every model because no rule depends on runtime values."
               " Also: the options of the primitive steps are refused whatever the numeric arguments (R-STEPOPT), and a back-end stores what the solver "
               "gave (or None) at every solve (R-SOLVEVALS), so a stage that finds nothing cannot answer with the numbers of an earlier one.")
TRUSTED = ["CPython ast", "cvxpy: Expression.value is None when the problem has no solution"]
ASSUMPTIONS = ["solver status semantics of cvxpy / MOSEK are API facts, not analysed"]


# ---------------------------------------------------------------------------------------------------
def r_except(ctx):
    n = 0
    for fn in ctx.repo.all_functions():
        for node in ast.walk(fn):
            if isinstance(node, ast.Try):
                for h in node.handlers:
                    n += 1
                    ok = _is_exception_class_expr(h.type)
                    ctx.ob("R-EXCEPT", "%s::%s::except %s" % (fn._module.rel, qualname(fn), src(h.type) if h.type is not None else ""),
                           ok, "handler names exception classes" if ok else
                           "`except %s:` evaluates to an instance / non-class: matching raises TypeError instead of handling the error" % src(h.type),
                           loc(fn, h))
                    # a handler that catches everything (bare / Exception / BaseException), or any handler around the call of the solve root, ends
                    # by raising on every path: otherwise a failure -- the documented ValueError of an invalid option included -- is turned into
                    # a normal answer
                    broad = h.type is None or (dotted(h.type) or "").split(".")[-1] in ("Exception", "BaseException") or \
                        (isinstance(h.type, ast.Tuple) and any((dotted(e0) or "").split(".")[-1] in ("Exception", "BaseException") for e0 in h.type.elts))
                    try:
                        root_name = common.solve_root(ctx.repo).name
                    except AnalysisError:
                        root_name = None
                    around_root = root_name is not None and any(isinstance(c0, ast.Call) and call_name(c0) == root_name for b0 in node.body for c0 in ast.walk(b0))
                    if broad or around_root:
                        pc = flow.path_counts(h.body, lambda nd: False)
                        swallow = sorted(k0 for k0 in pc if k0 in ("next", "return", "break", "continue"))
                        ctx.ob("R-EXCEPT", "%s::%s::except %s re-raises" % (fn._module.rel, qualname(fn), src(h.type) if h.type is not None else ""),
                               not swallow, "the handler ends by raising on every path" if not swallow else
                               "the handler of `except %s` completes normally on some path (%s): whatever failed inside the try block -- an invalid option "
                               "rejected by a ValueError, a solver failure -- is turned into a normal result" % (src(h.type) if h.type is not None else "", ", ".join(swallow)),
                               loc(fn, h))
    ctx.count("except clauses", n)
    return n


def _is_exception_class_expr(t):
    if t is None:
        return True
    if isinstance(t, (ast.Name, ast.Attribute)):
        return True
    if isinstance(t, ast.Tuple):
        return all(isinstance(e, (ast.Name, ast.Attribute)) for e in t.elts)
    return False


# ---------------------------------------------------------------------------------------------------
def _accessor_paths(fn, facts, loop_mode="once"):
    """Paths of an accessor under boolean facts on canonical atoms (aliases of locals resolved)."""
    from ..absint import PathEval, bool_decider

    def atom(t):
        c = _canon_test(t)
        if c in facts:
            return facts[c]
        if c.startswith("not ") and c[4:] in facts:
            return not facts[c[4:]]
        return None
    return PathEval(fn, bool_decider(atom), loop_mode=loop_mode).run()


def _abstract_outcomes(fn, facts):
    """[(kind, text, node)] kept for the rules below: kind in raise / return / handler."""
    outs = []
    for p in _accessor_paths(fn, facts, loop_mode="both"):
        for ev in p.trace:
            if isinstance(ev, tuple) and ev[0] == "handler":
                outs.append(("handler", src(ev[1].type) if ev[1].type is not None else "", ev[1]))
        if p.kind == "raise":
            outs.append(("raise", p.exc, None))
        elif p.kind == "return":
            outs.append(("return", p.value_text if p.value is not None else "None", None))
        else:
            outs.append(("return", "None", None))
    return outs


def _exc_name(r):
    e = r.exc
    if e is None:
        return "<re-raise>"
    if isinstance(e, ast.Call):
        e = e.func
    return dotted(e) or src(e)


def _canon_test(test):
    """Spelling-independent text of the atoms the accessors branch on."""
    t = " ".join(src(test).split())
    t = t.replace("self.get_is_leaf()", "self._is_leaf")
    for a in ("self._value", "self._dual_variable_value"):
        t = t.replace("%s == None" % a, "%s is None" % a).replace("None is %s" % a, "%s is None" % a).replace("None == %s" % a, "%s is None" % a)
        t = t.replace("%s != None" % a, "%s is not None" % a).replace("None is not %s" % a, "%s is not None" % a)
        if t == "%s is not None" % a:
            return "not %s is None" % a
    if t in ("self._is_leaf is True", "self._is_leaf == True"):
        return "self._is_leaf"
    if t in ("self._is_leaf is False", "self._is_leaf == False", "not self._is_leaf"):
        return "not self._is_leaf"
    return t


ACCESSORS = [("Point", "eval", "leaf"), ("Expression", "eval", "leaf"), ("Constraint", "eval", "wrap"),
             ("PSDMatrix", "eval", "wrap"), ("Constraint", "eval_dual", "dual"), ("PSDMatrix", "eval_dual", "dual")]


def r_unsolved(ctx):
    n = 0
    ensure_accessor_programs(ctx)
    real_ob = ctx.ob
    for cname, meth, kind in ACCESSORS:
        fn = ctx.repo.method(cname, meth)
        ctx.unit("%s.%s" % (cname, meth))
        key = "%s.%s" % (cname, meth)
        pk = ("accessor", cname, meth)
        ob = lambda rule, k0, ok, msg="", where="", pk=pk: ctx.ob_or_program(pk, rule, k0, ok, msg, where)
        where = loc(fn, fn)
        n += 1
        if kind == "leaf":
            outs = _abstract_outcomes(fn, {"self._value is None": True, "self._is_leaf": True})
            kinds = {(o[0], o[1]) for o in outs if o[0] != "handler"}
            ok = kinds == {("raise", "ValueError")}
            ob("R-UNSOLVED", key + "::unsolved-leaf", ok,
                   "an unsolved leaf raises ValueError" if ok else
                   "for a leaf without a stored value the accessor can end as %s instead of raising ValueError" % sorted(kinds), where)
            outs2 = _abstract_outcomes(fn, {"self._value is None": False, "self._is_leaf": True})
            kinds2 = {(o[0], o[1]) for o in outs2 if o[0] != "handler"}
            ok2 = kinds2 == {("return", "self._value")}
            ob("R-UNSOLVED", key + "::solved-leaf", ok2,
                   "a leaf with a stored value returns it" if ok2 else "a leaf with a stored value ends as %s" % sorted(kinds2), where)
            # a derived object never returns a constant / literal
            outs3 = _abstract_outcomes(fn, {"self._is_leaf": False})
            bad = [o for o in outs3 if o[0] == "return" and o[1] != "self._value"]
            bad_r = [o for o in outs3 if o[0] == "raise" and o[1] not in ("ValueError", "TypeError", "AssertionError")]
            ob("R-UNSOLVED", key + "::derived", not bad and not bad_r,
                   "a derived object returns its computed value; foreign kinds raise TypeError" if not bad and not bad_r else
                   "derived object can end as %s" % sorted({(o[0], o[1]) for o in bad + bad_r}), where)
        elif kind == "dual":
            outs = _abstract_outcomes(fn, {"self._dual_variable_value is None": True})
            kinds = {(o[0], o[1]) for o in outs if o[0] != "handler"}
            ok = kinds == {("raise", "ValueError")}
            ob("R-UNSOLVED", key + "::no-dual", ok,
                   "no stored multiplier raises ValueError" if ok else "without a stored multiplier the accessor ends as %s" % sorted(kinds), where)
            outs2 = _abstract_outcomes(fn, {"self._dual_variable_value is None": False})
            kinds2 = {(o[0], o[1]) for o in outs2 if o[0] != "handler"}
            ok2 = kinds2 == {("return", "self._dual_variable_value")}
            ob("R-UNSOLVED", key + "::has-dual", ok2, "returns the stored multiplier" if ok2 else "ends as %s" % sorted(kinds2), where)
        else:
            # wrapper accessor: the sub-evaluation happens inside a try whose ValueError handler re-raises ValueError
            tries = [t for t in ast.walk(fn) if isinstance(t, ast.Try)]
            evals_outside = []
            ok_try = False
            for t in tries:
                calls_eval = any(isinstance(c, ast.Call) and call_name(c) == "eval" for b in t.body for c in ast.walk(b))
                if not calls_eval:
                    continue
                for h in t.handlers:
                    names = _handler_names(h.type)
                    if "ValueError" in names or names == ["<bare>"] or "Exception" in names:
                        raises = {o[1] for o in _abstract_outcomes_block(h.body)}
                        if raises == {"ValueError"}:
                            ok_try = True
            for c in ast.walk(fn):
                if isinstance(c, ast.Call) and call_name(c) == "eval" and not _inside_try_body(c, tries):
                    evals_outside.append(c)
            ok = ok_try and not evals_outside
            ob("R-UNSOLVED", key + "::re-raise", ok,
                   "the ValueError of an unsolved operand is re-raised as ValueError" if ok else
                   "evaluation of the operands is not (entirely) inside a try whose ValueError handler raises ValueError", where)
            rets = {o[1] for o in _abstract_outcomes(fn, {}) if o[0] == "return"}
            bad = sorted(r for r in rets if r != "self._value")
            ob("R-UNSOLVED", key + "::returns", not bad, "returns the computed value" if not bad else "returns %s" % bad, where)
    ctx.count("accessors", n)
    return n


def r_unsolved_program(ctx):
    """The value / multiplier accessors of the four DSL classes unrolled (sa/miniint.py, recursively through the accessors of their operands, with
    try / except followed) in the two states a user can meet:

    before any successful solve -- no leaf has a value, no constraint a multiplier, the class-level attributes hold what the class body gives them
    (the counters stand at the number of leaves): every accessor ends in the documented ValueError and nothing else fails on the way (an allocation
    sized by an attribute that only a solve fills, say);

    after a solve -- leaves carry symbolic values, constraints symbolic multipliers: Constraint.eval returns the value of its expression,
    PSDMatrix.eval the matrix of the values of its entries at their own positions, eval_dual the stored multiplier."""
    from ..miniint import IndexInterp, SymObj, ProgramRaise
    from ..nf import Rat
    repo = ctx.repo
    n = 0
    methods = {}
    for cname in ("Point", "Expression", "Constraint", "PSDMatrix"):
        for m in ("eval", "eval_dual"):
            f0 = repo.cls(cname).find_method(m)
            if f0 is not None:
                methods[(cname, m)] = f0

    def class_env(solved):
        env = {"Point": ("type", "Point"), "Expression": ("type", "Expression"), "tuple": ("type", "tuple"), "int": ("type", "int"), "float": ("type", "float"),
               "Constraint": ("type", "Constraint"), "PSDMatrix": ("type", "PSDMatrix")}
        for k0 in ("Point", "Expression", "Constraint", "PSDMatrix"):
            for a0, v0 in repo.cls(k0).class_attrs.items():
                if isinstance(v0, ast.Constant):
                    env["%s.%s" % (k0, a0)] = v0.value
        env["Point.counter"] = 2
        env["Expression.counter"] = 2
        return env

    def call_method(o, name, solved, depth=0):
        fn = methods.get((o.kind, name))
        if fn is None or depth > 6:
            raise AnalysisError("no accessor %s.%s" % (o.kind, name))
        env = class_env(solved)
        env[params_of(fn)[0]] = o

        def on_call(node, it):
            nm = call_name(node)
            f = node.func
            if isinstance(f, ast.Attribute) and nm in ("eval", "eval_dual", "get_is_leaf") and not node.args:
                try:
                    o2 = it.ev(f.value)
                except AnalysisError:
                    return NotImplemented
                if isinstance(o2, SymObj) and nm == "get_is_leaf":
                    return o2.attrs["_is_leaf"]
                if isinstance(o2, SymObj) and (o2.kind, nm) in methods:
                    return call_method(o2, nm, solved, depth + 1)
            if nm in ("dot", "inner", "vdot") and len(node.args) == 2:
                a, b = it.ev(node.args[0]), it.ev(node.args[1])
                if isinstance(a, VecObj) and isinstance(b, VecObj) and len(a.val.d) == 1 and len(b.val.d) == 1:
                    (ka, wa), (kb, wb) = list(a.val.d.items())[0], list(b.val.d.items())[0]
                    return Rat.sym("<%s,%s>" % tuple(sorted((str(ka), str(kb))))) * wa * wb
            if nm in ("array", "asarray") and len(node.args) == 1 and isinstance(f, ast.Attribute):
                v = it.ev(node.args[0])
                if isinstance(v, list):
                    return v
            return NotImplemented
        it = IndexInterp(env, on_call=on_call, check_asserts=True)
        it.home = (repo, fn._module, o.kind)
        return it.run(fn.body)

    verdict = {}
    for solved in (False, True):
        from ..miniint import VecObj
        from ..nf import PointV
        pts = [SymObj("Point", label="p%d" % k, counter=k, _is_leaf=True,
                      _value=VecObj("Point", PointV.atom("p%d" % k), stored_array="leaf point p%d" % k) if solved else None) for k in range(2)]
        exs = [SymObj("Expression", label="e%d" % k, counter=k, _is_leaf=True, _value=Rat.sym("val_e%d" % k) if solved else None) for k in range(2)]
        for o in pts + exs:
            o.attrs["decomposition_dict"] = {o: 1}
        dpt = SymObj("Point", label="2 p0 - p1", counter=None, _is_leaf=False, _value=None, decomposition_dict={pts[0]: 2, pts[1]: -1})
        dex = SymObj("Expression", label="e1 + 3 <p0, p1> + 5", counter=None, _is_leaf=False, _value=None,
                     decomposition_dict={exs[1]: Rat(1), (pts[0], pts[1]): Rat(3), 1: Rat(5)})
        want_dex = Rat.sym("val_e1") + Rat(3) * Rat.sym("<p0,p1>") + Rat(5)
        con = SymObj("Constraint", label="constraint", expression=dex, equality_or_inequality="inequality", _value=None,
                     _dual_variable_value=Rat.sym("lambda") if solved else None, counter=0)
        lmi = SymObj("PSDMatrix", label="lmi", matrix_of_expressions=[[exs[0], dex], [exs[1], exs[1]]], shape=(2, 2), _value=None,
                     _dual_variable_value=("dual-matrix",) if solved else None, counter=0, entries_dual_variable_value=None)
        want_dpt = VecObj("Point", PointV.atom("p0").scale(Rat(2)) - PointV.atom("p1")) if solved else None
        dpt1 = SymObj("Point", label="p0 + 3 p1", counter=None, _is_leaf=False, _value=None, decomposition_dict={pts[0]: Rat(1), pts[1]: Rat(3)})
        want_dpt1 = VecObj("Point", PointV.atom("p0") + PointV.atom("p1").scale(Rat(3))) if solved else None
        # a leaf created after the solve has no value: it makes every combination it belongs to impossible to evaluate, whatever its weight
        late_p = SymObj("Point", label="p2 (created after the solve)", counter=2, _is_leaf=True, _value=None)
        late_p.attrs["decomposition_dict"] = {late_p: 1}
        dpt_late = SymObj("Point", label="p0 + 0 p2", counter=None, _is_leaf=False, _value=None, decomposition_dict={pts[0]: Rat(1), late_p: Rat(0)})
        dex_late = SymObj("Expression", label="e1 + 0 <p0, p2>", counter=None, _is_leaf=False, _value=None,
                          decomposition_dict={exs[1]: Rat(1), (pts[0], late_p): Rat(0)})
        cases = [("Point.eval, leaf", pts[0], "eval", pts[0].attrs["_value"]), ("Point.eval, combination", dpt, "eval", want_dpt),
                 ("Point.eval, combination starting with weight 1", dpt1, "eval", want_dpt1),
                 ("Expression.eval, leaf", exs[0], "eval", Rat.sym("val_e0")), ("Expression.eval, combination", dex, "eval", want_dex),
                 ("Constraint.eval", con, "eval", want_dex), ("Constraint.eval_dual", con, "eval_dual", Rat.sym("lambda")),
                 ("PSDMatrix.eval", lmi, "eval", [[Rat.sym("val_e0"), want_dex], [Rat.sym("val_e1"), Rat.sym("val_e1")]]),
                 ("PSDMatrix.eval_dual", lmi, "eval_dual", ("dual-matrix",))]
        if solved:
            cases += [("Point.eval, combination with a weight-0 leaf created after the solve", dpt_late, "eval", "ValueError"),
                      ("Expression.eval, combination with a weight-0 inner product of a leaf created after the solve", dex_late, "eval", "ValueError")]
        for label, obj, meth, want in cases:
            if (obj.kind, meth) not in methods:
                continue
            fn = methods[(obj.kind, meth)]
            msg = None
            try:
                ret = call_method(obj, meth, solved)
                if want == "ValueError":
                    msg = "returns `%r` although a leaf of the combination has no value (the documented outcome is ValueError, whatever the weight of that leaf)" % (ret,)
                elif not solved:
                    msg = "returns `%r` although nothing has been solved" % (ret,)
                else:
                    from ..miniint import _deep_eq
                    if isinstance(want, VecObj):
                        if not (isinstance(ret, VecObj) and ret.val.equals(want.val)):
                            msg = "returns `%r`, expected `%r`" % (ret, want)
                    elif not _deep_eq(ret, want):
                        msg = "returns `%r`, expected `%r`" % (ret, want)
            except ProgramRaise as ex:
                if want == "ValueError":
                    if ex.exc != "ValueError":
                        msg = "fails with %s instead of the documented ValueError" % ex.exc
                elif solved:
                    msg = "raises on a solved model: %s" % ex
                elif ex.exc != "ValueError":
                    msg = "fails with %s instead of the documented ValueError: %s" % (ex.exc, str(ex).replace("the index program raises: ", ""))
            except AnalysisError as ex:
                ctx.notes.append("R-UNSOLVED program for %s (%s) skipped: %s" % (label, "solved" if solved else "unsolved", ex))
                verdict[(obj.kind, meth)] = False
                continue
            verdict[(obj.kind, meth)] = verdict.get((obj.kind, meth), True) and msg is None
            n += 1
            ctx.ob("R-UNSOLVED", "%s::%s (unrolled)" % (label, "after a solve" if solved else "before any solve"), msg is None,
                   ("returns the value / multiplier of the object" if solved else "raises the documented ValueError") if msg is None else msg, loc(fn, fn))
    ctx.count("unsolved-state programs", n)
    for k0, v0 in verdict.items():
        if v0:
            ctx.program_ok[("accessor",) + k0] = True
    ctx._accessor_programs_done = True


def ensure_accessor_programs(ctx):
    if not getattr(ctx, "_accessor_programs_done", False):
        r_unsolved_program(ctx)


def r_operand_access(ctx):
    """An accessor reads the value of another object through that object's accessor (which raises when unsolved), never its `_value` directly."""
    for cname, meth, kind in ACCESSORS:
        fn = ctx.repo.method(cname, meth)
        bad = [n for n in ast.walk(fn) if isinstance(n, ast.Attribute) and n.attr in ("_value", "_dual_variable_value") and dotted(n.value) != "self"]
        ctx.ob("R-UNSOLVED", "%s.%s::operands through their accessor" % (cname, meth), not bad,
               "operand values are obtained through eval() / eval_dual()" if not bad else
               "reads `%s` directly: for an unsolved operand this is None and the accessor fails with another exception type (or computes with None) "
               "instead of the documented ValueError" % src(bad[0]), loc(fn, bad[0] if bad else fn))


def _handler_names(t):
    if t is None:
        return ["<bare>"]
    if isinstance(t, ast.Tuple):
        return [dotted(e) or src(e) for e in t.elts]
    return [dotted(t) or src(t)]


def _abstract_outcomes_block(stmts):
    f = ast.FunctionDef(name="_h", args=ast.arguments(posonlyargs=[], args=[], kwonlyargs=[], kw_defaults=[], defaults=[]),
                        body=stmts, decorator_list=[])
    outs = _abstract_outcomes(f, {})
    return [(o[0], o[1]) for o in outs if o[0] in ("raise", "return")]


def _inside_try_body(node, tries):
    for t in tries:
        for b in t.body:
            for n in ast.walk(b):
                if n is node:
                    return True
    return False


# ---------------------------------------------------------------------------------------------------
def r_none(ctx):
    root = common.solve_root(ctx.repo)
    ctx.unit(qualname(root))
    wname = common.wrapper_param(root)
    # first   a, b, v = wrapper.solve(...)
    solves = [s for s in flow.stmts_of(root, ast.Assign)
              if isinstance(s.value, ast.Call) and call_name(s.value) == "solve" and dotted(s.value.func.value) == wname]
    if not solves:
        raise AnalysisError("solve root: no `%s.solve(...)` assignment found" % wname)
    first = min(solves, key=lambda s: s.lineno)
    tgt = first.targets[0]
    if not (isinstance(tgt, ast.Tuple) and len(tgt.elts) == 3 and isinstance(tgt.elts[2], ast.Name)):
        raise AnalysisError("solve root: result of solve is not unpacked into three names")
    v = tgt.elts[2].id
    guard = None
    for s in flow.stmts_of(root, ast.If):
        t = " ".join(src(s.test).split())
        if t in ("%s is None" % v, "%s == None" % v, "None is %s" % v) and s.lineno > first.lineno:
            pc = flow.path_counts(s.body, lambda n: False)
            if set(pc) == {"return"}:
                guard = s
                break
    ctx.ob("R-NONE", "PEP.%s::none-early-return" % root.name, guard is not None,
           "`if %s is None:` returns before any value is used" % v if guard is not None else
           "no `if %s is None: ... return` after the first solve: a failed solve continues to value/dual extraction" % v, loc(root, first))
    if guard is not None:
        # between the solve and the None test the value may be None: it is only stored, printed or formatted with a plain placeholder
        unsafe = []
        for n0 in ast.walk(root):
            if not (isinstance(n0, ast.Name) and n0.id == v and isinstance(n0.ctx, ast.Load)):
                continue
            if not (first.lineno < n0.lineno < guard.lineno):
                continue
            par = n0._parent
            why = None
            if isinstance(par, (ast.BinOp, ast.UnaryOp)) or (isinstance(par, ast.Compare) and not all(isinstance(o, (ast.Is, ast.IsNot, ast.Eq, ast.NotEq)) for o in par.ops)):
                why = "arithmetic / ordering on it"
            elif isinstance(par, (ast.Subscript, ast.Attribute)) and par.value is n0:
                why = "`%s`" % src(par)
            elif isinstance(par, ast.FormattedValue) and par.format_spec is not None:
                why = "an f-string format specification"
            elif isinstance(par, ast.Call) and call_name(par) == "format" and isinstance(par.func, ast.Attribute) and isinstance(par.func.value, ast.Constant) \
                    and isinstance(par.func.value.value, str) and n0 in par.args:
                import string
                idx = par.args.index(n0)
                auto = 0
                try:
                    for lit, field, spec, conv in string.Formatter().parse(par.func.value.value):
                        if field is None:
                            continue
                        if field == "":
                            k = auto
                            auto += 1
                        else:
                            head = field.split(".")[0].split("[")[0]
                            k = int(head) if head.isdigit() else None
                        if k == idx and spec:
                            why = "the format specification `{:%s}`" % spec
                except ValueError:
                    pass
            if why:
                unsafe.append((n0, why))
        ctx.ob("R-NONE", "PEP.%s::value untouched before the None test" % root.name, not unsafe,
               "before `if %s is None` the solver value is only stored / printed" % v if not unsafe else
               "`%s` may be None (no finite optimum) when line %d applies %s to it: TypeError instead of returning None"
               % (v, unsafe[0][0].lineno, unsafe[0][1]), loc(root, unsafe[0][0] if unsafe else guard))
        rets = [r for r in ast.walk(guard) if isinstance(r, ast.Return)]
        bad = [r for r in rets if not (r.value is None or src(r.value) in (v, "None"))]
        ctx.ob("R-NONE", "PEP.%s::none-return-value" % root.name, not bad,
               "the early return hands back the solver's None" if not bad else "the early return returns %s" % [src(r.value) for r in bad], loc(root, guard))
        users = []
        for c in ast.walk(root):
            if isinstance(c, ast.Call) and call_name(c) in ("assign_dual_values", "get_primal_variables", "_eval_points_and_function_values",
                                                             "check_feasibility", "prepare_heuristic", "heuristic"):
                users.append(c)
        notdom = []
        for c in users:
            st = c
            while not isinstance(st, ast.stmt):
                st = st._parent
            if not flow.dominates(guard, st):
                notdom.append("%s (line %d)" % (call_name(c), c.lineno))
        ctx.count("post-solve consumers", len(users))
        ctx.ob("R-NONE", "PEP.%s::none-dominates-consumers" % root.name, not notdom and len(users) >= 4,
               "the None test dominates all %d consumers of the solution" % len(users) if not notdom else
               "reached without passing the None test: %s" % ", ".join(notdom), loc(root, guard))
    # back-ends
    for be in common.backends(ctx.repo):
        fn = be.methods.get("solve")
        if fn is None:
            raise AnalysisError("back-end %s has no solve method" % be.name)
        ctx.unit(qualname(fn))
        for r in [r for r in ast.walk(fn) if isinstance(r, ast.Return)]:
            val = r.value
            third = val.elts[2] if isinstance(val, ast.Tuple) and len(val.elts) == 3 else None
            if third is None:
                ctx.ob("R-NONE", "%s.solve::returns-triple" % be.name, False, "solve does not return a (status, solver, value) triple", loc(fn, r))
                continue
            ok, why = _none_when_unsolved(fn, third)
            ctx.ob("R-NONE", "%s.solve::value-none-when-unsolved" % be.name, ok, why, loc(fn, r))


def _none_when_unsolved(fn, expr):
    """The returned value is `X.value` of a solver object (cvxpy: None without a solution) or its definition is guarded by a status test."""
    if isinstance(expr, ast.Attribute) and expr.attr == "value":
        return True, "`%s` is None when the solver found no solution (cvxpy API fact)" % src(expr)
    if isinstance(expr, ast.Name):
        defs = [s for s in flow.stmts_of(fn, ast.Assign) if any(isinstance(t, ast.Name) and t.id == expr.id for t in s.targets)]
        status_names = set()
        for s in flow.stmts_of(fn, ast.Assign):
            if isinstance(s.value, ast.Call) and call_name(s.value) in ("getprosta", "getsolsta") :
                for t in s.targets:
                    if isinstance(t, ast.Name):
                        status_names.add(t.id)
        none_defs = [d for d in defs if is_const(d.value) and d.value.value is None]
        guarded = False
        for s in flow.stmts_of(fn, ast.If):
            names = {n.id for n in ast.walk(s.test) if isinstance(n, ast.Name)}
            if names & status_names and any(d in flow.stmts_of_block(s) for d in defs):
                guarded = True
        if len(defs) == 1 and isinstance(defs[0].value, ast.Attribute) and defs[0].value.attr == "value":
            return True, "`%s` is read from `.value` of a solver object" % expr.id
        if guarded and none_defs:
            return True, "`%s` is None unless the status test passes" % expr.id
        return False, ("`%s` (defined by `%s`) is returned whatever the problem / solution status: an infeasible or unbounded "
                       "problem yields a number" % (expr.id, "; ".join(norm_stmt(d) for d in defs)))
    return False, "returned value `%s` is not None-when-unsolved by construction" % src(expr)


# ---------------------------------------------------------------------------------------------------
def option_subjects(fn):
    """Subjects of string-option tests in fn: parameters, and `<parameter>.equality_or_inequality`-like attributes of parameters."""
    from ..model import params_of
    ps = set(params_of(fn))
    subj = {}
    for t in ast.walk(fn):
        cands = []
        if isinstance(t, ast.Compare) and len(t.ops) == 1 and isinstance(t.ops[0], (ast.Eq, ast.NotEq, ast.In, ast.NotIn)):
            sides = [t.left, t.comparators[0]]
            if any(isinstance(x, ast.Constant) and isinstance(x.value, str) for x in sides) or \
                    any(isinstance(x, (ast.Tuple, ast.List, ast.Set)) and x.elts and all(isinstance(e, ast.Constant) and isinstance(e.value, str) for e in x.elts) for x in sides):
                cands = [x for x in sides if isinstance(x, (ast.Name, ast.Attribute))]
        if isinstance(t, ast.Call) and call_name(t) == "startswith" and isinstance(t.func, ast.Attribute) and t.args and isinstance(t.args[0], ast.Constant):
            cands = [t.func.value]
        for c in cands:
            root = c
            while isinstance(root, ast.Attribute):
                root = root.value
            if isinstance(root, ast.Name):
                txt = " ".join(src(c).split())
                subj.setdefault(txt, root.id)
    # resolve single-assignment aliases of a parameter expression:  kind = constraint.equality_or_inequality
    out = {}
    for txt, root in subj.items():
        if root in ps:
            out[txt] = txt
        else:
            defs = [a for a in ast.walk(fn) if isinstance(a, ast.Assign) and len(a.targets) == 1 and dotted(a.targets[0]) == root]
            if len(defs) == 1 and txt == root:
                r2 = defs[0].value
                base = r2
                while isinstance(base, ast.Attribute):
                    base = base.value
                if isinstance(base, ast.Name) and base.id in ps and isinstance(r2, (ast.Name, ast.Attribute)):
                    out[txt] = " ".join(src(r2).split())
    return sorted(set(out.values()))


def r_options(ctx):
    """For every string option of every function: a value that is none of the literals the code compares it with reaches a raise on every path
    that tests it (the dispatch is closed), whatever the other tests do."""
    from ..absint import option_outcomes, literal_test, string_literals_compared, bool_decider
    n = 0
    fns = list(ctx.repo.all_functions())
    # documented values of an option, by parameter name: every literal the parameter (or its lower-cased form) is compared with anywhere
    documented = {}
    for fn in fns:
        for prm in params_of(fn):
            for subj in (prm, prm + ".lower()"):
                l0, _ = string_literals_compared(fn, subj)
                if l0:
                    documented.setdefault(prm, set()).update(l0)

    def validated_by_callers(fn, subject):
        """a private function whose every caller passes its own parameter of the same name after a closed, exact dispatch on it"""
        if not fn.name.startswith("_"):
            return False
        callers = [(f2, c) for f2 in fns for c in ast.walk(f2) if isinstance(c, ast.Call) and call_name(c) == fn.name and f2 is not fn]
        if not callers:
            return False
        for f2, c in callers:
            if subject not in params_of(f2) or not any(isinstance(a, ast.Name) and a.id == subject for a in list(c.args) + [k.value for k in c.keywords]):
                return False
            l2, _ = string_literals_compared(f2, subject)
            if l2 != documented.get(subject, set()) or len(l2) < 2:
                return False
            o2 = option_outcomes(f2.body, mk_for(subject)("\0none-of-the-documented-values"))
            if any(t0 and k0 in ("next", "return") for (k0, t0) in o2):
                return False
        return True

    def mk_for(subject):
        def mk(value):
            def atom(t):
                r = literal_test(t, subject, value)
                if r is not None:
                    return r
                if " ".join(src(t).split()) == subject:
                    return bool(value)
                return None
            return bool_decider(atom)
        return mk
    for fn in fns:
        for subject in option_subjects(fn):
            lits, names = string_literals_compared(fn, subject)
            plain = {l for l in lits if not l.endswith("*")}
            if len(lits) < 2 and not (len(lits) == 1 and subject in params_of(fn) and len(documented.get(subject, ())) >= 2):
                continue
            n += 1

            def mk(value):
                def atom(t):
                    r = literal_test(t, subject, value)
                    if r is not None:
                        return r
                    # truthiness of the option itself
                    if " ".join(src(t).split()) == subject:
                        return bool(value)
                    return None
                return bool_decider(atom)

            unknown = "\0none-of-the-documented-values"
            outs = option_outcomes(fn.body, mk(unknown))
            leak = sorted(k for (k, touched) in outs if touched and k in ("next", "return"))
            ok = not leak or validated_by_callers(fn, subject)
            key = "%s::%s::dispatch on %s" % (fn._module.rel, qualname(fn), subject)
            ctx.ob("R-OPTIONS", key, ok,
                   "a value other than %s reaches a raise on every path that tests the option" % sorted(lits) if ok else
                   "a value of `%s` other than %s is tested and the function still completes normally (%s): an invalid option value is silently accepted"
                   % (subject, sorted(lits), ", ".join(leak)), loc(fn, fn))
            # every documented literal is really accepted (some path completes normally)
            for l in sorted(plain):
                o2 = option_outcomes(fn.body, mk(l))
                if not any(k in ("next", "return") for (k, _) in o2):
                    ctx.ob("R-OPTIONS", key + "::%s" % l, False, "the documented value %r raises on every path" % l, loc(fn, fn))
            ctx.sample({"rule": "R-OPTIONS", "function": qualname(fn), "subject": subject, "literals": sorted(lits)})
    ctx.count("string-option dispatches", n)
    return n


# ---------------------------------------------------------------------------------------------------
# R-RAISEMSG: building the message of the documented error cannot itself fail
# ---------------------------------------------------------------------------------------------------
def _attr_nonstr(cls, attr, depth=0):
    """Some assignment of `self.<attr>` in the class stores None, a number, or a parameter whose default is None / a number."""
    for c in cls.mro():
        for fn in c.methods.values():
            defaults = {}
            a = fn.args
            pos = a.posonlyargs + a.args
            for arg, d in zip(pos[len(pos) - len(a.defaults):], a.defaults):
                defaults[arg.arg] = d
            for s0 in flow.stmts_of(fn, ast.Assign):
                if not any(dotted(t) == "self." + attr for t in s0.targets):
                    continue
                v = s0.value
                if isinstance(v, ast.Name) and v.id in defaults:
                    v = defaults[v.id]
                if isinstance(v, ast.Constant) and not isinstance(v.value, str):
                    return "`%s` can be %r (%s.%s)" % (attr, v.value, c.name, fn.name)
                if dotted(v) and dotted(v).endswith(".counter"):
                    return "`%s` is an integer (%s.%s)" % (attr, c.name, fn.name)
    return None


def _nonstr_operand(e, fn, repo):
    """Reason why an operand of a string concatenation may not be a string, or None (a string, or unknown)."""
    cls = getattr(fn, "_cls", None)
    if isinstance(e, ast.Constant):
        return None if isinstance(e.value, str) else "`%r` is not a string" % (e.value,)
    d = dotted(e)
    if d and d.startswith("self.") and d.count(".") == 1 and cls is not None:
        return _attr_nonstr(cls, d.split(".", 1)[1])
    if isinstance(e, ast.Call) and isinstance(e.func, ast.Attribute) and dotted(e.func.value) == "self" and cls is not None and not e.args:
        m = cls.find_method(e.func.attr)
        if m is not None:
            rets = [r for r in ast.walk(m) if isinstance(r, ast.Return)]
            for r in rets:
                rd = dotted(r.value) if r.value is not None else None
                if r.value is None or is_const(r.value, None):
                    return "%s() can return None" % e.func.attr
                if rd and rd.startswith("self.") and rd.count(".") == 1:
                    why = _attr_nonstr(cls, rd.split(".", 1)[1])
                    if why:
                        return "%s() returns %s" % (e.func.attr, why)
    return None


def _concat_operands(e):
    if isinstance(e, ast.BinOp) and isinstance(e.op, ast.Add):
        return _concat_operands(e.left) + _concat_operands(e.right)
    return [e]


def r_raise_message(ctx):
    """In the accessors, the argument of every `raise X(...)` is a string expression that cannot raise TypeError while it is built:
    in a `+` concatenation with a string literal, no operand is an attribute / getter that can be None or a number."""
    n = 0
    fns = [ctx.repo.method(c, m) for c, m, k in ACCESSORS]
    for fn in fns:
        defs = {}
        for s0 in flow.stmts_of(fn, ast.Assign):
            if len(s0.targets) == 1 and isinstance(s0.targets[0], ast.Name):
                defs.setdefault(s0.targets[0].id, []).append(s0.value)
        k = 0
        for r in [x for x in ast.walk(fn) if isinstance(x, ast.Raise) and isinstance(x.exc, ast.Call)]:
            n += 1
            k += 1
            bad = None
            for a in r.exc.args:
                exprs = [a] if not isinstance(a, ast.Name) else defs.get(a.id, [])
                for e in exprs:
                    for sub in ast.walk(e):
                        if not (isinstance(sub, ast.BinOp) and isinstance(sub.op, ast.Add)):
                            continue
                        ops = _concat_operands(sub)
                        if not any(isinstance(o, ast.JoinedStr) or (isinstance(o, ast.Constant) and isinstance(o.value, str)) for o in ops):
                            continue
                        for o in ops:
                            why = _nonstr_operand(o, fn, ctx.repo)
                            if why:
                                bad = (o, why)
            key = "%s::raise %s #%d" % (qualname(fn), call_name(r.exc) or src(r.exc.func), k)
            ctx.ob("R-RAISEMSG", key, bad is None,
                   "the message is built from literals / formatting only" if bad is None else
                   "the message concatenates a string with `%s` and %s: building the message raises TypeError, which replaces the documented %s"
                   % (src(bad[0]), bad[1], call_name(r.exc)), loc(fn, r))
    ctx.count("raise statements of the accessors", n)
    return n


def run(ctx):
    ne = r_except(ctx)
    na = r_unsolved(ctx)
    ensure_accessor_programs(ctx)
    r_raise_message(ctx)
    r_operand_access(ctx)
    translate.r_evalshape(ctx)    # every term of a combination is evaluated (through its accessor), whatever its coefficient: an unsolved leaf always raises
    r_none(ctx)
    solveprog.r_solve_program(ctx, {"none", "options"})
    from . import mosekprog
    mosekprog.r_solver_choice(ctx)   # a solver named by the user reaches cvxpy unchanged (cvxpy rejects unknown names)
    no = r_options(ctx)
    common.r_argbind(ctx, {common.solve_root(ctx.repo).name}, why=" (an option that does not reach the routine that validates it is neither honoured nor rejected)")
    wrappers.r_constraint_kinds(ctx)
    from . import c08
    c08.r_step_option_rejection(ctx)   # the options of the primitive steps are options too: refused whatever the numeric arguments
    wrappers.r_mainvars(ctx)         # a solve that finds nothing leaves nothing behind in the wrapper: what the solver gave (or None) is stored at every solve, so a later stage cannot answer with the numbers of an earlier one
    ctx.floor("except clauses", ne, 2)
    ctx.floor("accessors", na, 6)
    ctx.floor("string-option dispatches", no, 4)
