"""The solve root as a program over the wrapper interface (R-SOLVEPROG).

PEP._solve_with_wrapper is unrolled by sa/miniint.py on an abstract model -- two performance metrics, two PEP-level constraints, one PEP-level LMI,
a leaf function with class constraints / a class LMI / own constraints / an own LMI, a composite function with an own constraint and an own LMI, a
leaf function with nothing of its own, one block partition -- against a recording stand-in for the wrapper, for every combination of
(dimension reduction: none, 'trace', 'logdet2') x (mode: 'dual', 'primal') x (first solve: finite value, None) x (verbosity 0, 1).
The recorded calls and the final state are compared with the contract of the solve root:

  drain    every declared object is sent exactly once before the problem is generated (scalar: metrics as `objective <= metric`, PEP constraints,
           class constraints of leaf functions, own constraints of every function, partition constraints; LMIs: PEP, class LMIs of leaf functions,
           own LMIs of every function), after the class / partition constraints were regenerated
  track    the two tracking lists hold exactly what was sent, in that order
  order    generate_problem(objective leaf) once, after the sends; solve; no finite optimum -> None is returned and nothing else is asked of the
           wrapper; otherwise assign_dual_values exactly once, before any dimension reduction, and its result is the stored residual
  heur     'trace': prepare_heuristic(first optimum, tolerance), heuristic(identity), one more solve; 'logdetN': N x (heuristic(inv(corrected Gram
           of the previous solution + regularisation * identity)), solve)
  primal   the published Gram matrix / function values are the last ones read from the wrapper after the last solve, and are what the leaves
           are evaluated at
  return   'dual' -> the result of the reconstruction; 'primal' -> the solver value; the same calls whatever the verbosity
"""
import ast
import itertools
from ..model import AnalysisError, src, loc, call_name, dotted, qualname, params_of
from ..miniint import IndexInterp, SymObj, is_token
from . import common


def _model(no_functions=False, no_pep_lmi=False):
    m = _model_full()
    if no_functions:
        m["functions"] = []          # a model may consist of points, PEP-level constraints and partitions only
    if no_pep_lmi:
        m["psd"] = []                # ... or have no LMI of its own (what an earlier solve tracked must still be forgotten)
        for f0 in m["functions"]:
            f0.attrs["list_of_psd"] = []
    return m


def _model_full():
    def mk(kind, label, **a):
        o = SymObj(kind, label=label, **a)
        if kind == "Constraint":
            # every constraint has an expression; the second one of each owner is the trivial `0 <= 0` (an empty decomposition), which is a
            # declared object like any other: it sits in the tables and is expected to get a multiplier
            o.attrs["expression"] = SymObj("Expression", label="expression of " + label, _is_leaf=False,
                                           decomposition_dict={} if label.endswith("2") else {("p", "q"): 1})
            o.attrs["equality_or_inequality"] = "inequality"
        return o
    m = {}
    m["metrics"] = [mk("Expression", "metric1"), mk("Expression", "metric2")]
    m["cons"] = [mk("Constraint", "pep_c1"), mk("Constraint", "pep_c2")]
    m["psd"] = [mk("PSDMatrix", "pep_lmi1"), mk("PSDMatrix", "pep_lmi2")]
    f1 = mk("Function", "f1", _is_leaf=True, list_of_class_constraints=[mk("Constraint", "stale_class_c")], list_of_class_psd=[],
            list_of_constraints=[mk("Constraint", "f1_own_c")], list_of_psd=[mk("PSDMatrix", "f1_own_lmi")])
    f2 = mk("Function", "f2", _is_leaf=False, list_of_class_constraints=[], list_of_class_psd=[],
            list_of_constraints=[mk("Constraint", "f2_own_c")], list_of_psd=[mk("PSDMatrix", "f2_own_lmi")])
    f3 = mk("Function", "f3", _is_leaf=True, list_of_class_constraints=[], list_of_class_psd=[], list_of_constraints=[], list_of_psd=[])
    f4 = mk("Function", "f4", _is_leaf=False, list_of_class_constraints=[], list_of_class_psd=[], list_of_constraints=[],
            list_of_psd=[mk("PSDMatrix", "f4_own_lmi")])
    m["functions"] = [f1, f2, f3, f4]
    # two of everything that is iterated: a loop that reads a name left over from an earlier loop handles the last element twice and the others never
    bp = mk("BlockPartition", "bp1", list_of_constraints=[mk("Constraint", "stale_partition_c")])
    bp2 = mk("BlockPartition", "bp2", list_of_constraints=[])
    # a partition with one block induces no relation of its own, but it is a registered partition like any other: what the user attached to it is sent
    bp3 = mk("BlockPartition", "bp3 (one block)", list_of_constraints=[mk("Constraint", "user constraint attached to the one-block partition")], d=1)
    m["partitions"] = [bp, bp2, bp3]
    return m


class _Run:
    def __init__(self, root, wname, cfg):
        self.root, self.cfg = root, cfg
        self.trace = []
        self.model = _model(cfg.get("nofunc", False), cfg.get("nopsd", False))
        self.wrapper = SymObj("Wrapper", label="wrapper")
        self.solves = 0
        self.metric_cons = []
        self.regen = 0

    def on_compare(self, left, op, right, node):
        c = SymObj("Constraint", label="cmp%d" % (len(self.metric_cons) + 1), lhs=left, op=op, rhs=right)
        self.metric_cons.append(c)
        return c

    def on_call(self, node, it):
        nm = call_name(node)
        f = node.func
        if isinstance(f, ast.Name) and nm == "Expression":
            kw = {k.arg: it.ev(k.value) for k in node.keywords if k.arg}
            leaf = kw.get("is_leaf", it.ev(node.args[0]) if node.args else True)
            o = SymObj("Expression", label="new_leaf%d" % (len([t for t in self.trace if t[0] == "new-expression"]) + 1), _is_leaf=leaf)
            self.trace.append(("new-expression", o))
            return o
        if isinstance(f, ast.Name) and nm == "isinstance":
            return True
        if not isinstance(f, ast.Attribute):
            return NotImplemented
        if dotted(f.value) == "self":
            recv = "self"
        else:
            try:
                recv = it.ev(f.value)
            except AnalysisError:
                return NotImplemented
        args = [it.ev(a) for a in node.args]
        kw = {k.arg: it.ev(k.value) for k in node.keywords if k.arg}
        if recv is self.wrapper:
            if nm == "solve":
                self.solves += 1
                val = self.cfg["value"] if self.solves == 1 else ("value", self.solves)
                self.trace.append(("solve", self.solves))
                return (self.cfg.get("status", "optimal") if self.solves == 1 else "optimal", "solver", val)
            if nm == "get_primal_variables":
                self.trace.append(("get_primal_variables", self.solves))
                return (("G", self.solves), ("F", self.solves))
            if nm == "assign_dual_values":
                self.trace.append(("assign_dual_values", self.solves))
                return ("residual", self.solves)
            self.trace.append((nm, tuple(args), tuple(sorted(kw.items(), key=lambda x: x[0]))))
            return None
        if isinstance(recv, SymObj) and recv.kind == "Function":
            if nm == "get_is_leaf":
                return recv.attrs["_is_leaf"]
            if nm == "set_class_constraints":
                self.regen += 1
                n0 = self.regen
                recv.attrs["list_of_class_constraints"] = [SymObj("Constraint", label="%s_class_c%d_gen%d" % (recv.attrs["label"], k, n0),
                                                                  expression=SymObj("Expression", label="class expression", _is_leaf=False,
                                                                                    decomposition_dict={} if k == 2 else {("p", "q"): 1}),
                                                                  equality_or_inequality="inequality") for k in (1, 2)]
                recv.attrs["list_of_class_psd"] = [SymObj("PSDMatrix", label="%s_class_lmi_gen%d" % (recv.attrs["label"], n0))] if recv.attrs["label"] == "f1" else []
                self.trace.append(("set_class_constraints", recv))
                return None
        if isinstance(recv, SymObj) and recv.kind == "BlockPartition":
            if nm == "add_partition_constraints":
                self.regen += 1
                if recv.attrs.get("d") != 1:
                    recv.attrs["list_of_constraints"] = [SymObj("Constraint", label="partition_c_gen%d" % self.regen)]
                self.trace.append(("add_partition_constraints", recv))
                return None
            if nm == "get_nb_blocks":
                return 1 if recv.attrs.get("d") == 1 else 2
        if recv == "self":
            if nm == "get_nb_eigenvalues_and_corrected_matrix":
                return (self.cfg.get("nb_eig", 3), 0.0, ("corrected", args[0] if args else None))
            if nm == "check_feasibility":
                self.trace.append(("check_feasibility", tuple(args)))
                return ("dual_objective",)
            self.trace.append(("self." + nm, tuple(args), tuple(sorted(kw.items(), key=lambda x: x[0]))))
            return None
        return NotImplemented


def _configs():
    for heur, mode, value, verbose in itertools.product((None, "trace", "logdet2"), ("dual", "primal"), (("value", 1), None), (0, 1)):
        yield {"heur": heur, "mode": mode, "value": value, "verbose": verbose}
    yield {"heur": None, "mode": "dual", "value": ("value", 1), "verbose": 0, "nofunc": True}
    yield {"heur": None, "mode": "dual", "value": ("value", 1), "verbose": 0, "nopsd": True}
    # a status that is not plain 'optimal' but comes with a finite value: the solution is published like any other
    yield {"heur": None, "mode": "dual", "value": ("value", 1), "verbose": 0, "status": "optimal_inaccurate"}
    yield {"heur": "trace", "mode": "primal", "value": ("value", 1), "verbose": 1, "status": "optimal_inaccurate"}


def _labels(objs):
    return [o.attrs.get("label") if isinstance(o, SymObj) else repr(o) for o in objs]


def _callers_reject(repo, root, pname, value):
    """every caller of the (private) solve root hands over its own parameter `pname` and raises on every path when that parameter is `value`"""
    from ..absint import option_outcomes, bool_decider
    if not root.name.startswith("_"):
        return False
    pep = common.pep_class(repo)
    callers = [(f2, c) for f2 in pep.methods.values() if f2 is not root for c in ast.walk(f2) if isinstance(c, ast.Call) and call_name(c) == root.name]
    if not callers:
        return False
    for f2, c in callers:
        if pname not in params_of(f2) or not any(isinstance(a, ast.Name) and a.id == pname for a in list(c.args) + [k.value for k in c.keywords]):
            return False
        if any(isinstance(n0, ast.Name) and n0.id == pname and isinstance(n0.ctx, ast.Store) for n0 in ast.walk(f2)):
            return False

        def atom(t):
            if not any(isinstance(n0, ast.Name) and n0.id == pname for n0 in ast.walk(t)):
                return None
            if any(isinstance(n0, ast.Name) and n0.id not in (pname, "str", "int", "len", "isinstance", "re") for n0 in ast.walk(t)):
                return None
            try:
                v = IndexInterp({pname: value, "str": ("type", "str"), "int": ("type", "int")}).ev(t)
                return bool(v) if not isinstance(v, tuple) else None
            except AnalysisError:
                return None
        outs = option_outcomes(f2.body, bool_decider(atom))
        if any(k0 in ("next", "return") for (k0, _t) in outs):
            return False
    return True


CLAUSES = [("interpretable", "the solve root is within the interpreted fragment"),
           ("drain", "every declared object is sent exactly once, after regeneration, metrics as objective <= metric"),
           ("track", "the tracking lists hold exactly what was sent, in order"),
           ("generate", "the problem is generated once, with the objective leaf, after every send and before the first solve"),
           ("duals", "multipliers captured once after the first solve, before any dimension reduction; the residual stored is that capture"),
           ("none", "no finite optimum: None is returned and nothing else is asked of the wrapper"),
           ("heur", "heuristic calls: (first optimum, tolerance), identity / regularised inverse, one solve per step"),
           ("primal", "the published instance is the last solution read from the wrapper"),
           ("return", "dual mode returns the reconstruction, primal mode the solver value"),
           ("verbosity", "the calls do not depend on the verbosity"),
           ("options", "option strings outside the documented sets raise")]


def r_solve_program(ctx, only):
    """only: the clauses that belong to the property being checked (drain, generate, track, duals, none, heur, primal, return, verbosity, options).
    The unrolling is done once per run; every call reports the clauses asked for that were not reported yet.  Returns the number of
    configurations unrolled (0: the root is outside the interpreted fragment and the structural rules decide alone)."""
    if getattr(ctx, "_solveprog_result", None) is None:
        ctx._solveprog_result = _compute(ctx)
        ctx._solveprog_reported = set()
    n, problems, root = ctx._solveprog_result
    for c0, okmsg in CLAUSES:
        if c0 in ctx._solveprog_reported:
            continue
        if c0 == "interpretable" and c0 not in problems:
            continue
        if c0 != "interpretable" and (c0 not in only or n == 0):
            continue
        ctx._solveprog_reported.add(c0)
        ctx.ob("R-SOLVEPROG", "PEP.%s::%s" % (root.name, c0), c0 not in problems, okmsg if c0 not in problems else problems[c0], loc(root, root))
    ctx.count("solve-root programs unrolled", n)
    return n


def decided_by_program(ctx, clauses):
    """True when the solve root was unrolled on every configuration: the named clauses of R-SOLVEPROG are then reported (if they were not yet)
    and decide; the structural rule that asks is not consulted."""
    n = r_solve_program(ctx, set(clauses))
    return n > 0


def ob_unless_program(ctx, clauses, rule, key, ok, msg, where):
    """A structural clause about the solve root: recorded as it is when it holds; when it does not hold but the root was unrolled on every
    configuration and the named clauses of R-SOLVEPROG hold there, the program decides (the structural clause describes one way of writing the
    root, the program what the root does) and a note is kept; otherwise the failure is recorded."""
    if ok:
        ctx.ob(rule, key, True, msg, where)
        return
    n = r_solve_program(ctx, set(clauses))
    problems = ctx._solveprog_result[1]
    if n > 0 and not any(c0 in problems for c0 in clauses) and "interpretable" not in problems:
        ctx.notes.append("%s %s: structural clause not met (%s); decided by the unrolled solve root (%s)" % (rule, key, msg, ", ".join(sorted(clauses))))
        return
    ctx.ob(rule, key, False, msg, where)


def _compute(ctx):
    only = {c0 for c0, _ in CLAUSES}
    repo = ctx.repo
    root = common.solve_root(repo)
    ctx.unit(qualname(root))
    wname = common.wrapper_param(root)
    ps = params_of(root)[1:]
    role = {}
    for p0 in ps:
        if p0 == wname:
            role[p0] = "wrapper"
        elif p0 == "verbose":
            role[p0] = "verbose"
        elif "primal" in p0 or "dual" in p0:
            role[p0] = "mode"
        elif "heuristic" in p0:
            role[p0] = "heur"
        elif "regul" in p0:
            role[p0] = "eig"
        elif "tol" in p0:
            role[p0] = "tol"
    if set(role.values()) != {"wrapper", "verbose", "mode", "heur", "eig", "tol"}:
        raise AnalysisError("solve root: parameters %s not recognised (wrapper, verbose, mode, heuristic, regularisation, tolerance)" % ps)
    from .state import tracked_lists
    tracked = sorted(tracked_lists(root, repo))
    problems = {}          # clause -> first message
    n = 0
    ref_trace = {}
    def prepare(cfg):
        run = _Run(root, wname, cfg)
        m = run.model
        env = {"self.list_of_performance_metrics": m["metrics"], "self.list_of_constraints": m["cons"], "self.list_of_psd": m["psd"],
               "Function.list_of_functions": m["functions"], "BlockPartition.list_of_partitions": m["partitions"],
               "Point.counter": 3, "Expression.counter": 4, "kwargs": {}, "self.wrapper_name": "cvxpy",
               "Expression": ("type", "Expression"),
               # the problem object has been solved before (except in the bare configuration): its objective leaf and tracking lists hold old objects
               "self.objective": None if cfg.get("nofunc") else SymObj("Expression", label="objective leaf of an earlier solve", _is_leaf=True)}
        for t in tracked:
            env["self." + t] = [SymObj("Constraint", label="left over from an earlier solve")]
        vals = {"wrapper": run.wrapper, "verbose": cfg["verbose"], "mode": cfg["mode"], "heur": cfg["heur"], "eig": ("eig",), "tol": ("tol",)}
        for p0, r0 in role.items():
            env[p0] = vals[r0]
        it = IndexInterp(env, on_call=run.on_call)
        it.home = (repo, root._module, "PEP")
        it.on_compare = run.on_compare
        return run, it

    for cfg in _configs():
        n += 1
        run, it = prepare(cfg)
        m = run.model
        label = "heuristic=%s mode=%s first optimum=%s verbose=%s%s" % (cfg["heur"], cfg["mode"], "finite" if cfg["value"] else "None", cfg["verbose"],
                                                                         " (model without functions)" if cfg.get("nofunc") else (" (model without LMIs of its own)" if cfg.get("nopsd") else (" (status %s)" % cfg["status"] if cfg.get("status") else "")))
        try:
            ret = it.run(root.body)
        except AnalysisError as e:
            if "the index program raises" in str(e):
                # a documented configuration on a well-formed model must go through
                problems.setdefault("heur" if cfg["heur"] else "return", "%s: the solve raises on a documented configuration (%s)" % (label, str(e)[:120]))
                continue
            # the structural rules on the solve root (R-DRAIN, R-PAIR, R-ORDER, R-PRIMALFLOW, R-HEURCALL, R-RET, R-NONE) decide the same clauses on
            # the syntax tree; the unrolled program is the sharper instrument when the root stays inside the interpreted fragment
            ctx.notes.append("R-SOLVEPROG skipped: solve root not interpretable (%s): %s" % (label, e))
            return 0, {}, root
        tr = run.trace
        names = [t[0] for t in tr]

        def fail(clause, msg):
            problems.setdefault(clause, "%s: %s" % (label, msg))
        # ---- drain
        sent_c = [t[1][-1] for t in tr if t[0] == "send_constraint_to_solver"]
        sent_p = [t[1][-1] for t in tr if t[0] == "send_lmi_constraint_to_solver"]
        # order of the LMIs (for R-LMIORDER): an LMI generated during the solve (a class LMI) sent before one that was declared before the solve
        def _src_of(o):
            l0 = o.attrs.get("label", "") if isinstance(o, SymObj) else ""
            return "class LMIs" if "class_lmi" in l0 else ("LMIs declared on the problem" if any(o is x for x in m["psd"]) else
                                                           ("LMIs declared on a function" if "own_lmi" in l0 else "other"))
        if not cfg.get("nofunc") and not cfg["heur"]:
            seq = [_src_of(o) for o in sent_p]
            inv = getattr(ctx, "_lmi_inversions", None)
            if inv is None:
                inv = ctx._lmi_inversions = set()
            for i0, a0 in enumerate(seq):
                for b0 in seq[i0 + 1:]:
                    if a0 == "class LMIs" and b0.startswith("LMIs declared"):
                        inv.add((a0, b0))
        obj = it.env.get("self.objective")
        metric_ok = len(run.metric_cons) == 2 and all(c.attrs["lhs"] is obj and c.attrs["op"] in ("LtE",) and c.attrs["rhs"] is mm for c, mm in zip(run.metric_cons, m["metrics"])) \
            or len(run.metric_cons) == 2 and all(c.attrs["rhs"] is obj and c.attrs["op"] in ("GtE",) and c.attrs["lhs"] is mm for c, mm in zip(run.metric_cons, m["metrics"]))
        if not (isinstance(obj, SymObj) and obj.kind == "Expression" and obj.attrs.get("_is_leaf") is True and obj.attrs["label"].startswith("new_leaf")):
            fail("drain", "the objective is `%r`, not a leaf expression created by this solve" % (obj,))
        elif not metric_ok:
            fail("drain", "the performance metrics are not sent as `objective <= metric` for each metric (%s)" % [(c.attrs["lhs"], c.attrs["op"], c.attrs["rhs"]) for c in run.metric_cons])
        leaf_fns = [f0 for f0 in m["functions"] if f0.attrs["_is_leaf"]]
        want_c = list(run.metric_cons) + list(m["cons"]) + [c for f0 in leaf_fns for c in f0.attrs["list_of_class_constraints"]] + \
            [c for f0 in m["functions"] for c in f0.attrs["list_of_constraints"]] + [c for b0 in m["partitions"] for c in b0.attrs["list_of_constraints"]]
        want_p = list(m["psd"]) + [c for f0 in leaf_fns for c in f0.attrs["list_of_class_psd"]] + [c for f0 in m["functions"] for c in f0.attrs["list_of_psd"]]
        for kind0, sent, want in (("scalar constraints", sent_c, want_c), ("LMIs", sent_p, want_p)):
            if sorted(map(id, sent)) != sorted(map(id, want)):
                missing = [o for o in want if not any(o is x for x in sent)]
                extra = [o for o in sent if not any(o is x for x in want)]
                dup = [o for o in sent if sum(1 for x in sent if x is o) > 1]
                fail("drain", "%s sent to the wrapper differ from the declared model: missing %s, unexpected %s, sent twice %s" % (
                    kind0, _labels(missing), _labels(extra), _labels(dup[:1])))
        if [t for t in tr if t[0] == "set_class_constraints"] and set(id(t[1]) for t in tr if t[0] == "set_class_constraints") != set(id(f0) for f0 in leaf_fns):
            fail("drain", "class constraints are regenerated for %s, the leaf functions are %s" % (
                _labels([t[1] for t in tr if t[0] == "set_class_constraints"]), _labels(leaf_fns)))
        # every partition generates its relations exactly once per solve, whatever else the model contains, before anything is sent
        for b0 in m["partitions"]:
            calls = [k for k, t in enumerate(tr) if t[0] == "add_partition_constraints" and t[1] is b0]
            first_send = min([k for k, t in enumerate(tr) if t[0] in ("send_constraint_to_solver", "send_lmi_constraint_to_solver")] or [len(tr)])
            if b0.attrs.get("d") == 1 and len(calls) <= 1:
                continue          # nothing to generate for one block: asking or not asking is the same thing
            if len(calls) != 1:
                fail("drain", "add_partition_constraints is called %d time(s) on a partition during one solve, expected once (model with %d functions)" % (
                    len(calls), len(m["functions"])))
            elif calls[0] > first_send:
                fail("drain", "the partition relations are generated after the first object was sent")
        gen = [k for k, t in enumerate(tr) if t[0] == "generate_problem"]
        sends = [k for k, t in enumerate(tr) if t[0] in ("send_constraint_to_solver", "send_lmi_constraint_to_solver")]
        first_solve = names.index("solve") if "solve" in names else None
        if len(gen) != 1 or not sends or max(s for s in sends if first_solve is None or s < first_solve) > gen[0] or (first_solve is not None and gen[0] > first_solve):
            fail("generate", "generate_problem is called %d time(s) / not between the last send and the first solve" % len(gen))
        elif tr[gen[0]][1] != (obj,):
            fail("generate", "generate_problem receives %s, not the objective leaf" % (tr[gen[0]][1],))
        mv = [k for k, t in enumerate(tr) if t[0] == "set_main_variables"]
        if len(mv) != 1 or (sends and mv[0] > min(sends)):
            fail("generate", "set_main_variables is called %d time(s) / after the first object was sent" % len(mv))
        late = [tr[s] for s in sends if first_solve is not None and s > first_solve]
        if late:
            fail("generate", "`%s` is sent after the problem was solved" % _labels([late[0][1][-1]]))
        # ---- track
        for t0 in tracked:
            cur = it.env.get("self." + t0)
            if isinstance(cur, list) and cur and all(isinstance(o, SymObj) for o in cur):
                if all(o.kind == "PSDMatrix" for o in cur) and cur and not any(o.attrs.get("label") == "left over from an earlier solve" for o in cur):
                    if list(map(id, cur)) != list(map(id, sent_p)):
                        fail("track", "self.%s holds %s, the LMIs sent are %s" % (t0, _labels(cur), _labels(sent_p)))
                elif list(map(id, cur)) != list(map(id, sent_c)):
                    fail("track", "self.%s holds %s, the scalar constraints sent are %s" % (t0, _labels(cur), _labels(sent_c)))
            elif cur != [] or (sent_p and sent_c):
                if not (isinstance(cur, list) and not cur and False):
                    fail("track", "self.%s is `%r` after the solve" % (t0, cur))
        # ---- no finite optimum
        after_first = tr[first_solve + 1:] if first_solve is not None else []
        if cfg["value"] is None:
            if ret is not None:
                fail("none", "no finite optimum, yet `%r` is returned" % (ret,))
            if after_first:
                fail("none", "no finite optimum, yet %s is called afterwards" % after_first[0][0])
            continue
        # ---- order of the dual capture
        duals = [k for k, t in enumerate(tr) if t[0] == "assign_dual_values"]
        heur_calls = [k for k, t in enumerate(tr) if t[0] in ("prepare_heuristic", "heuristic")]
        if len(duals) != 1 or tr[duals[0]][1] != 1 or (heur_calls and duals[0] > heur_calls[0]):
            fail("duals", "assign_dual_values is called %s (after solve #%s); it must be called once, after the first solve and before any dimension reduction"
                 % ("%d times" % len(duals), [tr[k][1] for k in duals]))
        elif it.env.get("self.residual") != ("residual", 1):
            fail("duals", "self.residual is `%r`, not the residual captured after the first solve" % (it.env.get("self.residual"),))
        # ---- heuristic
        prep = [t for t in tr if t[0] == "prepare_heuristic"]
        heur = [t for t in tr if t[0] == "heuristic"]
        nsolve = len([t for t in tr if t[0] == "solve"])
        if cfg["heur"] is None:
            if prep or heur or nsolve != 1:
                fail("heur", "without a heuristic: %d prepare_heuristic, %d heuristic, %d solves" % (len(prep), len(heur), nsolve))
        else:
            want_iter = 1 if cfg["heur"] == "trace" else 2
            if len(prep) != 1 or prep[0][1] != (("value", 1), ("tol",)) or prep[0][2]:
                fail("heur", "prepare_heuristic receives %s, expected (first optimum, tolerance) once" % ([t[1:] for t in prep],))
            elif len(heur) != want_iter or nsolve != 1 + want_iter:
                fail("heur", "%d heuristic call(s) and %d solve(s), expected %d and %d" % (len(heur), nsolve, want_iter, 1 + want_iter))
            elif cfg["heur"] == "trace":
                w0 = heur[0][1][0] if heur[0][1] else None
                if not (is_token(w0) and w0[0] == "call" and w0[1].split(".")[-1] in ("identity", "eye") and w0[2] == (3,)):
                    fail("heur", "the trace heuristic minimises <W, G> with W = `%r`, expected the identity of size Point.counter" % (w0,))
            else:
                for k, h in enumerate(heur):
                    w0 = h[1][0] if h[1] else None
                    okw = is_token(w0) and w0[0] == "call" and w0[1].split(".")[-1] == "inv" and len(w0[2]) == 1
                    if okw:
                        inner = w0[2][0]
                        parts = inner[2:] if is_token(inner) and inner[0] == "op" and inner[1] == "Add" else ()
                        okw = len(parts) == 2 and any(p0 == ("corrected", ("G", k + 1)) for p0 in parts) and any(
                            is_token(p0) and p0[0] == "op" and p0[1] == "Mult" and ("eig",) in p0[2:] for p0 in parts)
                    if not okw:
                        fail("heur", "logdet step %d uses W = `%r`, expected inv(corrected Gram of solution #%d + regularisation * identity)" % (k + 1, w0, k + 1))
                        break
        # ---- primal flow
        last = nsolve
        gets = [t for t in tr if t[0] == "get_primal_variables"]
        if it.env.get("self.G_value") != ("G", last) or it.env.get("self.F_value") != ("F", last):
            fail("primal", "the published Gram matrix / function values are (%r, %r), the last solution is (G, F) of solve #%d" % (
                it.env.get("self.G_value"), it.env.get("self.F_value"), last))
        ev = [t for t in tr if t[0] == "self._eval_points_and_function_values"]
        if len(ev) != 1 or set(ev[0][1]) | {v for _, v in ev[0][2] if is_token(v)} < {("G", last), ("F", last)}:
            fail("primal", "the leaves are evaluated at %s, not at the last solution" % ([t[1:] for t in ev],))
        elif ev[0][1][:2] != (("F", last), ("G", last)) and not ev[0][2]:
            fail("primal", "_eval_points_and_function_values receives %s, expected (F, G) of the last solution in that order" % (ev[0][1],))
        # ---- return
        chk = [t for t in tr if t[0] == "check_feasibility"]
        if len(chk) != 1:
            fail("return", "the reconstruction is called %d times" % len(chk))
        if cfg["mode"] == "dual" and ret != ("dual_objective",):
            fail("return", "mode 'dual' returns `%r`, not the result of the reconstruction" % (ret,))
        if cfg["mode"] == "primal" and not (isinstance(ret, tuple) and len(ret) == 2 and ret[0] == "value"):
            fail("return", "mode 'primal' returns `%r`, not the solver value" % (ret,))
        elif cfg["mode"] == "primal" and ret != ("value", nsolve):
            fail("return", "mode 'primal' returns the optimum of solve #%s while the published instance (Gram matrix, function values) is the solution of "
                 "solve #%d: the value returned is not the objective of the instance returned" % (ret[1], nsolve))
        # ---- verbosity changes nothing
        key = (cfg["heur"], cfg["mode"], bool(cfg["value"]), bool(cfg.get("nofunc")), bool(cfg.get("nopsd")), cfg.get("status"))
        def norm(v):
            if isinstance(v, SymObj):
                return v.attrs.get("label")
            if isinstance(v, (tuple, list)):
                return tuple(norm(x) for x in v)
            return v
        sig = [norm(t) for t in tr if t[0] != "new-expression" and not (t[0].startswith("self.") and "verbose" in repr(t))]
        sig = [tuple(x for x in t if not (isinstance(x, tuple) and any(isinstance(y, tuple) and y and y[0] == "verbose" for y in x))) for t in sig]
        if key in ref_trace and ref_trace[key] != sig:
            diff = [(a, b) for a, b in zip(ref_trace[key], sig) if a != b][:1] or [("length %d" % len(ref_trace[key]), "length %d" % len(sig))]
            fail("verbosity", "the wrapper is driven differently with verbose=%s than with verbose=0: %s" % (cfg["verbose"], diff))
        ref_trace.setdefault(key, sig)
    # ---- option strings outside the documented sets are rejected, whatever else they look like
    if "options" in only:
        probes = [("heur", h) for h in ("logdet", "logdetx", "logdet1.5", "logdet2 steps", "logdet3trace", "xlogdet2", "tracex", "Trace", " logdet2", "log1", "det2", "2", "tlogde3", "trace2")] + \
                 [("mode", mo) for mo in ("Dual", "dual ", "both", "", "primal_dual")]
        # ... whatever the solution looks like: also when the first solution already has a single significant eigenvalue
        for what, bad, nb_eig in [(w0, b0, 3) for w0, b0 in probes] + [(w0, b0, 1) for w0, b0 in probes if w0 == "heur"][:4]:
            cfg = {"heur": bad if what == "heur" else None, "mode": bad if what == "mode" else "dual", "value": ("value", 1), "verbose": 0, "nb_eig": nb_eig}
            run, it = prepare(cfg)
            try:
                ret = it.run(root.body)
            except AnalysisError as e:
                if "the index program raises" not in str(e):
                    ctx.notes.append("R-SOLVEPROG option probe %r skipped: %s" % (bad, e))
                continue
            n += 1
            pname = [p0 for p0, r0 in role.items() if r0 == what][0]
            if _callers_reject(repo, root, pname, bad):
                continue          # validated by every caller before the root is entered
            problems.setdefault("options", "%s = %r is accepted%s (the solve goes through and returns `%r`); the documented values are %s" % (
                "dimension_reduction_heuristic" if what == "heur" else "return_primal_or_dual", bad,
                " when the first solution has one significant eigenvalue" if nb_eig == 1 else "", ret,
                "None, 'trace' and 'logdet' followed by an integer" if what == "heur" else "'dual' and 'primal'"))
    return n, problems, root
