"""C04 -- class constraints complete and independent of declaration order."""
from . import formula, c07, common

LEVEL = "other"
EXPLANATION = ("Pair-domain analysis of the constraint generators (abstract truth table of the skip predicate over "
               "same-sample / index order / symmetry flag), exchange-invariance and diagonal-triviality queries on the normal "
               "forms of all emitted conditions, whole-list loop domains of generators and LMI builders, existence of the "
               "stationary sample before stationary x sample enumeration, and equivalence of every documented condition with "
               "an emitted one (spec/classes.py); the stationary list the stationary x sample conditions range over is fed by add_point "
               "for every sample whose pruned gradient is zero, however the sample reached the function (R-STAT).")
TRUSTED = ["CPython ast", "spec/classes.py", "sa/nf.py arithmetic"]
ASSUMPTIONS = ["that a finite primal value is attained by a real member (interpolation theorems) is not decided",
               "equality of worst-case values under permutation follows from these rules only for the feasible set"]


def run(ctx):
    from . import genprog
    genprog.r_generators(ctx, {"emit"})    # the generators unrolled: one condition per sample / admissible pair, whatever the labels
    ca = formula.get(ctx.repo)
    n = formula.r_formula(ctx, "complete")
    from . import hookprog
    hookprog.r_hook_programs(ctx, "complete")   # every hook unrolled on three concrete samples: exactly the documented instances are emitted
    sites, sym = formula.r_skip(ctx)
    formula.r_diag(ctx)
    nl = formula.r_one_and_lmidom(ctx)
    formula.r_statpair(ctx)
    formula.r_domain(ctx)
    formula.r_regen(ctx)
    formula.r_params(ctx)
    common.r_argbind(ctx, {"add_constraints_from_two_lists_of_points", "add_constraints_from_one_list_of_points"})
    c07.r_bookkeeping(ctx)           # whether a query records a new sample depends on (evaluated here?, differentiable?) only, not on what the first sample looked like
    c07.with_system(ctx, c07.r_sample_registered)  # a sample is registered whatever the order in which samples arrive
    c07.with_system(ctx, c07.r_addpoint)          # a sample is pruned before it is tested for stationarity and registered: a zero gradient written with explicit zero weights is a zero gradient
    c07.with_system(ctx, c07.r_stationary_list)   # conditions over list_of_stationary_points see every zero-gradient sample, however it was recorded
    ctx.floor("class families", len(ca.families), 20)
    ctx.floor("class conditions", n, 32)
    ctx.floor("two-list call sites", sites, 20)
    ctx.floor("symmetry=True sites", sym, 8)
    ctx.floor("class LMI builders", nl, 3)
