"""Rules centred on the solve root of PEP: R-DRAIN, R-PAIR, R-OBJ, R-OBJSENSE, R-ORDER, R-RET."""
import ast
from ..model import (AnalysisError, clone, src, loc, call_name, dotted, qualname, norm_stmt, params_of, is_const, get_arg, iter_base)
from .. import flow, effects
from . import common

SEND_C = "send_constraint_to_solver"
SEND_P = "send_lmi_constraint_to_solver"
OWNER_CLASSES = ("PEP", "Function", "BlockPartition")


# ---------------------------------------------------------------------------------------------------
# discovery of the declared-model containers
# ---------------------------------------------------------------------------------------------------
def _value_kind(fn, expr, depth=0):
    """'Constraint' | 'PSDMatrix' | 'Expression' | None for the value appended to a container."""
    if isinstance(expr, ast.Compare):
        return "Constraint"
    if isinstance(expr, ast.Call) and call_name(expr) in ("PSDMatrix", "Constraint"):
        return call_name(expr)
    if isinstance(expr, ast.Name) and depth < 3:
        for a in ast.walk(fn):
            if isinstance(a, ast.Assert) and isinstance(a.test, ast.Call) and call_name(a.test) == "isinstance" \
                    and len(a.test.args) == 2 and isinstance(a.test.args[0], ast.Name) and a.test.args[0].id == expr.id:
                k = dotted(a.test.args[1])
                if k in ("Constraint", "PSDMatrix", "Expression"):
                    return k
        kinds = set()
        for s in flow.stmts_of(fn, ast.Assign):
            if any(isinstance(t, ast.Name) and t.id == expr.id for t in s.targets):
                if isinstance(s.value, ast.Call) and isinstance(s.value.func, ast.Name) and s.value.func.id in params_of(fn) \
                        and len(s.value.args) >= 3 and not s.value.keywords:
                    kinds.add("Constraint")      # result of a class-constraint callback
                else:
                    kinds.add(_value_kind(fn, s.value, depth + 1))
        kinds.discard(None)
        if len(kinds) == 1:
            return kinds.pop()
        # a parameter documented / tested as a PSDMatrix
        for c in ast.walk(fn):
            if isinstance(c, ast.Call) and call_name(c) == "isinstance" and len(c.args) == 2 and isinstance(c.args[0], ast.Name):
                pass
    return None


def containers(repo):
    """{(class name, attr): kind} of the lists that hold the declared model."""
    out = {}
    for cname in OWNER_CLASSES:
        c = repo.cls(cname)
        owners = [c] + (repo.subclasses(c) if cname == "Function" else [])
        for oc in owners:
            for fn in oc.methods.values():
                for call in ast.walk(fn):
                    if isinstance(call, ast.Call) and call_name(call) == "append" and isinstance(call.func, ast.Attribute) and len(call.args) == 1:
                        d = dotted(call.func.value)
                        if d and d.startswith("self.") and d.count(".") == 1 and d.split(".")[1].startswith("list_of"):
                            k = _value_kind(fn, call.args[0])
                            if k is not None:
                                attr = d.split(".")[1]
                                key = (cname, attr)
                                if key in out and out[key] != k:
                                    raise AnalysisError("container %s.%s receives both %s and %s" % (cname, attr, out[key], k))
                                out[key] = k
    return out


class SendSite:
    pass


def send_sites(repo, root):
    """Every send call of the solve root with its loop, iterated attribute, owner expression and argument."""
    wname = common.wrapper_param(root)
    sites = []
    for c in ast.walk(root):
        if isinstance(c, ast.Call) and call_name(c) in (SEND_C, SEND_P) and dotted(c.func.value) == wname:
            s = SendSite()
            s.call = c
            s.stmt = common.stmt_of(c)
            s.method = call_name(c)
            s.arg = c.args[-1] if c.args else None
            s.loop = flow.in_loop(s.stmt)
            s.attr = s.owner = s.elem = None
            if s.loop is not None and isinstance(s.loop, ast.For):
                whole, enum = iter_base(s.loop.iter)
                if enum:
                    tgt = s.loop.target.elts[1] if isinstance(s.loop.target, ast.Tuple) and len(s.loop.target.elts) == 2 else None
                else:
                    tgt = s.loop.target
                s.iter_expr = whole
                if isinstance(whole, ast.Attribute):
                    s.attr = whole.attr
                    s.owner = whole.value
                s.elem = tgt.id if isinstance(tgt, ast.Name) else None
            sites.append(s)
    sites.sort(key=lambda s: s.call.lineno)
    return sites


def _owner_class_of(repo, root, owner_expr):
    """Class whose container is iterated: self -> PEP; loop variable over functions / partitions -> Function / BlockPartition."""
    if isinstance(owner_expr, ast.Name) and owner_expr.id == "self":
        return "PEP", None
    if isinstance(owner_expr, ast.Name):
        # find the enclosing loop binding this name
        for lp in flow.stmts_of(root, ast.For):
            base_it, enum = iter_base(lp.iter)
            tgt = lp.target.elts[1] if enum and isinstance(lp.target, ast.Tuple) and len(lp.target.elts) == 2 else lp.target
            if isinstance(tgt, ast.Name) and tgt.id == owner_expr.id and any(n is owner_expr for n in ast.walk(lp)):
                src_list = base_it
                origin = _list_origin(root, src_list)
                if origin is None:
                    return None, lp
                return origin[0], (lp, origin)
    return None, None


def _list_origin(root, expr, depth=0):
    """(class name, filter test or None, element var) for `Cls.registry` or a local comprehension over it."""
    d = dotted(expr)
    if d == "Function.list_of_functions":
        return ("Function", None, None)
    if d == "BlockPartition.list_of_partitions":
        return ("BlockPartition", None, None)
    if isinstance(expr, ast.Name) and depth < 3:
        defs = [s for s in flow.stmts_of(root, ast.Assign) if any(isinstance(t, ast.Name) and t.id == expr.id for t in s.targets)]
        if len(defs) == 1 and isinstance(defs[0].value, ast.ListComp) and len(defs[0].value.generators) == 1:
            comp = defs[0].value
            gen = comp.generators[0]
            base = _list_origin(root, gen.iter, depth + 1)
            if base and base[1] is None and isinstance(comp.elt, ast.Name) and isinstance(gen.target, ast.Name) and comp.elt.id == gen.target.id:
                test = None
                if len(gen.ifs) == 1:
                    test = gen.ifs[0]
                elif len(gen.ifs) > 1:
                    test = ast.BoolOp(op=ast.And(), values=gen.ifs)
                return (base[0], test, gen.target.id)
    return None


def _nonempty_attrs(test, var):
    """Attributes A such that the test is a disjunction of `len(var.A) > 0` (or truthiness of var.A) terms."""
    terms = test.values if isinstance(test, ast.BoolOp) and isinstance(test.op, ast.Or) else [test]
    out = []
    for t in terms:
        a = None
        if isinstance(t, ast.Compare) and len(t.ops) == 1 and isinstance(t.left, ast.Call) and call_name(t.left) == "len" and t.left.args:
            d = dotted(t.left.args[0])
            c = t.comparators[0]
            if d and d.startswith(var + ".") and ((isinstance(t.ops[0], ast.Gt) and is_const(c, 0)) or (isinstance(t.ops[0], ast.GtE) and is_const(c, 1))
                                                   or (isinstance(t.ops[0], ast.NotEq) and is_const(c, 0))):
                a = d.split(".", 1)[1]
        elif dotted(t) and dotted(t).startswith(var + "."):
            a = dotted(t).split(".", 1)[1]
        if a is None:
            return None
        out.append(a)
    return out


def _mentions_verbose(test):
    return any((isinstance(n, ast.Name) and n.id == "verbose") or (isinstance(n, ast.Attribute) and n.attr == "verbose") for n in ast.walk(test))


def r_drain(ctx):
    repo = ctx.repo
    root = common.solve_root(repo)
    ctx.unit(qualname(root))
    conts = containers(repo)
    ctx.count("declared-model containers", len(conts))
    sites = send_sites(repo, root)
    ctx.count("send sites in the solve root", len(sites))
    from . import solveprog
    if solveprog.decided_by_program(ctx, {"drain"}):
        ctx.notes.append("R-DRAIN: decided by the unrolled solve root (clause drain of R-SOLVEPROG)")
        return max(len(conts), 6), max(len(sites), 5)
    used = {}
    for s in sites:
        where = loc(root, s.call)
        skey = "PEP.%s::send %s" % (root.name, norm_stmt(s.stmt)[:60])
        # no send under a verbosity guard
        vg = [t for t, br, _ in flow.conditions_guarding(s.stmt) if _mentions_verbose(t)]
        if vg:
            ctx.ob("R-DRAIN", skey + "::verbosity", False, "send sits under the verbosity guard `%s`" % src(vg[0]), where)
        if s.loop is None or s.attr is None:
            ctx.ob("R-DRAIN", skey, False, "send is not inside a loop over a whole container attribute (iterates `%s`)"
                   % (src(getattr(s, "iter_expr", None)) if s.loop is not None else "nothing"), where)
            continue
        ocls, info = _owner_class_of(repo, root, s.owner)
        if ocls is None:
            ctx.ob("R-DRAIN", skey, False, "owner `%s` of the iterated container is not the problem, a registered function or a registered partition" % src(s.owner), where)
            continue
        kind = conts.get((ocls, s.attr))
        if kind is None:
            ctx.ob("R-DRAIN", skey, False, "`%s.%s` is not a container of the declared model" % (ocls, s.attr), where)
            continue
        used.setdefault((ocls, s.attr), []).append(s)
        # element sent with the method of its kind
        ok = True
        why = []
        if kind == "Constraint":
            if s.method != SEND_C or not (isinstance(s.arg, ast.Name) and s.arg.id == s.elem):
                ok = False
                why.append("the loop element `%s` is not what `%s` receives (`%s`)" % (s.elem, s.method, src(s.arg)))
        elif kind == "PSDMatrix":
            if s.method != SEND_P or not (isinstance(s.arg, ast.Name) and s.arg.id == s.elem):
                ok = False
                why.append("the loop element `%s` is not sent as an LMI (`%s(%s)`)" % (s.elem, s.method, src(s.arg)))
        else:   # metric: objective <= metric
            cons = _metric_constraint(root, s)
            if cons is not None:
                ok = False
                why.append(cons)
        # the send is executed exactly once per element on every path of the loop body
        pc = flow.path_counts(s.loop.body, lambda n: n is s.call)
        if (set(pc) - {"raise"}) != {"next"} or pc["next"] != {1}:
            ok = False
            why.append("not exactly one send per element on every path of the loop body (%s)" % {k: sorted(v) for k, v in pc.items()})
        # guards between the function entry and the loop: only non-emptiness of the same container
        for t, br, ifn in flow.conditions_guarding(s.loop):
            if _mentions_verbose(t):
                continue
            var = dotted(s.owner)
            na = _nonempty_attrs(t, var) if var else None
            if not (br and na is not None and s.attr in na and len(na) == 1):
                ok = False
                why.append("the drain loop is guarded by `%s`" % src(t))
        # owner domain
        if ocls != "PEP":
            lp, origin = info
            flt, var = origin[1], origin[2]
            if flt is not None:
                is_class_list = "class" in s.attr
                if is_class_list:
                    good = isinstance(flt, ast.Call) and call_name(flt) == "get_is_leaf" and dotted(flt.func.value) == var
                    if not good:
                        ok = False
                        why.append("class constraints are drained from functions filtered by `%s` (expected: leaf functions)" % src(flt))
                else:
                    na = _nonempty_attrs(flt, var)
                    if na is None or s.attr not in na:
                        ok = False
                        why.append("owner functions are filtered by `%s`, which can exclude a function with a non-empty %s" % (src(flt), s.attr))
            for t, br, ifn in flow.conditions_guarding(lp):
                if not _mentions_verbose(t):
                    ok = False
                    why.append("the loop over owners is guarded by `%s`" % src(t))
            if flow.in_loop(lp) is not None:
                ok = False
                why.append("the loop over owners is nested in another loop")
        if not _whole(s):
            ok = False
            why.append("iterates `%s`, not the whole container" % src(s.loop.iter))
        ctx.ob("R-DRAIN", "%s.%s::drained" % (ocls, s.attr) + ("" if len(used[(ocls, s.attr)]) == 1 else "#%d" % len(used[(ocls, s.attr)])),
               ok, "every element is sent once, with the method of its kind, for every owner" if ok else "; ".join(why), where)
        ctx.sample({"rule": "R-DRAIN", "container": "%s.%s" % (ocls, s.attr), "kind": kind, "send": norm_stmt(s.stmt)[:80]})
    for (ocls, attr), kind in sorted(conts.items()):
        n = len(used.get((ocls, attr), []))
        ctx.ob("R-DRAIN", "%s.%s::exactly-one-drain" % (ocls, attr), n == 1,
               "drained by exactly one loop of the solve root" if n == 1 else
               "container of %s objects is drained by %d loops of the solve root: its content reaches the solver %s"
               % (kind, n, "never" if n == 0 else "%d times" % n), loc(root, root))
    # registries are appended to unconditionally by the constructors
    for cname, reg in (("Function", "list_of_functions"), ("BlockPartition", "list_of_partitions")):
        init = repo.cls(cname).methods.get("__init__")
        app = [c for c in ast.walk(init) if isinstance(c, ast.Call) and call_name(c) == "append" and dotted(c.func.value) == "%s.%s" % (cname, reg)]
        ok = len(app) == 1 and not flow.conditions_guarding(common.stmt_of(app[0])) and not flow.in_loop(common.stmt_of(app[0])) \
            and len(app[0].args) == 1 and dotted(app[0].args[0]) == "self"
        ctx.ob("R-DRAIN", "%s.%s::registered unconditionally" % (cname, reg), ok,
               "every instance registers itself" if ok else "the constructor does not register every instance unconditionally", loc(init, init))
    return len(conts), len(sites)


def _whole(s):
    it, _ = iter_base(s.loop.iter)
    return isinstance(it, ast.Attribute)


def _metric_constraint(root, s):
    """None when the send receives `objective <= metric` for the loop element; otherwise the reason."""
    if s.method != SEND_C:
        return "a metric is sent with %s" % s.method
    arg = s.arg
    expr = arg
    if isinstance(arg, ast.Name):
        defs = [a for a in s.loop.body if isinstance(a, ast.Assign) and any(isinstance(t, ast.Name) and t.id == arg.id for t in a.targets)]
        if len(defs) != 1:
            return "the constraint sent for a metric (`%s`) is not defined once in the loop body" % arg.id
        expr = defs[0].value
    if not (isinstance(expr, ast.Compare) and len(expr.ops) == 1):
        return "the constraint sent for a metric is `%s`, not a comparison of the objective with the metric" % src(expr)
    l, op, r = expr.left, expr.ops[0], expr.comparators[0]
    lo, hi = (l, r) if isinstance(op, (ast.LtE, ast.Lt)) else ((r, l) if isinstance(op, (ast.GtE, ast.Gt)) else (None, None))
    if lo is None:
        return "the objective is tied to a metric by `%s` instead of objective <= metric" % src(expr)
    if dotted(lo) != "self.objective" or not (isinstance(hi, ast.Name) and hi.id == s.elem):
        return "expected `self.objective <= %s`, found `%s`: the maximised objective is not the minimum of the metrics" % (s.elem, src(expr))
    return None


def r_obj(ctx):
    """objective = min of the metrics: one constraint objective <= metric per element of the whole metric list."""
    repo = ctx.repo
    root = common.solve_root(repo)
    from . import solveprog
    if solveprog.decided_by_program(ctx, {"drain"}):
        ctx.notes.append("R-OBJ: decided by the unrolled solve root (clause drain of R-SOLVEPROG: one `objective <= metric` per metric)")
        return
    conts = containers(repo)
    metrics = [(c, a) for (c, a), k in conts.items() if k == "Expression" and c == "PEP"]
    if len(metrics) != 1:
        raise AnalysisError("expected one metric container on PEP, found %s" % metrics)
    attr = metrics[0][1]
    sites = [s for s in send_sites(repo, root) if s.attr == attr and dotted(s.owner) == "self"]
    ok = len(sites) == 1 and _metric_constraint(root, sites[0]) is None and _whole(sites[0]) \
        and not [t for t, br, _ in flow.conditions_guarding(sites[0].loop) if not _mentions_verbose(t)]
    ctx.ob("R-OBJ", "PEP.%s::objective <= every metric" % root.name, ok,
           "one constraint objective <= metric is sent for every element of self.%s" % attr if ok else
           ("%d send site(s) for the metric list; %s" % (len(sites), _metric_constraint(root, sites[0]) if sites else "none")),
           loc(root, sites[0].call if sites else root))


# ---------------------------------------------------------------------------------------------------
# R-PAIR
# ---------------------------------------------------------------------------------------------------
class _Canon(ast.NodeTransformer):
    def __init__(self, ren):
        self.ren = ren

    def visit_Name(self, node):
        if node.id in self.ren:
            return ast.Name(id=self.ren[node.id], ctx=ast.Load())
        return node


def _canon(e, ren):
    return " ".join(src(_Canon(ren).visit(clone(e))).split())


def _loop_entry(target, it, ren):
    """canonical text of the iterated expression; the element variable(s) get positional names"""
    whole, enum = iter_base(it)
    text = _canon(whole, ren)
    ren = dict(ren)
    if enum and isinstance(target, ast.Tuple) and len(target.elts) == 2:
        target = target.elts[1]
    k = len([v for v in ren.values() if v.startswith("$")])
    for n in ast.walk(target):
        if isinstance(n, ast.Name):
            ren[n.id] = "$%d" % k
            k += 1
    return text, ren


def _trivial_guard(test, loops_below):
    """`len(X) > 0`, `X`, `X != []` where X is iterated by a loop nested in the guard: the guard changes nothing"""
    t = test
    x = None
    if isinstance(t, ast.Compare) and len(t.ops) == 1:
        l, op, r = t.left, t.ops[0], t.comparators[0]
        if isinstance(l, ast.Call) and call_name(l) == "len" and l.args and isinstance(r, ast.Constant) and r.value == 0 and isinstance(op, (ast.Gt, ast.NotEq)):
            x = l.args[0]
        elif isinstance(l, ast.Call) and call_name(l) == "len" and l.args and isinstance(r, ast.Constant) and r.value == 1 and isinstance(op, ast.GtE):
            x = l.args[0]
        elif isinstance(op, ast.NotEq) and ((isinstance(r, (ast.List, ast.Tuple)) and not r.elts) or (isinstance(r, ast.Call) and call_name(r) == "list" and not r.args)):
            x = l
    elif isinstance(t, (ast.Attribute, ast.Name)):
        x = t
    return x is not None and " ".join(src(x).split()) in loops_below


def _context(stmt, root):
    """(loops, guards, renaming) enclosing a statement of the solve root, outermost first"""
    chain = []
    n = stmt
    while n is not root:
        par = n._parent
        if isinstance(par, ast.For) and n in par.body:
            chain.append(("for", par))
        elif isinstance(par, ast.While) and n in par.body:
            chain.append(("while", par))
        elif isinstance(par, ast.If):
            chain.append(("if", par, n in par.body))
        n = par
    chain.reverse()
    loops, guards, ren = [], [], {}
    raw_loops = [" ".join(src(iter_base(c[1].iter)[0]).split()) for c in chain if c[0] == "for"]
    for c in chain:
        if c[0] == "for":
            text, ren = _loop_entry(c[1].target, c[1].iter, ren)
            loops.append(text)
        elif c[0] == "while":
            loops.append("while " + _canon(c[1].test, ren))
        else:
            if c[2] and _trivial_guard(c[1].test, raw_loops):
                continue
            if isinstance(c[1].test, ast.Name) and c[1].test.id == "verbose":
                guards.append(("verbose", c[2]))
                continue
            guards.append((_canon(c[1].test, ren), c[2]))
    return loops, guards, ren


def _list_contributions(e, loops, guards, ren, fn, depth=0):
    """Descriptors (loops, guards, element) of the members of a list-valued expression; None when the expression is not understood."""
    if depth > 6:
        return None
    if isinstance(e, ast.BinOp) and isinstance(e.op, ast.Add):
        l = _list_contributions(e.left, loops, guards, ren, fn, depth + 1)
        r = _list_contributions(e.right, loops, guards, ren, fn, depth + 1)
        return None if l is None or r is None else l + r
    if isinstance(e, (ast.List, ast.Tuple)):
        out = []
        for x in e.elts:
            if isinstance(x, ast.Starred):
                sub = _list_contributions(x.value, loops, guards, ren, fn, depth + 1)
                if sub is None:
                    return None
                out += sub
            else:
                out.append((tuple(loops), tuple(guards), _canon(x, ren)))
        return out
    if isinstance(e, ast.Call) and call_name(e) in ("list", "tuple") and isinstance(e.func, ast.Name):
        if not e.args:
            return []
        return _list_contributions(e.args[0], loops, guards, ren, fn, depth + 1)
    if isinstance(e, (ast.ListComp, ast.GeneratorExp)):
        if isinstance(e.elt, (ast.List, ast.Tuple, ast.ListComp)):
            return None
        # a generator over `X + Y` is one over X followed by one over Y
        alts = [(list(loops), list(guards), dict(ren))]
        for g in e.generators:
            nxt = []
            whole, enum = iter_base(g.iter)
            parts = []

            def split(x):
                if isinstance(x, ast.BinOp) and isinstance(x.op, ast.Add):
                    split(x.left)
                    split(x.right)
                else:
                    parts.append(x)
            split(whole)
            for lp, gd, rn in alts:
                for part in parts:
                    tgt = g.target.elts[1] if enum and isinstance(g.target, ast.Tuple) and len(g.target.elts) == 2 else g.target
                    text, rn2 = _loop_entry(tgt, part, rn)
                    gd2 = list(gd)
                    for c in g.ifs:
                        gd2.append((_canon(c, rn2), True))
                    nxt.append((lp + [text], gd2, rn2))
            alts = nxt
        return [(tuple(lp), tuple(gd), _canon(e.elt, rn)) for lp, gd, rn in alts]
    if isinstance(e, ast.Name) and e.id not in ren:
        defs = [st for st in flow.stmts_of(fn, ast.Assign) if len(st.targets) == 1 and isinstance(st.targets[0], ast.Name) and st.targets[0].id == e.id]
        if len(defs) == 1 and isinstance(defs[0].value, (ast.BinOp, ast.List, ast.ListComp, ast.Call)) and not (isinstance(defs[0].value, ast.Call) and call_name(defs[0].value) not in ("list", "tuple")):
            return _list_contributions(defs[0].value, loops, guards, ren, fn, depth + 1)
    if isinstance(e, (ast.Attribute, ast.Name)):
        k = len([v for v in ren.values() if v.startswith("$")])
        return [(tuple(loops) + (_canon(e, ren),), tuple(guards), "$%d" % k)]
    return None


def r_pair(ctx):
    """What is recorded as sent is what is sent, per kind of object: the multiset of (iteration domain, guards, object) of the send calls
    equals that of the contributions to the tracking list, whether they are per-object appends or bulk list expressions."""
    repo = ctx.repo
    root = common.solve_root(repo)
    sites = send_sites(repo, root)
    from . import solveprog
    if solveprog.decided_by_program(ctx, {"track", "drain"}):
        # the solve root was unrolled on every configuration: what is tracked is compared with what is sent, object by object, there
        ctx.notes.append("R-PAIR: decided by the unrolled solve root (clauses track / drain of R-SOLVEPROG)")
        ctx.count("send/track pairs", len(sites))
        return max(len(sites), 5)
    from .state import tracked_lists
    tracked = tracked_lists(root, repo)
    contrib = {t: [] for t in tracked}            # attr -> [(descriptor, node)]
    not_understood = []
    overwrite = {}
    for n in ast.walk(root):
        attr = expr = None
        if isinstance(n, ast.Call) and call_name(n) in ("append", "extend") and isinstance(n.func, ast.Attribute) and len(n.args) == 1:
            d = dotted(n.func.value)
            if d and d.startswith("self.") and d.split(".", 1)[1] in tracked:
                attr = d.split(".", 1)[1]
                expr = ast.List(elts=[n.args[0]], ctx=ast.Load()) if call_name(n) == "append" else n.args[0]
        elif isinstance(n, ast.Assign) and len(n.targets) == 1 and dotted(n.targets[0]) and dotted(n.targets[0]).startswith("self.") \
                and dotted(n.targets[0]).split(".", 1)[1] in tracked:
            attr, expr = dotted(n.targets[0]).split(".", 1)[1], n.value
            if isinstance(expr, ast.BinOp) and isinstance(expr.op, ast.Add) and dotted(expr.left) == "self." + attr:
                expr = expr.right
        elif isinstance(n, ast.AugAssign) and isinstance(n.op, ast.Add) and dotted(n.target) and dotted(n.target).startswith("self.") \
                and dotted(n.target).split(".", 1)[1] in tracked:
            attr, expr = dotted(n.target).split(".", 1)[1], n.value
        if attr is None:
            continue
        st = common.stmt_of(n)
        loops, guards, ren = _context(st, root)
        ds = _list_contributions(expr, loops, guards, ren, root)
        if ds is None:
            not_understood.append((attr, n))
            continue
        if isinstance(n, ast.Assign) and expr is n.value and flow.in_loop(st) is None:
            # a plain rebinding outside any loop discards what was recorded before it
            contrib[attr] = [c for c in contrib[attr] if c[1].lineno > n.lineno]
            overwrite.setdefault(attr, []).append(n.lineno)
        if any(n.lineno < l0 for l0 in overwrite.get(attr, [])):
            continue
        for d in ds:
            contrib[attr].append([d, n, False])
    # which list follows which kind of send
    send_desc = []
    for s0 in sites:
        loops, guards, ren = _context(s0.stmt, root)
        send_desc.append((tuple(loops), tuple(guards), _canon(s0.arg, ren) if s0.arg is not None else None))
    kind_of = {}
    for t in tracked:
        for d, n, _ in contrib[t]:
            for s0, sd in zip(sites, send_desc):
                if sd == d:
                    kind_of.setdefault(t, set()).add(s0.method)
    lst_c = [t for t in tracked if kind_of.get(t) == {SEND_C}]
    lst_p = [t for t in tracked if kind_of.get(t) == {SEND_P}]
    if len(lst_c) != 1 or len(lst_p) != 1:
        raise AnalysisError("tracking lists of the solve root not resolved: %s" % sorted(tracked))
    lst_c, lst_p = lst_c[0], lst_p[0]
    for attr, n in not_understood:
        raise AnalysisError("contribution `%s` to the tracking list %s is not a list expression the analysis understands" % (norm_stmt(common.stmt_of(n))[:80], attr))
    for s, sd in zip(sites, send_desc):
        attr = lst_c if s.method == SEND_C else lst_p
        want = "self." + attr
        partner = None
        for c in contrib[attr]:
            if not c[2] and c[0] == sd:
                partner = c
                break
        ok = partner is not None
        if ok:
            partner[2] = True
        near = None
        if not ok:
            # same iteration domain but another object, or the same object over another domain
            for c in contrib[attr]:
                if not c[2] and (c[0][0] == sd[0] or c[0][2] == sd[2]):
                    near = c
                    break
        ctx.ob("R-PAIR", "PEP.%s::track %s" % (root.name, norm_stmt(s.stmt)[:60]), ok,
               "the object sent is recorded in %s over the same iteration domain" % want if ok else
               ("`%s` is sent (for %s%s) but %s: the certificate ranges over a different constraint set than the solver's"
                % (src(s.arg), " / ".join(sd[0]) or "once", "".join(" if %s%s" % ("" if b else "not ", g) for g, b in sd[1]),
                   "not tracked in %s" % want if near is None else
                   "%s records `%s` for %s%s instead" % (want, near[0][2], " / ".join(near[0][0]) or "once", "".join(" if %s%s" % ("" if b else "not ", g) for g, b in near[0][1])))),
               loc(root, s.call))
    for attr in (lst_c, lst_p):
        for d, n, used in contrib[attr]:
            if not used:
                ctx.ob("R-PAIR", "PEP.%s::untracked-send %s" % (root.name, norm_stmt(common.stmt_of(n))[:60]), False,
                       "`%s` (for %s) is recorded as sent in self.%s but no send call covers it: a stale multiplier enters the certificate"
                       % (d[2], " / ".join(d[0]) or "once", attr), loc(root, n))
    # the reconstruction iterates exactly these two lists
    rec = common.reconstruction_fn(repo)
    ctx.unit(qualname(rec))
    iterated = set()
    for n in ast.walk(rec):
        if isinstance(n, (ast.For, ast.comprehension)):
            d = dotted(n.iter)
            if d and d.startswith("self."):
                iterated.add(d.split(".", 1)[1])
    ok = iterated == {lst_c, lst_p}
    ctx.ob("R-PAIR", "PEP.%s::ranges over the tracked lists" % rec.name, ok,
           "the reconstruction iterates exactly the two tracking lists" if ok else
           "the reconstruction iterates %s, the solve root tracks %s" % (sorted(iterated), sorted([lst_c, lst_p])), loc(rec, rec))
    ctx.count("send/track pairs", len(sites))
    return len(sites)


# ---------------------------------------------------------------------------------------------------
# R-OBJSENSE / R-ORDER / R-RET
# ---------------------------------------------------------------------------------------------------
def r_objsense(ctx):
    repo = ctx.repo
    root = common.solve_root(repo)
    wname = common.wrapper_param(root)
    gens = [c for c in ast.walk(root) if isinstance(c, ast.Call) and call_name(c) == "generate_problem"]
    sites = send_sites(repo, root)
    ok = len(gens) == 1
    msg = "generate_problem is called once, after every send, with the objective leaf"
    if ok:
        g = gens[0]
        gst = common.stmt_of(g)
        if flow.in_loop(gst) is not None or flow.conditions_guarding(gst):
            ok, msg = False, "generate_problem is called conditionally or in a loop"
        elif any(s.call.lineno > g.lineno for s in sites):
            ok, msg = False, "constraints are sent after the problem has been generated: they never reach the solver"
        elif not (len(g.args) == 1 and dotted(g.args[0]) == "self.objective"):
            ok, msg = False, "generate_problem receives `%s`, not the objective leaf" % (src(g.args[0]) if g.args else "nothing")
    else:
        msg = "generate_problem is called %d times" % len(gens)
    from . import solveprog
    solveprog.ob_unless_program(ctx, {"generate"}, "R-OBJSENSE", "PEP.%s::generate once after the sends" % root.name, ok, msg, loc(root, gens[0] if gens else root))
    # set_main_variables precedes every send
    mv = [c for c in ast.walk(root) if isinstance(c, ast.Call) and call_name(c) == "set_main_variables"]
    ok = len(mv) == 1 and all(flow.dominates(common.stmt_of(mv[0]), s.stmt) for s in sites)
    from . import solveprog
    solveprog.ob_unless_program(ctx, {"generate"}, "R-OBJSENSE", "PEP.%s::main variables first" % root.name, ok,
                                "the Gram matrix and function-value variables are created once, before any constraint is sent" if ok else
                                "set_main_variables does not dominate every send", loc(root, mv[0] if mv else root))
    for be in common.backends(repo):
        fn = be.methods.get("generate_problem")
        if fn is None:
            raise AnalysisError("%s.generate_problem missing" % be.name)
        ctx.unit(qualname(fn))
        text = " ".join(src(fn).split())
        p_obj = params_of(fn)[1]
        if "cvxpy" in be.module.rel or "Cvxpy" in be.name:
            mx = [c for c in ast.walk(fn) if isinstance(c, ast.Call) and call_name(c) == "Maximize"]
            mn = [c for c in ast.walk(fn) if isinstance(c, ast.Call) and call_name(c) == "Minimize"]
            ok = len(mx) == 1 and not mn
            if ok:
                a = mx[0].args[0] if mx[0].args else None
                ok = a is not None and _derives_from_param(fn, a, p_obj)
            ctx.ob("R-OBJSENSE", "%s.generate_problem::maximise the objective" % be.name, ok,
                   "the problem maximises the translation of the objective expression" if ok else
                   "the cvxpy problem does not maximise the translated objective", loc(fn, fn))
            probs = [c for c in ast.walk(fn) if isinstance(c, ast.Call) and call_name(c) == "Problem"]
            okc = len(probs) == 1 and dotted(get_arg(probs[0], 1, "constraints")) == "self._list_of_solver_constraints"
            ctx.ob("R-OBJSENSE", "%s.generate_problem::all constraints" % be.name, okc,
                   "the problem is built over the whole list of solver constraints" if okc else "the problem is not built over self._list_of_solver_constraints", loc(fn, fn))
        else:
            senses = [dotted(c.args[0]) for c in ast.walk(fn) if isinstance(c, ast.Call) and call_name(c) == "putobjsense" and c.args]
            ok = senses == ["mosek.objsense.maximize"]
            ctx.ob("R-OBJSENSE", "%s.generate_problem::maximise the objective" % be.name, ok,
                   "objective sense is maximize" if ok else "objective sense set to %s" % senses, loc(fn, fn))
            # putclist receives the F indices / weights of the objective (positions 3 and 4 of the sparse translation)
            okc = False
            for s in flow.stmts_of(fn, ast.Assign):
                if isinstance(s.value, ast.Call) and call_name(s.value) == "expression_to_sparse_matrices" and isinstance(s.targets[0], ast.Tuple) \
                        and len(s.targets[0].elts) == 6 and s.value.args and dotted(s.value.args[0]) == p_obj:
                    names = [src(e) for e in s.targets[0].elts]
                    for c in ast.walk(fn):
                        if isinstance(c, ast.Call) and call_name(c) == "putclist" and [src(a) for a in c.args] == [names[3], names[4]]:
                            okc = True
            ctx.ob("R-OBJSENSE", "%s.generate_problem::objective weights" % be.name, okc,
                   "the linear objective is the F-part of the objective expression" if okc else
                   "putclist does not receive the F indices and weights of the objective expression", loc(fn, fn))


def _derives_from_param(fn, expr, param, depth=0):
    for n in ast.walk(expr):
        if isinstance(n, ast.Name) and n.id == param:
            return True
    if depth < 4:
        for nm in {n.id for n in ast.walk(expr) if isinstance(n, ast.Name)}:
            for s in flow.stmts_of(fn, ast.Assign):
                tg = [x for t in s.targets for x in (t.elts if isinstance(t, ast.Tuple) else [t])]
                if any(isinstance(t, ast.Name) and t.id == nm for t in tg):
                    if _derives_from_param(fn, s.value, param, depth + 1):
                        return True
    return False


def r_order(ctx):
    """The multipliers of the original problem are captured before any dimension-reduction step and never again."""
    repo = ctx.repo
    root = common.solve_root(repo)
    wname = common.wrapper_param(root)
    assigns = [c for c in ast.walk(root) if isinstance(c, ast.Call) and call_name(c) == "assign_dual_values"]
    heur = [c for c in ast.walk(root) if isinstance(c, ast.Call) and call_name(c) in ("prepare_heuristic", "heuristic")]
    ctx.count("heuristic call sites", len(heur))
    ok = len(assigns) == 1
    msg = "assign_dual_values is called exactly once"
    if ok:
        ast_ = common.stmt_of(assigns[0])
        if flow.in_loop(ast_) is not None:
            ok, msg = False, "assign_dual_values is called in a loop: multipliers of a later (modified) problem overwrite the proof"
        else:
            nd = [c for c in heur if not flow.dominates(ast_, common.stmt_of(c))]
            if nd:
                ok, msg = False, "dimension-reduction calls at lines %s are reachable before the multipliers are captured" % [c.lineno for c in nd]
            late = [c for c in heur if c.lineno < assigns[0].lineno]
            if late:
                ok, msg = False, "the multipliers are captured after a dimension-reduction step (lines %s): they belong to the modified problem" % [c.lineno for c in late]
    else:
        msg = "assign_dual_values is called %d times in the solve root" % len(assigns)
    ctx.ob("R-ORDER", "PEP.%s::duals captured once before the heuristic" % root.name, ok, msg, loc(root, assigns[0] if assigns else root))
    # ... and nothing else in the package triggers the capture (it writes the multipliers onto the constraints of the model): an accessor or a
    # solve that calls it later would overwrite the proof with the multipliers of whatever problem the wrapper solved last
    elsewhere = [(f0, c0) for f0 in repo.all_functions() if f0 is not root for c0 in ast.walk(f0)
                 if isinstance(c0, ast.Call) and call_name(c0) == "assign_dual_values"]
    ctx.ob("R-ORDER", "assign_dual_values::called by the solve root only", not elsewhere,
           "the only call site is in the solve root" if not elsewhere else
           "%s calls assign_dual_values as well: the multipliers stored on the constraints can be overwritten after the capture -- after a "
           "dimension reduction, by those of the modified problem" % qualname(elsewhere[0][0]),
           loc(elsewhere[0][0], elsewhere[0][1]) if elsewhere else loc(root, root))
    # a solve between capture and heuristic?  the first solve must precede the capture
    solves = sorted([c for c in ast.walk(root) if isinstance(c, ast.Call) and call_name(c) == "solve" and dotted(c.func.value) == wname], key=lambda c: c.lineno)
    if assigns and solves:
        before = [c for c in solves if c.lineno < assigns[0].lineno]
        ok = len(before) == 1 and all(flow.dominates(common.stmt_of(before[0]), common.stmt_of(assigns[0])) for _ in [0])
        ctx.ob("R-ORDER", "PEP.%s::capture follows the first solve only" % root.name, ok,
               "exactly one solve precedes the capture of the multipliers" if ok else
               "%d solve call(s) precede the capture of the multipliers" % len(before), loc(root, assigns[0]))
    # residual written only from the capture
    res_w = [s for s in flow.stmts_of(root, ast.Assign) if any(dotted(t) == "self.residual" for t in s.targets)]
    ok = len(res_w) == 1 and isinstance(res_w[0].value, ast.Call) and call_name(res_w[0].value) == "assign_dual_values"
    ctx.ob("R-ORDER", "PEP.%s::residual from the capture" % root.name, ok,
           "self.residual is written once, from assign_dual_values" if ok else "self.residual is written by %s" % [norm_stmt(s)[:60] for s in res_w], loc(root, root))
    # the reconstruction reads multipliers from the constraint objects and the stored residual only
    rec = common.reconstruction_fn(repo)
    bad = [n for n in ast.walk(rec) if isinstance(n, ast.Attribute) and n.attr in ("wrapper", "dual_values", "get_dual_variables")]
    ctx.ob("R-ORDER", "PEP.%s::reads stored multipliers" % rec.name, not bad,
           "the reconstruction uses eval_dual() and self.residual only" if not bad else "the reconstruction reads the wrapper (%s)" % src(bad[0]), loc(rec, rec))
    # the heuristic dispatch is closed (also R-OPTIONS under C16)
    return len(heur)


def r_ret(ctx):
    """Dual mode returns the constant term of the reconstructed identity; primal mode the solver value of the original objective."""
    repo = ctx.repo
    root = common.solve_root(repo)
    rec = common.reconstruction_fn(repo)
    # which name holds the reconstruction result in the solve root
    calls = [s for s in flow.stmts_of(root, ast.Assign) if isinstance(s.value, ast.Call) and call_name(s.value) == rec.name]
    if len(calls) != 1 or not isinstance(calls[0].targets[0], ast.Name):
        ctx.ob("R-RET", "PEP.%s::dual value from the reconstruction" % root.name, False, "the result of %s is not stored once in a local" % rec.name, loc(root, root))
        return
    dual_name = calls[0].targets[0].id
    # the option parameter: compared with the literals 'dual' / 'primal' somewhere in the root (or named by the public caller's dispatch)
    from ..absint import literal_test, bool_decider
    mode_param = None
    for t in ast.walk(root):
        if isinstance(t, ast.Compare) and len(t.ops) == 1 and isinstance(t.left, ast.Name) and t.left.id in params_of(root):
            c0 = t.comparators[0]
            vals = [c0.value] if isinstance(c0, ast.Constant) else [e.value for e in getattr(c0, "elts", []) if isinstance(e, ast.Constant)]
            if any(v in ("dual", "primal") for v in vals):
                mode_param = t.left.id
    if mode_param is None:
        ctx.ob("R-RET", "PEP.%s::mode dispatch" % root.name, False, "no dispatch on 'dual' / 'primal' found", loc(root, root))
    else:
        solve_val = _first_solve_value(root)
        rets = sorted([r for r in ast.walk(root) if isinstance(r, ast.Return)], key=lambda r: r.lineno)

        def returned_for(value):
            dec = bool_decider(lambda t: literal_test(t, mode_param, value))
            for r in rets:
                if any(dec(t) is None for t, br, _ in flow.conditions_guarding(r)):
                    continue            # an exit that depends on something else (no finite optimum, ...)
                if all(dec(t) is None or dec(t) == br for t, br, _ in flow.effective_guards(r, stop=root)):
                    return r
            return None
        rd, rp = returned_for("dual"), returned_for("primal")
        ok_d = rd is not None and rd.value is not None and dotted(rd.value) == dual_name
        ctx.ob("R-RET", "PEP.%s::dual mode" % root.name, ok_d,
               "mode 'dual' returns the result of %s" % rec.name if ok_d else
               "mode 'dual' returns `%s`, not the reconstructed constant `%s`" % (src(rd.value) if rd is not None and rd.value is not None else None, dual_name),
               loc(root, rd if rd is not None else root))
        ok_p = rp is not None and rp.value is not None and dotted(rp.value) == solve_val
        ctx.ob("R-RET", "PEP.%s::primal mode" % root.name, ok_p,
               "mode 'primal' returns the solver value" if ok_p else
               "mode 'primal' returns `%s`, not the solver value `%s`" % (src(rp.value) if rp is not None and rp.value is not None else None, solve_val),
               loc(root, rp if rp is not None else root))
    # the value returned when the caller says nothing is the certified one: the mode parameter defaults to 'dual' in the solve root and in its public caller
    if mode_param is not None:
        pep = common.pep_class(repo)
        for fn0 in [root] + [m for m in pep.methods.values() if m is not root and any(isinstance(c, ast.Call) and call_name(c) == root.name for c in ast.walk(m))]:
            a0 = fn0.args
            pos = a0.posonlyargs + a0.args
            dflt = dict(zip([x.arg for x in pos[len(pos) - len(a0.defaults):]], a0.defaults))
            dflt.update({x.arg: d for x, d in zip(a0.kwonlyargs, a0.kw_defaults) if d is not None})
            if mode_param not in dflt:
                continue
            okdef = is_const(dflt[mode_param], "dual")
            ctx.ob("R-RET", "PEP.%s::default mode" % fn0.name, okdef,
                   "without an explicit choice the reconstructed (certified) value is returned" if okdef else
                   "`%s` defaults to %s: a plain solve() returns the solver's primal value, which is a lower bound of the worst case, not a certified upper bound"
                   % (mode_param, src(dflt[mode_param])), loc(fn0, fn0))
    # inside the reconstruction: returned name <- key 1 of the pruned symmetrised decomposition of (objective - combination), default 0
    ctx.unit(qualname(rec))
    rets = [r for r in ast.walk(rec) if isinstance(r, ast.Return)]
    ok = len(rets) == 1 and isinstance(rets[0].value, ast.Name)
    msg = "single return of a name"
    if ok:
        name = rets[0].value.id
        defs = [s for s in flow.stmts_of(rec, ast.Assign) if any(isinstance(t, ast.Name) and t.id == name for t in s.targets)]
        for _ in range(4):
            # `x = y` with y a local bound once: look at the definition of y (e.g. the result of an inlined helper)
            if len(defs) == 1 and isinstance(defs[0].value, ast.Name):
                d2 = [s for s in flow.stmts_of(rec, ast.Assign) if any(isinstance(t, ast.Name) and t.id == defs[0].value.id for t in s.targets)]
                if d2:
                    defs = d2
                    continue
            break
        from_dict = [s for s in defs if isinstance(s.value, ast.Subscript) and is_const(s.value.slice, 1)]
        zero = [s for s in defs if is_const(s.value) and s.value.value in (0, 0.0)]
        via_get = [s for s in defs if isinstance(s.value, ast.Call) and call_name(s.value) == "get" and len(s.value.args) == 2 and is_const(s.value.args[0], 1)
                   and is_const(s.value.args[1]) and s.value.args[1].value in (0, 0.0)]
        ok = (len(defs) == 2 and len(from_dict) == 1 and len(zero) == 1) or (len(defs) == 1 and len(via_get) == 1)
        msg = "returned value is entry 1 (the constant) of the decomposition, 0 when absent"
        if ok and from_dict:
            # which definition reaches the return when the constant is present / absent
            dn = dotted(from_dict[0].value.value)

            def present_test(t, present):
                if isinstance(t, ast.Compare) and len(t.ops) == 1 and is_const(t.left, 1) and isinstance(t.ops[0], (ast.In, ast.NotIn)):
                    c = t.comparators[0]
                    base = c.func.value if isinstance(c, ast.Call) and call_name(c) == "keys" else c
                    if dotted(base) == dn:
                        return present if isinstance(t.ops[0], ast.In) else not present
                if isinstance(t, ast.UnaryOp) and isinstance(t.op, ast.Not):
                    v = present_test(t.operand, present)
                    return None if v is None else not v
                return None
            for present, want, what in ((True, from_dict[0], "present"), (False, zero[0], "absent")):
                live = []
                for d in defs:
                    conds = flow.conditions_guarding(d)
                    vals = [(present_test(t, present), br) for t, br, _ in conds]
                    if any(v is not None and v != br for v, br in vals):
                        continue
                    live.append(d)
                last = max(live, key=lambda d: d.lineno) if live else None
                if last is not want:
                    ok = False
                    msg = "when the constant term is %s the value returned is `%s`" % (what, norm_stmt(last)[:60] if last is not None else "undefined")
        if ok:
            dname = dotted(from_dict[0].value.value) if from_dict else dotted(via_get[0].value.func.value)
            ddefs = [s for s in flow.stmts_of(rec, ast.Assign) if any(isinstance(t, ast.Name) and t.id == dname for t in s.targets)]
            ok = len(ddefs) == 1 and _prune_sym_of_objective_minus_combination(rec, ddefs[0].value)
            if not ok:
                msg = "`%s` is not prune(symmetrize(decomposition of objective - combination))" % dname
        else:
            msg = "the returned name `%s` is defined by %s" % (name, [norm_stmt(s)[:50] for s in defs])
    if not ok and ("reconstruction",) not in ctx.program_ok:
        from . import feasprog
        try:
            feasprog.r_sign_program(ctx) if not getattr(ctx, "_feasprog_done", False) else None
        except AnalysisError:
            pass
    ctx.ob_or_program(("reconstruction",), "R-RET", "PEP.%s::returns the constant of the identity" % rec.name, ok, msg, loc(rec, rets[0] if rets else rec))


def _first_solve_value(root):
    wname = common.wrapper_param(root)
    solves = [s for s in flow.stmts_of(root, ast.Assign) if isinstance(s.value, ast.Call) and call_name(s.value) == "solve" and dotted(s.value.func.value) == wname]
    if not solves:
        return None
    t = solves[0].targets[0]
    if isinstance(t, ast.Tuple) and len(t.elts) == 3 and isinstance(t.elts[2], ast.Name):
        return t.elts[2].id
    return None


def _prune_sym_of_objective_minus_combination(rec, expr):
    """prune_dict(symmetrize_dict(X.decomposition_dict)) with X = self.objective - <combination>"""
    if not (isinstance(expr, ast.Call) and call_name(expr) == "prune_dict" and len(expr.args) == 1):
        return False
    inner = expr.args[0]
    if not (isinstance(inner, ast.Call) and call_name(inner) == "symmetrize_dict" and len(inner.args) == 1):
        return False
    d = inner.args[0]
    if not (isinstance(d, ast.Attribute) and d.attr == "decomposition_dict" and isinstance(d.value, ast.Name)):
        return False
    defs = [s for s in flow.stmts_of(rec, ast.Assign) if any(isinstance(t, ast.Name) and t.id == d.value.id for t in s.targets)]
    if len(defs) != 1:
        return False
    v = defs[0].value
    return isinstance(v, ast.BinOp) and isinstance(v.op, ast.Sub) and dotted(v.left) == "self.objective" and isinstance(v.right, ast.Name)


# ---------------------------------------------------------------------------------------------------
# R-PRIMALFLOW: the instance published after a solve is the solver's last primal solution
# ---------------------------------------------------------------------------------------------------
def r_primalflow(ctx):
    repo = ctx.repo
    root = common.solve_root(repo)
    wname = common.wrapper_param(root)
    ctx.unit(qualname(root))
    base = common.wrapper_base(repo)
    gp = base.methods.get("get_primal_variables")
    order = None
    if gp is not None:
        r = [x for x in ast.walk(gp) if isinstance(x, ast.Return)]
        if len(r) == 1 and isinstance(r[0].value, ast.Tuple):
            order = [dotted(e) for e in r[0].value.elts]
    ok = order == ["self.optimal_G", "self.optimal_F"]
    ctx.ob("R-PRIMALFLOW", "Wrapper.get_primal_variables", ok, "returns (Gram matrix, function values)" if ok else "returns %s" % order, loc(gp, gp) if gp else base.module.rel)
    unpacks = [s for s in flow.stmts_of(root, ast.Assign) if isinstance(s.value, ast.Call) and call_name(s.value) == "get_primal_variables" and dotted(s.value.func.value) == wname]
    if not unpacks or not all(isinstance(s.targets[0], ast.Tuple) and len(s.targets[0].elts) == 2 for s in unpacks):
        ctx.ob("R-PRIMALFLOW", "PEP.%s::primal variables unpacked" % root.name, False, "get_primal_variables is not unpacked into (G, F)", loc(root, root))
        return
    publishes = [s0 for s0 in flow.stmts_of(root, ast.Assign) if any(dotted(t) in ("self.G_value", "self.F_value") for t in s0.targets)]
    pub = {}
    for s0 in publishes:
        for t in s0.targets:
            if dotted(t) in ("self.G_value", "self.F_value") and isinstance(s0.value, ast.Name):
                pub[dotted(t)] = s0.value.id
    if set(pub) != {"self.G_value", "self.F_value"}:
        ctx.ob("R-PRIMALFLOW", "PEP.%s::published from locals" % root.name, False, "G_value / F_value are not published from two locals", loc(root, root))
        return
    G, F = pub["self.G_value"], pub["self.F_value"]

    def origins(name, seen=None):
        """defining statements of a local, followed through plain copies (x = y) -- helper inlining introduces such copies"""
        seen = seen if seen is not None else set()
        if name in seen:
            return []
        seen.add(name)
        out = []
        for s0 in flow.stmts_of(root, ast.Assign):
            for t in s0.targets:
                if isinstance(t, ast.Name) and t.id == name:
                    if isinstance(s0.value, ast.Name):
                        out += origins(s0.value.id, seen)
                    else:
                        out.append((s0, None))
                elif isinstance(t, ast.Tuple):
                    for k, e in enumerate(t.elts):
                        if isinstance(e, ast.Name) and e.id == name:
                            out.append((s0, k))
        return out
    # every definition of G / F is an unpack of the solver's primal variables, at the right position
    for nm, pos in ((G, 0), (F, 1)):
        foreign = [d for d, k in origins(nm) if not (d in unpacks and k == pos)]
        ctx.ob("R-PRIMALFLOW", "PEP.%s::%s only from the solver" % (root.name, "Gram matrix" if pos == 0 else "function values"), not foreign,
               "the published %s is only ever the solver's primal solution" % ("Gram matrix" if pos == 0 else "function values") if not foreign else
               "`%s` is also assigned by `%s`: the published instance is then not the solver's solution (e.g. an eigenvalue-thresholded matrix)" % (nm, norm_stmt(foreign[0])[:70]),
               loc(root, foreign[0] if foreign else unpacks[0]))
    # every solve is followed by an unpack before the values are published
    solves = [common.stmt_of(c) for c in ast.walk(root) if isinstance(c, ast.Call) and call_name(c) == "solve" and dotted(c.func.value) == wname]
    publishes = [s for s in flow.stmts_of(root, ast.Assign) if any(dotted(t) in ("self.G_value", "self.F_value") for t in s.targets)]
    evals = [common.stmt_of(c) for c in ast.walk(root) if isinstance(c, ast.Call) and call_name(c) == "_eval_points_and_function_values"]
    for sv in solves:
        later = [u for u in unpacks if u.lineno > sv.lineno and (flow.dominates(sv, u))]
        blk = flow.block_of(sv)[2]
        same_block = [u for u in later if any(x is u for x in blk)]
        first = solves.index(sv) == 0 and sv is min(solves, key=lambda x: x.lineno)
        ok = bool(same_block) or (first and bool(later))
        ctx.ob("R-PRIMALFLOW", "PEP.%s::solve at line-order %d refreshes the primal solution" % (root.name, sorted(x.lineno for x in solves).index(sv.lineno) + 1), ok,
               "the primal solution is re-read after this solve" if ok else
               "after this call of solve the locals (%s, %s) are not refreshed from the wrapper: a stale solution is published" % (G, F), loc(root, sv))
    # published values: after the whole dimension-reduction block, from these names
    heur_if = [s for s in root.body if isinstance(s, ast.If) and any(isinstance(c, ast.Call) and call_name(c) in ("prepare_heuristic", "heuristic") for c in ast.walk(s))]
    okp = len(publishes) == 2 and len(evals) == 1
    msg = "G_value / F_value are published once each and the leaves are evaluated once"
    if okp:
        want = {"self.G_value": G, "self.F_value": F}
        for s in publishes:
            for t in s.targets:
                if dotted(t) in want and dotted(s.value) != want[dotted(t)]:
                    okp, msg = False, "`%s` is published from `%s`, not from the solver's `%s`" % (dotted(t), src(s.value), want[dotted(t)])
        for s in publishes + evals:
            if heur_if and not all(flow.dominates(h, s) and h.lineno < s.lineno for h in heur_if):
                okp, msg = False, ("`%s` is executed before the dimension-reduction block: the published Gram matrix / function values are those of the first "
                                   "solve while points are evaluated from the last one" % norm_stmt(s)[:60])
            if flow.conditions_guarding(s) or flow.in_loop(s):
                okp, msg = False, "`%s` is conditional" % norm_stmt(s)[:60]
        ev = [c for c in ast.walk(evals[0]) if isinstance(c, ast.Call) and call_name(c) == "_eval_points_and_function_values"][0]
        fnp = common.pep_class(repo).methods["_eval_points_and_function_values"]
        ps = params_of(fnp)[1:3]
        given = {ps[k]: dotted(a) for k, a in enumerate(ev.args[:2])}
        for kw in ev.keywords:
            if kw.arg in ps:
                given[kw.arg] = dotted(kw.value)
        role = {p: ("F" if p.upper().startswith("F") else "G") for p in ps}
        for pn, val in given.items():
            if val != (F if role[pn] == "F" else G):
                okp, msg = False, "the leaves are evaluated from `%s` passed as %s" % (val, pn)
    else:
        msg = "%d publications of G_value / F_value, %d evaluations of the leaves" % (len(publishes), len(evals))
    ctx.ob("R-PRIMALFLOW", "PEP.%s::published instance is the last solution" % root.name, okp, msg, loc(root, publishes[0] if publishes else root))


def r_fresh_declarations(ctx, only=None):
    """declare_function / set_initial_point / declare_block_partition build and return a NEW object at every call, on every path."""
    pep = common.pep_class(ctx.repo)
    for name, ctor in (("declare_function", None), ("set_initial_point", "Point"), ("declare_block_partition", "BlockPartition")):
        if only and name not in only:
            continue
        fn = pep.methods.get(name)
        if fn is None:
            raise AnalysisError("PEP.%s missing" % name)
        ctx.unit(qualname(fn))
        rets = [r for r in ast.walk(fn) if isinstance(r, ast.Return)]
        ok = len(rets) == 1 and isinstance(rets[0].value, ast.Name) and not flow.conditions_guarding(rets[0]) and flow.in_loop(rets[0]) is None
        msg = "returns conditionally / several returns"
        if ok:
            v = rets[0].value.id
            defs = [s for s in flow.stmts_of(fn, ast.Assign) if dotted(s.targets[0]) == v]
            ok = len(defs) == 1 and isinstance(defs[0].value, ast.Call) and not flow.conditions_guarding(defs[0]) and flow.in_loop(defs[0]) is None \
                and (call_name(defs[0].value) == ctor if ctor else isinstance(defs[0].value.func, ast.Name) and defs[0].value.func.id in params_of(fn))
            msg = "builds a new object and returns it" if ok else "the returned object is `%s`" % (norm_stmt(defs[0])[:70] if defs else v)
        else:
            msg = "%d return statement(s), some conditional or in a loop: an existing object can be handed back instead of a new one" % len(rets)
        ctx.ob("R-NEWOBJ", "PEP.%s" % name, ok, msg, loc(fn, fn))


def r_heurcall(ctx):
    """What the solve root hands to the dimension-reduction step: the optimum of the first solve and the tolerance as given, the identity for
    'trace', the inverse of (thresholded Gram + regularisation * identity) for 'logdet'."""
    repo = ctx.repo
    root = common.solve_root(repo)
    v = _first_solve_value(root)
    ps = params_of(root)
    tol = [p for p in ps if "tol" in p]
    reg = [p for p in ps if "regul" in p]
    prep = [c for c in ast.walk(root) if isinstance(c, ast.Call) and call_name(c) == "prepare_heuristic"]
    ok = len(prep) == 1 and len(tol) == 1 and [dotted(a) for a in prep[0].args] == [v, tol[0]] and not prep[0].keywords
    ctx.ob("R-HEURCALL", "PEP.%s::prepare_heuristic(optimum, tolerance)" % root.name, ok,
           "the heuristic constraint is built from the first optimum and the user's tolerance" if ok else
           "prepare_heuristic receives (%s), expected (%s, %s)" % (", ".join(src(a) for a in prep[0].args) if prep else "nothing", v, tol[0] if tol else "?"),
           loc(root, prep[0] if prep else root))
    # the tolerance and the regularisation are the caller's numbers: no replacement that depends on their truthiness (0 is a legitimate value)
    for p0 in tol + reg:
        for fn0 in [root] + [m for m in common.pep_class(repo).methods.values() if m is not root and p0 in params_of(m)
                             and any(isinstance(c, ast.Call) and call_name(c) == root.name for c in ast.walk(m))]:
            for s0 in flow.stmts_of(fn0):
                tg0 = s0.targets if isinstance(s0, ast.Assign) else ([s0.target] if isinstance(s0, ast.AugAssign) else [])
                if not any(isinstance(t, ast.Name) and t.id == p0 for t in tg0):
                    continue
                v0 = s0.value
                why = None
                if isinstance(v0, ast.BoolOp) and isinstance(v0.op, ast.Or) and dotted(v0.values[0]) == p0:
                    why = "`%s`" % norm_stmt(s0)[:70]
                elif isinstance(v0, ast.IfExp) and dotted(v0.test) == p0:
                    why = "`%s`" % norm_stmt(s0)[:70]
                else:
                    for t, br, _ in flow.conditions_guarding(s0):
                        tt = t.operand if isinstance(t, ast.UnaryOp) and isinstance(t.op, ast.Not) else t
                        if dotted(tt) == p0 or (isinstance(tt, ast.Compare) and dotted(tt.left) == p0 and is_const(tt.comparators[0], 0)):
                            why = "`%s` under `%s`" % (norm_stmt(s0)[:50], src(t))
                if why:
                    ctx.ob("R-HEURCALL", "PEP.%s::%s as given" % (fn0.name, p0), False,
                           "%s replaces a value of `%s` that is falsy: an explicit 0 silently becomes the default" % (why, p0), loc(fn0, s0))
                elif not (isinstance(v0, ast.Call) and isinstance(v0.func, ast.Name) and v0.func.id == "float" and len(v0.args) == 1 and dotted(v0.args[0]) == p0):
                    ctx.ob("R-HEURCALL", "PEP.%s::%s as given" % (fn0.name, p0), False,
                           "`%s` replaces the caller's `%s`: the heuristic then works with another number than the stated one" % (norm_stmt(s0)[:70], p0), loc(fn0, s0))
    heur = [c for c in ast.walk(root) if isinstance(c, ast.Call) and call_name(c) == "heuristic"]
    for c in heur:
        a = c.args[0] if c.args else None
        if a is None:
            continue
        if isinstance(a, ast.Name):
            # a local holding the weight: look through one plain definition
            d0 = [s0 for s0 in flow.stmts_of(root, ast.Assign) if dotted(s0.targets[0]) == a.id]
            if len(d0) == 1 and isinstance(d0[0].value, ast.Call) and call_name(d0[0].value) in ("identity", "eye"):
                a = d0[0].value
        if isinstance(a, ast.Call) and call_name(a) in ("identity", "eye"):
            ok = src(a.args[0]) == "Point.counter"
            ctx.ob("R-HEURCALL", "PEP.%s::trace weight" % root.name, ok, "the trace heuristic minimises <I, G>" if ok else "the trace heuristic uses `%s`" % src(a), loc(root, c))
        elif isinstance(a, ast.Name):
            d = [s0 for s0 in flow.stmts_of(root, ast.Assign) if dotted(s0.targets[0]) == a.id]
            okw = False
            if len(d) == 1 and isinstance(d[0].value, ast.Call) and call_name(d[0].value) == "inv" and d[0].value.args:
                inner = d[0].value.args[0]
                if isinstance(inner, ast.BinOp) and isinstance(inner.op, ast.Add):
                    parts = [inner.left, inner.right]
                    mat = [x for x in parts if isinstance(x, ast.Name)]
                    regterm = [x for x in parts if isinstance(x, ast.BinOp) and isinstance(x.op, ast.Mult)]
                    okw = len(mat) == 1 and len(regterm) == 1 and len(reg) == 1 and any(dotted(y) == reg[0] for y in (regterm[0].left, regterm[0].right)) \
                        and any(isinstance(y, ast.Call) and call_name(y) in ("eye", "identity") and src(y.args[0]) == "Point.counter" for y in (regterm[0].left, regterm[0].right))
            ctx.ob("R-HEURCALL", "PEP.%s::logdet weight" % root.name, okw,
                   "the logdet heuristic minimises <(G + regularisation I)^-1, G>" if okw else "the logdet weight is `%s`" % (src(d[0].value) if d else a.id), loc(root, c))
        else:
            ctx.ob("R-HEURCALL", "PEP.%s::heuristic weight %s" % (root.name, anon_src_(a)), False, "the heuristic weight `%s` is neither the identity nor the regularised inverse" % src(a), loc(root, c))


def anon_src_(a):
    from ..model import anon_src
    return anon_src(a)


def r_declare(ctx):
    """Every declaration method stores what it is given exactly once on every completing path (declaration side of 'exactly as often as declared')."""
    repo = ctx.repo
    conts = containers(repo)
    n = 0
    for (cname, attr), kind in sorted(conts.items()):
        if "class" in attr:
            continue           # class lists are filled by the generators / hooks (R-ALIGN, R-FORMULA)
        c = repo.cls(cname)
        for fn in c.methods.values():
            apps = [x for x in ast.walk(fn) if isinstance(x, ast.Call) and call_name(x) == "append" and dotted(x.func.value) == "self." + attr]
            if not apps or fn.name.startswith("_") or fn.name == "add_partition_constraints":
                continue
            n += 1
            pc = flow.path_counts(fn.body, lambda nd: isinstance(nd, ast.Call) and call_name(nd) == "append" and dotted(nd.func.value) == "self." + attr)
            normal = pc.get("next", set()) | pc.get("return", set())
            ok = normal == {1}
            rebinds = [s0 for s0 in flow.stmts_of(fn, ast.Assign) if any(dotted(t) == "self." + attr for t in s0.targets)]
            if rebinds:
                ok = False
            ctx.ob("R-DECLARE", "%s.%s::stores into %s" % (cname, fn.name, attr), ok,
                   "what is declared is stored exactly once on every path" if ok else
                   ("the declaration method rebinds `self.%s`" % attr if rebinds else
                    "a declared %s is stored %s times depending on the path: it can be silently dropped (or duplicated)" % (kind, sorted(normal))), loc(fn, fn))
    # what a public declaration method stored stays stored: outside the constructor nothing empties, rebinds or removes from such a container
    for (cname, attr), kind in sorted(conts.items()):
        if "class" in attr:
            continue
        c = repo.cls(cname)
        public_feeders = [fn.name for fn in c.methods.values() if not fn.name.startswith("_") and fn.name != "add_partition_constraints"
                          and any(isinstance(x, ast.Call) and call_name(x) == "append" and dotted(x.func.value) == "self." + attr for x in ast.walk(fn))]
        if not public_feeders:
            continue
        drops = []
        for fn in c.methods.values():
            if fn.name == "__init__":
                continue
            for nd in ast.walk(fn):
                tgt = None
                if isinstance(nd, (ast.Assign, ast.AnnAssign)):
                    for t in (nd.targets if isinstance(nd, ast.Assign) else [nd.target]):
                        base = t.value if isinstance(t, ast.Subscript) else t
                        if dotted(base) == "self." + attr:
                            tgt = nd
                elif isinstance(nd, ast.Delete):
                    for t in nd.targets:
                        base = t.value if isinstance(t, ast.Subscript) else t
                        if dotted(base) == "self." + attr:
                            tgt = nd
                elif isinstance(nd, ast.Call) and isinstance(nd.func, ast.Attribute) and nd.func.attr in ("clear", "pop", "remove") and dotted(nd.func.value) == "self." + attr:
                    tgt = nd
                if tgt is not None:
                    drops.append((fn, tgt))
        n += 1
        ctx.ob("R-DECLARE", "%s.%s::declared objects stay declared" % (cname, attr), not drops,
               "outside the constructor nothing empties or rebinds the container fed by %s" % ", ".join(sorted(public_feeders)) if not drops else
               "`%s` in %s.%s drops what the public method %s stored: a declared %s never reaches the solver" % (
                   norm_stmt(common.stmt_of(drops[0][1]))[:60], cname, drops[0][0].name, sorted(public_feeders)[0], kind),
               loc(drops[0][0], drops[0][1]) if drops else c.module.rel)
    # public set_* / add_* methods of the same classes that store nothing themselves must hand what they are given to exactly one declaration method
    direct = {}
    for (cname, attr), kind in conts.items():
        if "class" in attr:
            continue
        for fn in repo.cls(cname).methods.values():
            if any(isinstance(x, ast.Call) and call_name(x) == "append" and dotted(x.func.value) == "self." + attr for x in ast.walk(fn)):
                direct.setdefault(cname, set()).add(fn.name)
    for cname in sorted(direct):
        c = repo.cls(cname)
        for fn in c.methods.values():
            if fn.name in direct[cname] or fn.name in DECLARE_NOT_MODEL or not (fn.name.startswith("set_") or fn.name.startswith("add_")):
                continue
            n += 1
            is_deleg = lambda nd: isinstance(nd, ast.Call) and isinstance(nd.func, ast.Attribute) and dotted(nd.func.value) == "self" and nd.func.attr in direct[cname]
            pc = flow.path_counts(fn.body, is_deleg)
            normal = pc.get("next", set()) | pc.get("return", set())
            ok = normal == {1}
            passed = True
            if ok:
                call = [nd for nd in ast.walk(fn) if is_deleg(nd)][0]
                given = [a for a in call.args] + [k.value for k in call.keywords]
                passed = any(isinstance(a, ast.Name) and a.id in params_of(fn)[1:] for a in given)
            ctx.ob("R-DECLARE", "%s.%s::hands over to a declaration method" % (cname, fn.name), ok and passed,
                   "what is declared is handed to exactly one storing method on every path" if ok and passed else
                   ("the storing method is called %s times depending on the path: the declared object never reaches the model (or reaches it twice)" % sorted(normal)
                    if not ok else "the storing method does not receive the declared object"), loc(fn, fn))
    ctx.count("declaration methods", n)
    return n


DECLARE_NOT_MODEL = {
    "set_name": "names an object, declares nothing",
    "add_class_constraints": "class-constraint hook (R-FORMULA / R-REGEN)", "set_class_constraints": "regeneration of class constraints (R-REGEN)",
    "add_constraints_from_one_list_of_points": "generator (R-ALIGN)", "add_constraints_from_two_lists_of_points": "generator (R-ALIGN)",
    "add_partition_constraints": "orthogonality generator (R-ORTHO)", "add_point": "oracle registration (R-ADDPOINT)",
    "set_initial_point": "creates and returns a new leaf (R-NEWOBJ)",
}


# ---------------------------------------------------------------------------------------------------
# R-REGISTRY: the registries the solve root walks are only filled by constructors and emptied by the reset
# ---------------------------------------------------------------------------------------------------
def r_registry(ctx):
    """Function.list_of_functions, BlockPartition.list_of_partitions and the two leaf registries are how declared objects (a composite, the adjoint
    of a linear operator, a partition built directly) reach the solver and get their values.  Each is written in exactly two ways: `append(self)` in
    the constructor of its class, and a rebinding to an empty list in the reset routine.  Anything else (remove, pop, del, slice assignment,
    rebinding elsewhere) makes a declared object invisible to the solve root."""
    from ..model import ClassInfo
    repo = ctx.repo
    n = 0
    bad = []
    for fn in repo.all_functions():
        for node in ast.walk(fn):
            tgt = None
            what = None
            if isinstance(node, ast.Call) and isinstance(node.func, ast.Attribute) and isinstance(node.func.value, ast.Attribute) \
                    and isinstance(node.func.value.value, ast.Name) and node.func.value.attr.startswith("list_of"):
                tgt, what = node.func.value, node.func.attr
            elif isinstance(node, (ast.Assign, ast.AugAssign, ast.Delete)):
                tl = node.targets if isinstance(node, (ast.Assign, ast.Delete)) else [node.target]
                for t in tl:
                    base = t.value if isinstance(t, ast.Subscript) else t
                    if isinstance(base, ast.Attribute) and isinstance(base.value, ast.Name) and base.attr.startswith("list_of"):
                        tgt, what = base, ("del" if isinstance(node, ast.Delete) else ("item/slice store" if isinstance(t, ast.Subscript) else "rebind"))
            if tgt is None:
                continue
            owner = repo.resolve_name(fn._module, tgt.value.id)
            if not isinstance(owner, ClassInfo) or tgt.attr not in owner.class_attrs:
                continue
            if what in ("index", "count", "copy"):
                continue
            n += 1
            cls = getattr(fn, "_cls", None)
            ok = False
            if what == "append" and fn.name == "__init__" and cls is owner and len(node.args) == 1 and dotted(node.args[0]) == "self":
                ok = True
            elif what == "rebind" and isinstance(node, ast.Assign) and _empty_list(node.value) and cls is not None and cls.name == "PEP":
                ok = True
            if not ok:
                bad.append((fn, node, "%s.%s" % (owner.name, tgt.attr), what))
    for fn, node, reg, what in bad:
        ctx.ob("R-REGISTRY", "%s::%s %s" % (qualname(fn), what, reg), False,
               "`%s` edits the registry %s outside its constructor / the reset: objects taken out of it (or never put in) are skipped by the solve root -- "
               "their constraints are not sent, their values not assigned" % (norm_stmt(common.stmt_of(node))[:70], reg), loc(fn, node))
    ctx.ob("R-REGISTRY", "class-level registries", not bad, "registries are only appended to by constructors and emptied by the reset (%d writes)" % n if not bad else
           "%d write(s) reported above" % len(bad), "PEPit/")
    ctx.count("registry writes", n)
    return n


def _empty_list(v):
    return (isinstance(v, ast.List) and not v.elts) or (isinstance(v, ast.Call) and isinstance(v.func, ast.Name) and v.func.id == "list" and not v.args)
