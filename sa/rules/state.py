"""State rules: R-RESET, R-VERBOSE, R-DETERM (C12) and R-FRESH, R-ACCUM, R-MEMO (C13; R-ACCUM also C05)."""
import ast
from ..model import (AnalysisError, ClassInfo, src, loc, call_name, dotted, qualname, norm_stmt, params_of, is_const, get_arg, iter_base)
from .. import flow, effects
from . import common


# ---------------------------------------------------------------------------------------------------
# R-RESET
# ---------------------------------------------------------------------------------------------------
def _is_mutable_container(v):
    if isinstance(v, (ast.List, ast.Dict, ast.Set)):
        return True
    if isinstance(v, ast.Call) and isinstance(v.func, ast.Name) and v.func.id in ("list", "dict", "set", "defaultdict", "OrderedDict"):
        return True
    return False


def _same_initial(a, b):
    def canon(v):
        if isinstance(v, ast.Call) and isinstance(v.func, ast.Name) and not v.args and not v.keywords:
            return {"list": "[]", "dict": "{}", "set": "set()"}.get(v.func.id, src(v))
        return src(v)
    return canon(a) == canon(b)


def class_state_cells(repo):
    """(class, attr) -> initial value node, for class-level attributes that some code writes through the class,
    plus every class-body mutable container."""
    cells = {}
    for c in repo.all_classes():
        for a, v in c.class_attrs.items():
            if _is_mutable_container(v):
                cells[(c.name, a)] = (c, v, "container")
    for fn in repo.all_functions():
        for w in effects.writes_of(repo, fn):
            if w.root.startswith("class:"):
                cname = w.root.split(":", 1)[1]
                parts = w.path.split(".")
                if len(parts) >= 2 and parts[0] == cname:
                    attr = parts[1]
                    try:
                        c = repo.cls(cname)
                    except AnalysisError:
                        continue
                    if attr in c.class_attrs and (cname, attr) not in cells:
                        cells[(cname, attr)] = (c, c.class_attrs[attr], "written")
    # an iterator kept in a class body (`_ids = itertools.count()`) is advanced, i.e. written, by `next(Cls._ids)` / `next(self._ids)`
    for fn in repo.all_functions():
        for n in ast.walk(fn):
            if isinstance(n, ast.Call) and isinstance(n.func, ast.Name) and n.func.id == "next" and n.args and isinstance(n.args[0], ast.Attribute) \
                    and isinstance(n.args[0].value, ast.Name):
                base, attr = n.args[0].value.id, n.args[0].attr
                r = repo.resolve_name(fn._module, base)
                c = r if isinstance(r, ClassInfo) else (getattr(fn, "_cls", None) if base in ("self", "cls") else None)
                if c is None:
                    continue
                owner = next((k for k in c.mro() if attr in k.class_attrs), None)
                if owner is not None and isinstance(owner.class_attrs[attr], ast.Call) and (owner.name, attr) not in cells:
                    cells[(owner.name, attr)] = (owner, owner.class_attrs[attr], "written")
    return cells


def r_reset(ctx):
    repo = ctx.repo
    pep = common.pep_class(repo)
    init = pep.methods.get("__init__")
    if init is None:
        raise AnalysisError("PEP.__init__ not found")
    # the reset routine = the method called by the first statement of PEP.__init__
    first = init.body[0] if init.body else None
    reset_fn = None
    if isinstance(first, ast.Expr) and isinstance(first.value, ast.Call) and isinstance(first.value.func, ast.Attribute) \
            and dotted(first.value.func.value) in ("self", "PEP"):
        reset_fn = pep.find_method(first.value.func.attr)
    cells = class_state_cells(repo)
    ctx.count("class-level state cells", len(cells))
    ctx.unit("PEP.__init__")
    if reset_fn is None:
        # look for a reset routine anywhere in __init__ to give a precise report
        cand = None
        for st in init.body:
            if isinstance(st, ast.Expr) and isinstance(st.value, ast.Call) and isinstance(st.value.func, ast.Attribute) \
                    and dotted(st.value.func.value) in ("self", "PEP"):
                f = pep.find_method(st.value.func.attr)
                if f is not None and any(w.root.startswith("class:") for w in effects.writes_of(repo, f)):
                    cand = (st, f)
                    break
        ctx.ob("R-RESET", "PEP.__init__::reset-first", False,
               "the first statement of PEP.__init__ is `%s`, not the call of the class-state reset routine%s: objects created before the "
               "reset are numbered by the previous model" % (norm_stmt(first)[:80] if first is not None else "<empty>",
                                                             " (found later at line %d)" % cand[0].lineno if cand else ""), loc(init, init))
        if cand is None:
            return len(cells)
        reset_fn = cand[1]
    else:
        ctx.ob("R-RESET", "PEP.__init__::reset-first", True, "PEP.__init__ starts by calling %s" % reset_fn.name, loc(init, first))
    ctx.unit(qualname(reset_fn))
    # who may call it: the constructor of the problem object, first thing -- a reset at any other moment (a finaliser, a solve, an accessor) wipes
    # the registries and counters of the model that is being written at that moment
    others = []
    for f0 in repo.all_functions():
        for c0 in ast.walk(f0):
            if isinstance(c0, ast.Call) and call_name(c0) == reset_fn.name and not (f0 is init and common.stmt_of(c0) is first):
                others.append((f0, c0))
            elif isinstance(c0, ast.Attribute) and c0.attr == reset_fn.name and isinstance(c0.ctx, ast.Load) and not isinstance(getattr(c0, "_parent", None), ast.Call) \
                    and f0 is not reset_fn:
                others.append((f0, c0))          # handed over as a callback (atexit, weakref.finalize, ...)
    ctx.ob("R-RESET", "PEP.%s::called by the constructor only" % reset_fn.name, not others,
           "the only call site is the first statement of PEP.__init__" if not others else
           "%s also calls / registers the reset routine: class-level registries and counters are wiped at a moment that depends on the history of the "
           "process (object finalisation, an earlier model's life time), while another model may be under construction" % qualname(others[0][0]),
           loc(others[0][0], others[0][1]) if others else loc(reset_fn, reset_fn))
    # the reset routine is straight-line: no early exit, no condition
    pc = flow.path_counts(reset_fn.body, lambda n: False)
    def literal_loop(x):
        return isinstance(x, ast.For) and isinstance(x.iter, (ast.Tuple, ast.List)) and all(isinstance(e, ast.Name) for e in x.iter.elts) and not x.orelse
    jumps = [x for x in flow.stmts_of(reset_fn) if isinstance(x, (ast.Return, ast.Raise, ast.If, ast.While, ast.Try)) or (isinstance(x, ast.For) and not literal_loop(x))]
    ctx.ob("R-RESET", "PEP.%s::unconditional" % reset_fn.name, not jumps and set(pc) == {"next"},
           "every re-initialisation is executed on every call" if not jumps else
           "the reset routine contains `%s` (line %d): on some path class-level state survives from earlier models"
           % (norm_stmt(jumps[0])[:60], jumps[0].lineno), loc(reset_fn, jumps[0] if jumps else reset_fn))
    # what the reset routine assigns, on every path (top-level, unconditional statements)
    resets = {}

    def note(st, binding=None):
        if isinstance(st, ast.Assign) and len(st.targets) == 1 and isinstance(st.targets[0], ast.Attribute):
            d = dotted(st.targets[0])
            if d and d.count(".") == 1:
                cname, attr = d.split(".")
                names = binding.get(cname, [cname]) if binding else [cname]
                for nm in names:
                    r = repo.resolve_name(reset_fn._module, nm)
                    if isinstance(r, ClassInfo):
                        resets[(r.name, attr)] = st
    for st in reset_fn.body:
        if literal_loop(st) and isinstance(st.target, ast.Name):
            for inner in st.body:
                note(inner, {st.target.id: [e.id for e in st.iter.elts]})
        else:
            note(st)
    for (cname, attr), (c, v0, why) in sorted(cells.items()):
        key = "%s.%s" % (cname, attr)
        st = resets.get((cname, attr))
        if st is None:
            # a class-body container rebound per instance in the class's own __init__ is not shared state
            ini = c.methods.get("__init__")
            rebound = ini is not None and any(isinstance(s, ast.Assign) and any(dotted(t) == "self." + attr for t in s.targets)
                                              for s in ini.body)
            if why == "container" and rebound and not _written_through_class(ctx.repo, cname, attr):
                ctx.ob("R-RESET", key, True, "class-body container shadowed by an instance attribute in __init__", loc(c.module, c.node))
                continue
            ctx.ob("R-RESET", key, False,
                   "class-level state `%s` (initial value `%s`) is not re-initialised by %s: a new PEP inherits it from earlier models"
                   % (key, src(v0), reset_fn.name), loc(c.module, c.node))
        else:
            ok = _same_initial(st.value, v0)
            ctx.ob("R-RESET", key, ok, "reset to its class-body value `%s`" % src(v0) if ok else
                   "reset to `%s` but the class body starts it at `%s`" % (src(st.value), src(v0)), loc(reset_fn, st))
        ctx.sample({"rule": "R-RESET", "cell": key, "initial": src(v0)})
    # module-level objects and containers are never written
    n_glob = 0
    for m in repo.modules.values():
        for name, v in m.globals.items():
            if name.startswith("__"):
                continue
            if isinstance(v, ast.Call) or _is_mutable_container(v):
                n_glob += 1
                writers = []
                for fn in repo.all_functions():
                    for w in effects.writes_of(repo, fn):
                        if w.root == "global:" + name and fn._module.imports.get(name, (m.modname,))[0] in (m.modname, "PEPit", m.modname.rsplit(".", 1)[0]):
                            writers.append("%s:%d" % (qualname(fn), w.node.lineno))
                    for g in ast.walk(fn):
                        if isinstance(g, ast.Global) and name in g.names and fn._module is m:
                            writers.append("%s: global %s" % (qualname(fn), name))
                        elif isinstance(g, ast.Call) and isinstance(g.func, ast.Name) and g.func.id == "next" and g.args and isinstance(g.args[0], ast.Name) \
                                and g.args[0].id == name and name not in params_of(fn) \
                                and fn._module.imports.get(name, (m.modname,))[0] in (m.modname, "PEPit", m.modname.rsplit(".", 1)[0]) \
                                and (fn._module is m or name in fn._module.imports):
                            writers.append("%s:%d (advanced by next())" % (qualname(fn), g.lineno))
                ctx.ob("R-RESET", "%s::%s" % (m.rel, name), not writers,
                       "module-level object is never written" if not writers else "module-level object written by %s" % writers, m.rel)
    ctx.count("module-level objects", n_glob)
    return len(cells)


# ---------------------------------------------------------------------------------------------------
# R-RESET, continued: state that survives the construction of a new PEP without being a class attribute or a module-level object --
# the table of a memoising decorator and a default argument evaluated once
# ---------------------------------------------------------------------------------------------------
MEMO_DECORATORS = {"lru_cache", "cache", "cached_property"}


def _memo_name(node, module=None):
    """`lru_cache`, `functools.lru_cache`, `lru_cache(maxsize=None)`, `functools.cache` ... -> the name of the memoising decorator, else None."""
    f = node.func if isinstance(node, ast.Call) and not (node.args and isinstance(node.func, (ast.Name, ast.Attribute))
                                                          and ((dotted(node.func) or "").split(".")[-1] in MEMO_DECORATORS
                                                               or (module is not None and isinstance(node.func, ast.Name)
                                                                   and (module.imports.get(node.func.id) or (None, None))[1] in MEMO_DECORATORS))
                                                          and isinstance(node.args[0], (ast.Name, ast.Attribute, ast.Lambda))) else node
    if isinstance(f, ast.Call):          # lru_cache(maxsize=None)(g)
        f = f.func
    d = dotted(f) or ""
    if not d and isinstance(f, ast.Attribute):
        d = "<expr>." + f.attr
    if isinstance(f, ast.Name) and module is not None and f.id in module.imports and module.imports[f.id][1]:
        d = "%s.%s" % module.imports[f.id]          # `from functools import lru_cache as memo`
    return d if d.split(".")[-1] in MEMO_DECORATORS else None


def _attrs_written_after_construction(repo):
    out = set()
    for fn in repo.all_functions():
        if fn.name == "__init__":
            continue
        for w in effects.writes_of(repo, fn):
            if w.root.startswith("class:") or w.root.startswith("global:"):
                continue
            last = w.path.rsplit(".", 1)[-1] if "." in w.path else None
            if last and last.isidentifier():
                out.add(last)
    return out


def r_process_memo(ctx, rule="R-RESET", memo_only=False):
    """A table kept by functools.lru_cache / functools.cache lives as long as the process and is not touched by the reset routine: the memoised function
    must be a function of its arguments taken as values.  A mutable default argument is created once per process: it must not be written or handed out."""
    repo = ctx.repo
    cells = class_state_cells(repo)
    memo = []       # (function node or None, where node, module, decorator name)
    n_fn = 0
    nested = []
    for fn in repo.all_functions():
        n_fn += 1
        nested.append(fn)
        for n in ast.walk(fn):
            if isinstance(n, ast.FunctionDef) and n is not fn:
                if not hasattr(n, "_module"):
                    n._module, n._cls = fn._module, getattr(fn, "_cls", None)
                nested.append(n)
    for fn in nested:
        for d in fn.decorator_list:
            nm = _memo_name(d, fn._module)
            if nm:
                memo.append((fn, d, fn._module, nm))
    for m in repo.modules.values():
        for n in ast.walk(m.tree):
            if isinstance(n, ast.Call) and not isinstance(getattr(n, "_parent", None), ast.FunctionDef):
                nm = _memo_name(n, m)
                if nm and n.args and not any(n is d for f, d, _, _ in memo):
                    inner = n if not isinstance(n.func, ast.Call) else n
                    target = n.args[0]
                    g = None
                    if isinstance(target, ast.Name):
                        g = m.functions.get(target.id)
                        if g is None:
                            r = repo.resolve_name(m, target.id)
                            g = r if isinstance(r, ast.FunctionDef) else None
                    elif isinstance(target, ast.Lambda):
                        g = target
                        g._module, g._cls = m, None
                    if isinstance(getattr(n, "_parent", None), ast.Call) and getattr(n._parent, "func", None) is n:
                        continue        # the outer call of lru_cache(...)(g) is handled through its inner node
                    memo.append((g, n, m, nm))
    attrs_written = _attrs_written_after_construction(repo) if memo else set()
    for g, where, m, nm in memo:
        line = getattr(where, "lineno", 0)
        key = "%s::%s" % (m.rel, getattr(g, "name", "<callable>") if g is not None else "<unresolved callable>")
        if g is None:
            ctx.ob(rule, key + "::memo table", False, "`%s` (line %d) keeps a process-wide table of results of a callable that the analysis cannot "
                   "resolve; PEP's reset routine does not clear it" % (src(where)[:60], line), "%s:%d" % (m.rel, line))
            continue
        bad = []
        fns, _, _ = effects.closure(repo, [g]) if isinstance(g, ast.FunctionDef) else ([g], None, None)
        for f in fns:
            fparams = params_of(f) if isinstance(f, ast.FunctionDef) else [a.arg for a in f.args.args]
            for n in ast.walk(f):
                if isinstance(n, ast.Attribute) and isinstance(n.ctx, ast.Load) and isinstance(n.value, ast.Name):
                    r = repo.resolve_name(f._module, n.value.id) if hasattr(f, "_module") else None
                    if isinstance(r, ClassInfo):
                        owner = next(((c.name, n.attr) for c in r.mro() if (c.name, n.attr) in cells), None)
                        if owner:
                            bad.append((f, n, "reads the class-level state `%s.%s`, which every new PEP resets" % owner))
                    elif f is g and n.value.id in fparams and n.value.id != "self" and n.attr in attrs_written:
                        bad.append((f, n, "is keyed by the identity of `%s` but reads its attribute `%s`, which is written after construction" % (n.value.id, n.attr)))
                    elif f is g and n.value.id == "self" and n.attr in attrs_written:
                        bad.append((f, n, "is keyed by the identity of `self` but reads `self.%s`, which is written after construction" % n.attr))
            if isinstance(f, ast.FunctionDef):
                for w in effects.writes_of(repo, f):
                    if w.root in ("fresh",) or w.root.startswith("unknown"):
                        continue
                    bad.append((f, w.node, "writes `%s` (a call answered from the table skips the write)" % w.path))
        ok = not bad
        ctx.ob(rule, key + "::memo table", ok,
               "memoised by `%s`; a function of its arguments only (reads no resettable state, no attribute written after construction, writes nothing)" % nm if ok else
               "memoised by `%s`: the stored results are cleared neither by PEP's reset routine nor by a new solve, but the function %s [%s line %d]: a later model, "
               "or a later solve, is answered with what an earlier one computed"
               % (nm, bad[0][2], qualname(bad[0][0]) if isinstance(bad[0][0], ast.FunctionDef) else "lambda", getattr(bad[0][1], "lineno", 0)),
               "%s:%d" % (m.rel, line))
    ctx.count("memoising decorators", len(memo))
    if memo_only:
        return
    # attributes of module-level functions used as storage (`helper._cache[key] = value`): a table with the life time of the process
    for fn in nested:
        if not isinstance(fn, ast.FunctionDef):
            continue
        for w in effects.writes_of(repo, fn):
            if w.root.startswith("global:"):
                nm0 = w.root.split(":", 1)[1]
                r = repo.resolve_name(fn._module, nm0)
                if isinstance(r, ast.FunctionDef):
                    ctx.ob("R-RESET", "%s::%s::function attribute" % (fn._module.rel, nm0), False,
                           "`%s` stores into an attribute of the function `%s`: the stored data lives as long as the process and PEP's reset routine does "
                           "not clear it" % (norm_stmt(common.stmt_of(w.node))[:70], nm0), loc(fn, w.node))
    # default arguments evaluated once
    n_def = 0
    for fn in nested:
        a = fn.args
        pos = a.posonlyargs + a.args
        pairs = list(zip(pos[len(pos) - len(a.defaults):], a.defaults)) + [(k, d) for k, d in zip(a.kwonlyargs, a.kw_defaults) if d is not None]
        for arg, dflt in pairs:
            if not (_is_mutable_container(dflt) or (isinstance(dflt, ast.Call) and call_name(dflt) in ("list", "dict", "set", "defaultdict", "OrderedDict", "array", "zeros"))):
                continue
            n_def += 1
            name = arg.arg
            uses = []
            writes = [w for w in effects.writes_of(repo, fn) if w.root in ("param:" + name, "alias:param:" + name)]
            for w in writes:
                uses.append((w.node, "written (`%s`)" % norm_stmt(common.stmt_of(w.node))[:60]))
            for n in ast.walk(fn):
                if isinstance(n, ast.Name) and n.id == name and isinstance(n.ctx, ast.Load):
                    par, child = getattr(n, "_parent", None), n
                    while isinstance(par, (ast.IfExp, ast.BoolOp, ast.NamedExpr)) and not (isinstance(par, ast.IfExp) and par.test is child):
                        par, child = getattr(par, "_parent", None), par          # `x if c else default`, `x or default`: the object itself flows on
                    if isinstance(par, ast.Assign) and par.value is child and any(isinstance(t, (ast.Attribute, ast.Subscript)) for t in par.targets):
                        uses.append((n, "stored on an object (`%s`)" % norm_stmt(par)[:60]))
                    elif isinstance(par, ast.Return):
                        uses.append((n, "returned to the caller"))
                    elif isinstance(par, ast.Call) and isinstance(par.func, ast.Attribute) and par.func.attr in effects.CONTAINER_MUTATORS and child in par.args:
                        uses.append((n, "put into a container (`%s`)" % norm_stmt(common.stmt_of(par))[:60]))
            ctx.ob("R-RESET", "%s::%s::default of `%s`" % (fn._module.rel, qualname(fn), name), not uses,
                   "the default `%s` is only read" % src(dflt) if not uses else
                   "the default `%s` is evaluated once per process and is %s: what one call (one model) leaves in it is seen by the next"
                   % (src(dflt), uses[0][1]), loc(fn, uses[0][0] if uses else fn))
    ctx.count("mutable default arguments", n_def)
    ctx.count("functions scanned for memo tables / defaults", len(nested))


def _written_through_class(repo, cname, attr):
    for fn in repo.all_functions():
        for w in effects.writes_of(repo, fn):
            if w.root == "class:" + cname and w.path.startswith("%s.%s" % (cname, attr)):
                return True
    return False


# ---------------------------------------------------------------------------------------------------
# R-VERBOSE
# ---------------------------------------------------------------------------------------------------
VERBOSE_EXCEPTIONS = {
    # (class.method, normalised statement)  : reason
    ("CvxpyWrapper.solve", "kwargs['verbose'] = True"): "switches cvxpy's own solver logging only",
    ("MosekWrapper.__init__", "self.task.set_Stream(mosek.streamtype.log, self._streamprinter)"): "attaches the MOSEK log printer only",
    ("MosekWrapper.generate_problem", "self.task.solutionsummary(mosek.streamtype.msg)"): "prints the MOSEK solution summary only",
}


def _mentions_verbose(test):
    for n in ast.walk(test):
        if isinstance(n, ast.Name) and n.id == "verbose":
            return True
        if isinstance(n, ast.Attribute) and n.attr == "verbose":
            return True
    return False


def r_verbose(ctx):
    n = 0
    for fn in ctx.repo.all_functions():
        guards = [s for s in flow.stmts_of(fn, ast.If) if _mentions_verbose(s.test)]
        if not guards:
            continue
        ctx.unit(qualname(fn))
        guarded_ids = set()
        for g in guards:
            for s in flow.stmts_of_block(g):
                guarded_ids.add(id(s))
        for g in guards:
            if id(g) in guarded_ids:
                continue          # nested guard, covered by its outermost one
            n += 1 + sum(1 for s in flow.stmts_of_block(g) if isinstance(s, ast.If) and _mentions_verbose(s.test))
            bad = []
            for s in flow.stmts_of_block(g):
                why = _non_output(ctx.repo, fn, s, guarded_ids)
                if why:
                    key = (qualname(fn), " ".join(src(s).split()))
                    if key in VERBOSE_EXCEPTIONS:
                        ctx.notes.append("R-VERBOSE exception %s: %s" % (key, VERBOSE_EXCEPTIONS[key]))
                        continue
                    bad.append("line %d `%s`: %s" % (s.lineno, norm_stmt(s)[:70], why))
            ctx.ob("R-VERBOSE", "%s::%s::if %s" % (fn._module.rel, qualname(fn), " ".join(src(g.test).split())[:60] + "@" + _ordinal(fn, g, guards)),
                   not bad, "encloses output only" if not bad else "behaviour depends on verbosity: " + "; ".join(bad), loc(fn, g))
    ctx.count("verbosity guards", n)
    return n


def _ordinal(fn, g, guards):
    same = [x for x in guards if src(x.test) == src(g.test)]
    return str(1 + [i for i, x in enumerate(same) if x is g][0])


def _non_output(repo, fn, s, guarded_ids):
    """Reason why statement s (inside a verbosity guard) is more than output, or None."""
    if isinstance(s, (ast.If, ast.Pass)):
        return None
    if isinstance(s, ast.Expr) and isinstance(s.value, ast.Call):
        c = s.value
        nm = call_name(c)
        d = dotted(c.func) or ""
        if nm == "print" or d in ("sys.stdout.write", "sys.stdout.flush", "warnings.warn"):
            return _impure_args(c)
        if _local_pure_function(c):
            return _impure_args(c)          # a helper nested in the function that only formats and prints
        return "calls %s" % (d or nm)
    if isinstance(s, ast.Expr) and isinstance(s.value, ast.Constant):
        return None
    if isinstance(s, (ast.Assign, ast.AugAssign)):
        targets = s.targets if isinstance(s, ast.Assign) else [s.target]
        for t in targets:
            if not isinstance(t, ast.Name):
                return "writes %s" % src(t)
            # a local used only for output: never read outside verbosity guards
            for n in ast.walk(fn):
                if isinstance(n, ast.Name) and n.id == t.id and isinstance(n.ctx, ast.Load):
                    st = n
                    while not isinstance(st, ast.stmt):
                        st = st._parent
                    if id(st) not in guarded_ids and not _killed_before(fn, t.id, s, st, guarded_ids):
                        return "assigns `%s`, which is read outside the guard (line %d)" % (t.id, n.lineno)
        return _impure_args(s.value)
    if isinstance(s, (ast.Return, ast.Raise, ast.Break, ast.Continue)):
        return "changes control flow (%s)" % type(s).__name__.lower()
    if isinstance(s, (ast.For, ast.While, ast.With, ast.Try)):
        return None   # their bodies are inspected statement by statement
    return "statement kind %s" % type(s).__name__


def _killed_before(fn, name, guarded_def, reader, guarded_ids):
    """An unguarded plain assignment of `name` after the guarded definition dominates the reader: the guarded value cannot reach it."""
    for a in flow.stmts_of(fn, ast.Assign):
        if id(a) in guarded_ids or a.lineno <= guarded_def.lineno:
            continue
        if any(isinstance(t, ast.Name) and t.id == name for t in a.targets) and (a is reader or flow.dominates(a, reader)):
            if a is reader and any(isinstance(n, ast.Name) and n.id == name for n in ast.walk(a.value)):
                continue
            return True
    return False


PURE_CALLS = {"format", "len", "str", "int", "float", "abs", "min", "max", "round", "repr", "get_nb_blocks", "get_name", "join", "sum"}


def _local_pure_function(call):
    """the callee is a function nested in the enclosing function whose body only builds and returns a value (no store outside its locals, no call
    outside the pure ones): calling it under a verbosity guard changes nothing but what is printed"""
    if not isinstance(call.func, ast.Name):
        return False
    n0 = call
    encl = None
    for _ in range(60):
        n0 = getattr(n0, "_parent", None)
        if n0 is None:
            break
        if isinstance(n0, ast.FunctionDef):
            encl = n0
            break
    if encl is None:
        return False
    defs = [d0 for d0 in ast.walk(encl) if isinstance(d0, ast.FunctionDef) and d0 is not encl and d0.name == call.func.id]
    if len(defs) != 1:
        return False
    d0 = defs[0]
    for x in ast.walk(d0):
        if isinstance(x, (ast.Global, ast.Nonlocal, ast.Delete, ast.AugAssign)) and not (isinstance(x, ast.AugAssign) and isinstance(x.target, ast.Name)):
            return False
        if isinstance(x, ast.Assign) and not all(isinstance(t0, ast.Name) for t0 in x.targets):
            return False
        if isinstance(x, ast.Call) and call_name(x) not in PURE_CALLS and not (dotted(x.func) or "").startswith("np.") \
                and not (isinstance(x.func, ast.Name) and x.func.id == "print"):          # a local helper that prints is what a verbosity guard is for
            return False
    return True


def _impure_args(expr):
    for c in ast.walk(expr):
        if isinstance(c, ast.Call) and c is not expr:
            nm = call_name(c)
            if nm not in PURE_CALLS and not (dotted(c.func) or "").startswith("np.") and not _local_pure_function(c):
                return "evaluates the call %s() only when verbose" % nm
    return None


# ---------------------------------------------------------------------------------------------------
# R-DETERM
# ---------------------------------------------------------------------------------------------------
def _set_valued(e, fn, depth=0):
    """set displays / comprehensions, set(...) / frozenset(...), set algebra on dictionary views or sets (`d1.keys() & d2.keys()`,
    `d2.keys() - d1.keys()`), set methods (union, intersection, difference, ...), and locals bound once to one of these"""
    if isinstance(e, (ast.Set, ast.SetComp)):
        return True
    if isinstance(e, ast.Call) and isinstance(e.func, ast.Name) and e.func.id in ("set", "frozenset"):
        return True
    if isinstance(e, ast.Call) and isinstance(e.func, ast.Attribute) and e.func.attr in ("union", "intersection", "difference", "symmetric_difference"):
        return True
    if isinstance(e, ast.BinOp) and isinstance(e.op, (ast.BitAnd, ast.BitOr, ast.BitXor, ast.Sub)):
        def viewish(x):
            return (isinstance(x, ast.Call) and isinstance(x.func, ast.Attribute) and x.func.attr in ("keys", "items")) or _set_valued(x, fn, depth + 1)
        if viewish(e.left) or viewish(e.right):
            return isinstance(e.op, (ast.BitAnd, ast.BitOr, ast.BitXor)) or (viewish(e.left) and isinstance(e.op, ast.Sub))
    if isinstance(e, ast.Name) and depth < 3:
        d0 = flow._single_def(fn, e.id)
        if d0 is not None:
            return _set_valued(d0, fn, depth + 1)
    if isinstance(e, ast.Call) and isinstance(e.func, ast.Name) and e.func.id in ("list", "tuple", "enumerate", "reversed", "iter") and e.args:
        return _set_valued(e.args[0], fn, depth + 1)          # list(set(...)) keeps the set's order
    return False


def r_determ(ctx):
    bad = []
    n = 0
    for fn in ctx.repo.all_functions():
        n += 1
        for node in ast.walk(fn):
            if isinstance(node, ast.Call):
                d = dotted(node.func) or ""
                if d in ("id", "hash") or d.split(".")[0] in ("random", "time", "datetime", "uuid", "secrets") \
                        or d.startswith("np.random") or d in ("os.getpid", "os.urandom", "os.environ.get"):
                    bad.append((fn, node, "calls %s" % d))
            if isinstance(node, (ast.For, ast.comprehension)):
                it = node.iter
                if _set_valued(it, fn):
                    bad.append((fn, node if isinstance(node, ast.For) else it, "iterates over a set (%s): the order follows hash values, i.e. memory addresses" % src(it)[:50]))
    keyed = {}
    for fn, node, why in bad:
        keyed.setdefault("%s::%s" % (fn._module.rel, qualname(fn)), []).append((node, why, fn))
    for k, lst in keyed.items():
        ctx.ob("R-DETERM", k, False, "; ".join("line %d %s" % (nd.lineno, w) for nd, w, _ in lst), loc(lst[0][2], lst[0][0]))
    ctx.ob("R-DETERM", "core package", not bad, ("no identity/hash-based ordering, set iteration, randomness or clock in %d functions" % n) if not bad else
           "%d construct(s) reported above make the solver input depend on hash values / addresses / time" % len(bad), "PEPit/")
    ctx.count("functions scanned", n)


# ---------------------------------------------------------------------------------------------------
# R-FRESH
# ---------------------------------------------------------------------------------------------------
def r_objective_fresh(ctx, first_send=None, rule="R-FRESH"):
    """The objective leaf is a new Expression created by the solve root on every path before anything is sent: it is then the last leaf of the
    numbering when the wrappers read the problem size, and no earlier solve's leaf is reused."""
    repo = ctx.repo
    root = common.solve_root(repo)
    if first_send is None:
        sends = [c for c in ast.walk(root) if isinstance(c, ast.Call) and call_name(c) in ("send_constraint_to_solver", "send_lmi_constraint_to_solver")]
        if not sends:
            raise AnalysisError("solve root sends nothing to the wrapper")
        first_send = common.stmt_of(min(sends, key=lambda c: c.lineno))
    objs = [s for s in flow.stmts_of(root, ast.Assign) if any(dotted(t) == "self.objective" for t in s.targets)]
    ok = any(isinstance(s.value, ast.Call) and call_name(s.value) == "Expression" and flow.dominates(s, first_send) for s in objs) and len(objs) == 1
    from . import solveprog
    solveprog.ob_unless_program(ctx, {"drain", "generate"}, rule, "PEP.%s::fresh objective leaf" % root.name, ok,
                                "a new objective leaf is created at each solve before anything is sent" if ok else
                                "the objective is not a fresh leaf created on every path before the first send", loc(root, objs[0] if objs else first_send))


def r_fresh(ctx):
    repo = ctx.repo
    pep = common.pep_class(repo)
    root = common.solve_root(repo)
    wname = common.wrapper_param(root)
    # 1. the public solve builds a new wrapper on every call
    entry = None
    for f in pep.methods.values():
        if any(isinstance(c, ast.Call) and call_name(c) == root.name for c in ast.walk(f)) and f is not root:
            entry = f
    if entry is None:
        raise AnalysisError("no PEP method calls the solve root %s" % root.name)
    ctx.unit(qualname(entry))
    call = [c for c in ast.walk(entry) if isinstance(c, ast.Call) and call_name(c) == root.name][0]
    warg = get_arg(call, 0, params_of(root)[1])
    ok, msg = False, "wrapper argument of %s not resolved" % root.name
    wtxt = dotted(warg) if warg is not None else None
    if wtxt:
        def is_ctor(v, depth=0):
            if isinstance(v, ast.Call) and isinstance(v.func, ast.Subscript) and dotted(v.func.value) == "WRAPPERS":
                return True
            if isinstance(v, ast.Name) and depth < 3:
                ds = [s0 for s0 in flow.stmts_of(entry, ast.Assign) if dotted(s0.targets[0]) == v.id]
                return bool(ds) and all(is_ctor(d.value, depth + 1) for d in ds)
            return False
        defs = [s0 for s0 in flow.stmts_of(entry, ast.Assign) if any(dotted(t) == wtxt for t in s0.targets)]
        nonctor = [s0 for s0 in defs if not is_ctor(s0.value)]
        # on every path that reaches the call of the solve root, a constructor definition has been executed
        cst = common.stmt_of(call)
        pc = flow.path_counts(entry.body, lambda n: False, lambda st: st in defs and is_ctor(st.value))
        reach = set()
        for kind in ("next", "return"):
            reach |= pc.get(kind, set())
        ok = bool(defs) and not nonctor and bool(reach) and 0 not in reach
        msg = ("a new wrapper is constructed on every call before the solve root runs" if ok else
               "the wrapper handed to the solve root is not constructed on every path of this call (definitions: %s)"
               % [norm_stmt(s0)[:60] for s0 in defs])
    ctx.ob_or_program(("entry",), "R-FRESH", "PEP.%s::new-wrapper-per-solve" % entry.name, ok, msg, loc(entry, call))
    # 2. tracking lists and objective leaf are rebound before the first send
    ctx.unit(qualname(root))
    sends = [c for c in ast.walk(root) if isinstance(c, ast.Call) and call_name(c) in ("send_constraint_to_solver", "send_lmi_constraint_to_solver")]
    if not sends:
        raise AnalysisError("solve root sends nothing to the wrapper")
    first_send = common.stmt_of(min(sends, key=lambda c: c.lineno))
    tracked = tracked_lists(root, repo)
    for attr in sorted(tracked):
        rebinds = [s for s in flow.stmts_of(root, ast.Assign) if any(dotted(t) == "self." + attr for t in s.targets)
                   and _is_mutable_container(s.value) and _empty_container(s.value)]
        ok = any(flow.dominates(s, first_send) and not flow.in_loop(s) for s in rebinds)
        from . import solveprog
        solveprog.ob_unless_program(ctx, {"track"}, "R-FRESH", "PEP.%s::fresh %s" % (root.name, attr), ok,
                                    "rebound to a new empty list before the first send" if ok else
                                    "`self.%s` is not rebound to a fresh empty list on every path before the first send: it keeps the entries of earlier solves" % attr,
                                    loc(root, first_send))
        # the tracking list never becomes another name of a container that outlives the solve
        for s in flow.stmts_of(root, ast.Assign):
            if not any(dotted(t) == "self." + attr for t in s.targets):
                continue
            v = s.value
            if not (isinstance(v, (ast.Attribute, ast.Name, ast.Subscript)) or (isinstance(v, ast.IfExp))):
                continue
            later = []
            for n in ast.walk(root):
                if n.__class__ is ast.Call and call_name(n) in effects.CONTAINER_MUTATORS and isinstance(n.func, ast.Attribute) and dotted(n.func.value) == "self." + attr:
                    later.append(n)
                elif isinstance(n, ast.AugAssign) and dotted(n.target) == "self." + attr:
                    later.append(n)
            later = [n for n in later if n.lineno > s.lineno or flow.in_loop(s) is not None]
            ctx.ob("R-FRESH", "PEP.%s::%s shares no container" % (root.name, attr), not later,
                   "`%s` only reads the other container" % norm_stmt(s)[:70] if not later else
                   "`%s` makes self.%s another name of `%s`, and `%s` then grows that container: what is recorded during a solve stays in the model and is "
                   "sent again by the next solve" % (norm_stmt(s)[:70], attr, src(v), norm_stmt(common.stmt_of(later[0]))[:60]), loc(root, s))
    r_objective_fresh(ctx, first_send=first_send)
    # 2b. the numbering of the leaves belongs to the constructors: the solve root creates its objective leaf but never edits a class-level
    #     counter / registry itself (removing an entry from a registry of objects whose == is overloaded removes another entry)
    direct = [w for w in effects.writes_of(repo, root) if w.root.startswith("class:") or w.root.startswith("global:")]
    for n0 in ast.walk(root):
        if isinstance(n0, ast.Call) and isinstance(n0.func, ast.Attribute) and n0.func.attr in ("remove", "pop", "clear", "insert", "sort", "reverse", "append", "extend") \
                and isinstance(n0.func.value, ast.Attribute) and isinstance(n0.func.value.value, ast.Name) \
                and isinstance(repo.resolve_name(root._module, n0.func.value.value.id), ClassInfo) and not any(w.node is n0 for w in direct):
            direct.append(type("W", (), {"node": n0, "path": dotted(n0.func.value)})())
    ctx.ob("R-FRESH", "PEP.%s::leaf numbering untouched" % root.name, not direct,
           "the solve root edits no class-level counter or registry" if not direct else
           "`%s` edits the class-level state `%s` during a solve: the indices / registry entries of existing leaves change under the objects that hold them"
           % (norm_stmt(common.stmt_of(direct[0].node))[:70], direct[0].path), loc(root, direct[0].node if direct else root))
    # 3. class constraints and partition constraints are regenerated before they are sent
    for meth, what in (("set_class_constraints", "class constraints"), ("add_partition_constraints", "partition constraints")):
        calls = [c for c in ast.walk(root) if isinstance(c, ast.Call) and call_name(c) == meth]
        ok = False
        if calls:
            lp = flow.in_loop(common.stmt_of(calls[0]))
            ok = lp is not None and flow.dominates(lp, first_send)
        from . import solveprog
        solveprog.ob_unless_program(ctx, {"drain"}, "R-FRESH", "PEP.%s::regenerate %s" % (root.name, what), ok,
                                    "%s are regenerated for every owner before the first send" % what if ok else
                                    "%s are not regenerated (call of %s in a loop dominating the sends not found)" % (what, meth), loc(root, first_send))


def _empty_container(v):
    if isinstance(v, (ast.List, ast.Dict, ast.Set)):
        return not (getattr(v, "elts", None) or getattr(v, "keys", None))
    return isinstance(v, ast.Call) and not v.args and not v.keywords


def tracked_lists(root, repo=None):
    """self attributes in which the solve root records what it hands to a send call: those it appends a sent object to, and
    (when a repository is given) those it rebinds / extends and the proof reconstruction iterates."""
    sent = set()
    for c in ast.walk(root):
        if isinstance(c, ast.Call) and call_name(c) in ("send_constraint_to_solver", "send_lmi_constraint_to_solver") and c.args:
            sent.add(src(c.args[-1]))
    out = set()
    for c in ast.walk(root):
        if isinstance(c, ast.Call) and call_name(c) == "append" and isinstance(c.func, ast.Attribute) and len(c.args) == 1:
            d = dotted(c.func.value)
            if d and d.startswith("self.") and d.count(".") == 1 and src(c.args[0]) in sent:
                out.add(d.split(".", 1)[1])
    if repo is not None:
        rec = common.reconstruction_fn(repo)
        iterated = set()
        for n in ast.walk(rec):
            if isinstance(n, (ast.For, ast.comprehension)):
                d = dotted(iter_base(n.iter)[0])
                if d and d.startswith("self.") and d.count(".") == 1:
                    iterated.add(d.split(".", 1)[1])
        for s in ast.walk(root):
            tg = []
            if isinstance(s, ast.Assign):
                tg = s.targets
            elif isinstance(s, ast.AugAssign):
                tg = [s.target]
            elif isinstance(s, ast.Call) and call_name(s) in ("extend", "append") and isinstance(s.func, ast.Attribute):
                tg = [s.func.value]
            for t in tg:
                d = dotted(t)
                if d and d.startswith("self.") and d.count(".") == 1 and d.split(".", 1)[1] in iterated:
                    out.add(d.split(".", 1)[1])
    if len(out) < 2:
        raise AnalysisError("solve root: fewer than two tracking lists found (%s)" % sorted(out))
    return out


# ---------------------------------------------------------------------------------------------------
# R-ACCUM
# ---------------------------------------------------------------------------------------------------
def _negated(t):
    """the test that holds on the other branch"""
    if isinstance(t, ast.UnaryOp) and isinstance(t.op, ast.Not):
        return t.operand
    if isinstance(t, ast.Compare) and len(t.ops) == 1:
        flip = {ast.In: ast.NotIn, ast.NotIn: ast.In, ast.Eq: ast.NotEq, ast.NotEq: ast.Eq, ast.Is: ast.IsNot, ast.IsNot: ast.Is,
                ast.Lt: ast.GtE, ast.GtE: ast.Lt, ast.Gt: ast.LtE, ast.LtE: ast.Gt}.get(type(t.ops[0]))
        if flip is not None:
            n = ast.Compare(left=t.left, ops=[flip()], comparators=t.comparators)
            return ast.copy_location(n, t)
    n = ast.UnaryOp(op=ast.Not(), operand=t)
    return ast.copy_location(n, t)


def _emptiness_guard_attr(test, fn=None):
    """`self.X == list()` / `not self.X` / `len(self.X) == 0` -> 'X';   `p not in self.X.keys()` / `p not in self.X` -> 'X';
    `v is None` with v bound once to `self.X.get(p)` -> 'X' (membership)"""
    t = test
    if fn is not None and isinstance(t, ast.Compare) and len(t.ops) == 1 and isinstance(t.ops[0], ast.Is) and isinstance(t.left, ast.Name) \
            and isinstance(t.comparators[0], ast.Constant) and t.comparators[0].value is None:
        d0 = flow._single_def(fn, t.left.id)
        if d0 is None:
            ds = [s0.value for s0 in flow.stmts_of(fn, ast.Assign) if len(s0.targets) == 1 and dotted(s0.targets[0]) == t.left.id]
            d0 = ds[0] if ds else None
        if isinstance(d0, ast.Call) and call_name(d0) == "get" and isinstance(d0.func, ast.Attribute) and (dotted(d0.func.value) or "").startswith("self."):
            return dotted(d0.func.value).split(".", 1)[1], "membership"
    if isinstance(t, ast.Compare) and len(t.ops) == 1:
        a, b = t.left, t.comparators[0]
        if isinstance(t.ops[0], ast.Eq):
            for u, v in ((a, b), (b, a)):
                d = dotted(u)
                if d and d.startswith("self.") and (_empty_container(v) if _is_mutable_container(v) else False):
                    return d.split(".", 1)[1], "emptiness"
                if isinstance(u, ast.Call) and call_name(u) == "len" and u.args and dotted(u.args[0]) and is_const(v, 0):
                    return dotted(u.args[0]).split(".", 1)[1], "emptiness"
        if isinstance(t.ops[0], ast.NotIn):
            base = b.func.value if isinstance(b, ast.Call) and call_name(b) == "keys" else b
            d = dotted(base)
            if d and d.startswith("self."):
                return d.split(".", 1)[1], "membership"
    if isinstance(t, ast.UnaryOp) and isinstance(t.op, ast.Not):
        d = dotted(t.operand)
        if d and d.startswith("self."):
            return d.split(".", 1)[1], "emptiness"
    return None


def r_accum(ctx, prop_roots=None):
    """Effect closure of the per-solve roots: nothing accumulates from one solve to the next."""
    repo = ctx.repo
    fbase = repo.cls("Function")
    roots = []
    solve = common.solve_root(repo)
    per_solve = []
    first_send = None
    for c in ast.walk(solve):
        if isinstance(c, ast.Call) and call_name(c) in ("send_constraint_to_solver", "send_lmi_constraint_to_solver"):
            if first_send is None or c.lineno < first_send.lineno:
                first_send = c
    for c in ast.walk(solve):
        if isinstance(c, ast.Call) and isinstance(c.func, ast.Attribute) and not (dotted(c.func.value) or "").startswith(("self", "np", common.wrapper_param(solve)))\
                and c.lineno < first_send.lineno:
            targets, note = effects.resolve_call(repo, solve, c)
            for t in targets:
                if t.name in ("get_is_leaf", "format", "append"):
                    continue
                if t not in per_solve and any(w.kind == "accumulate" or w.kind == "rebind" for w in effects.writes_of(repo, t)) or _calls_self(t):
                    if t not in per_solve:
                        per_solve.append(t)
    if not per_solve:
        raise AnalysisError("no per-solve root (regeneration of class / partition constraints) found in the solve root")
    ctx.count("per-solve roots", len(per_solve))
    total_fns = set()
    findings = {}
    oks = {}
    for root in per_solve:
        ctx.unit(qualname(root))
        resets = {}
        for s in root.body:
            if isinstance(s, ast.Assign) and _is_mutable_container(s.value) and _empty_container(s.value):
                for t in s.targets:
                    d = dotted(t)
                    if d and d.startswith("self."):
                        resets[d.split(".", 1)[1]] = s
        visited = set()

        def visit(fn, protected, leaf_arg, depth, trail):
            k = (id(fn), protected, leaf_arg)
            if k in visited or depth > 12:
                return
            visited.add(k)
            total_fns.add(qualname(fn))
            own_cls = getattr(fn, "_cls", None)
            for w in effects.writes_of(repo, fn):
                if w.kind not in ("accumulate",):
                    continue
                # constant-argument refinement: writes under `if is_leaf:` are dead when the call passes is_leaf=False
                conds = flow.conditions_guarding(common.stmt_of(w.node))
                if leaf_arg is False and any(isinstance(t, ast.Name) and t.id == "is_leaf" and br for t, br, _ in conds):
                    continue
                if w.root == "fresh" or w.root.startswith("unknown"):
                    continue
                attr = w.path.split(".", 1)[1] if "." in w.path else w.path
                attr = attr.split("[")[0].split(".")[0]
                key = "%s::%s" % (qualname(fn), w.path)
                reason = None
                if w.root.startswith("class:") and fn.name == "__init__" and isinstance(w.node, ast.AugAssign):
                    reason = "identifier counter of a constructor"
                elif protected:
                    reason = "only reached under an idempotence guard (%s)" % protected
                elif attr in resets and w.root in ("self", "alias:self") and _reset_dominates(root, resets[attr], trail):
                    reason = "reset to an empty container by %s before the accumulation" % root.name
                elif _keyed_before(fn, w):
                    reason = "the accumulated entry is rebound (keyed store) earlier in the same function"
                else:
                    g = [_emptiness_guard_attr(t, fn) for t, br, _ in conds if br]
                    # guard clauses in front of the statement (`if p in self.X: return ...`) and negated branches count as well
                    for t, br, _ in flow.effective_guards(common.stmt_of(w.node), stop=fn):
                        if not br:
                            g.append(_emptiness_guard_attr(_negated(t), fn))
                        else:
                            g.append(_emptiness_guard_attr(t, fn))
                    g = [x for x in g if x]
                    if g:
                        reason = "under the idempotence guard on self.%s" % g[0][0]
                if reason:
                    oks[key] = (reason, fn, w)
                else:
                    findings[key] = (fn, w, root, [qualname(f) for f in trail] + [qualname(fn)])
            for call in [n for n in ast.walk(fn) if isinstance(n, ast.Call)]:
                targets, note = effects.resolve_call(repo, fn, call)
                if note == "external":
                    continue
                if note == "cha" and call_name(call) in effects.CONTAINER_MUTATORS | {"items", "keys", "values", "copy", "format", "get"}:
                    continue
                prot = protected
                st = common.stmt_of(call)
                if not prot:
                    for t, br, _ in flow.effective_guards(st, stop=fn):
                        ga = _emptiness_guard_attr(t if br else _negated(t), fn)
                        if ga:
                            prot = "%s of self.%s in %s" % (ga[1], ga[0], qualname(fn))
                la = None
                if call_name(call) in ("Point", "Expression", "Function"):
                    a = get_arg(call, 0, "is_leaf")
                    la = True if a is None else (a.value if isinstance(a, ast.Constant) else None)
                for t in targets:
                    if note == "cha" and getattr(t, "_cls", None) is not None and t.name.startswith("__") and t.name != "__init__":
                        continue
                    visit(t, prot, la if t.name == "__init__" else None, depth + 1, trail + [fn])
            # operators of the DSL build non-leaf objects only: not followed (their constructors are reached through explicit calls)
        visit(root, None, None, 0, [])
    ctx.count("functions in the per-solve effect closure", len(total_fns))
    ctx.count("accumulating writes examined", len(oks) + len(findings))
    for key, (reason, fn, w) in sorted(oks.items()):
        ctx.ob("R-ACCUM", key, True, reason, loc(fn, w.node))
    for key, (fn, w, root, trail) in sorted(findings.items()):
        ctx.ob("R-ACCUM", key, False,
               "`%s` grows at every solve: reached from %s through %s and neither reset there, keyed, nor under an idempotence guard"
               % (norm_stmt(common.stmt_of(w.node))[:70], qualname(root), " -> ".join(trail)), loc(fn, w.node))
        ctx.sample({"rule": "R-ACCUM", "write": key, "path": trail})
    return len(oks) + len(findings)


def _calls_self(fn):
    return any(isinstance(c, ast.Call) and isinstance(c.func, ast.Attribute) and dotted(c.func.value) == "self" for c in ast.walk(fn))


def _reset_dominates(root, reset_stmt, trail):
    # the reset is a top-level statement of the root; the accumulation happens in / below a later statement
    idx = [i for i, s in enumerate(root.body) if s is reset_stmt]
    if not idx:
        return False
    later_calls = any(isinstance(c, ast.Call) for s in root.body[idx[0] + 1:] for c in ast.walk(s))
    earlier_calls = any(isinstance(c, ast.Call) and call_name(c) not in ("list", "dict", "set") for s in root.body[:idx[0]] for c in ast.walk(s))
    return later_calls and not earlier_calls


def _keyed_before(fn, w):
    """self.tables[k][i].append(x) where self.tables[k] = ... is assigned earlier in the same function."""
    recv = w.node.func.value if isinstance(w.node, ast.Call) else None
    if recv is None or not isinstance(recv, ast.Subscript):
        return False
    base = recv
    while isinstance(base, ast.Subscript):
        base = base.value
    d = dotted(base)
    if not d:
        return False
    for s in flow.stmts_of(fn, ast.Assign):
        for t in s.targets:
            if isinstance(t, ast.Subscript) and dotted(t.value) == d and s.lineno < w.node.lineno:
                return True
    return False


# ---------------------------------------------------------------------------------------------------
# R-MEMO
# ---------------------------------------------------------------------------------------------------
def _paths(fn, facts):
    """[(kind, text, names stored before the exit)] of fn under boolean facts (aliases of locals resolved)."""
    from .c16 import _accessor_paths
    out = []
    for p in _accessor_paths(fn, facts, loop_mode="once"):
        stores = set()
        for ev in p.trace:
            if isinstance(ev, ast.Assign):
                for t in ev.targets:
                    d = dotted(t)
                    if d:
                        stores.add(d)
        if p.kind == "raise":
            out.append(("raise", p.exc, frozenset(stores)))
        else:
            out.append(("return", p.value_text if p.value is not None else "None", frozenset(stores)))
    return out


def r_memo(ctx, exits=True):
    repo = ctx.repo
    for cname, facts in (("Point", {"self._value is None": False, "self._is_leaf": False}),
                         ("Expression", {"self._value is None": False, "self._is_leaf": False}),
                         ("Constraint", {"self._value is None": False}),
                         ("PSDMatrix", {"self._value is None": False})):
        fn = repo.method(cname, "eval")
        ctx.unit("%s.eval" % cname)
        stale = [p for p in _paths(fn, facts) if p[0] == "return" and "self._value" not in p[2]]
        ctx.ob("R-MEMO", "%s.eval::derived value recomputed" % cname, not stale,
               "a derived object with a memoised value recomputes it from its operands on every call" if not stale else
               "a derived %s whose `_value` is already set returns it without recomputation: after a re-solve, held objects evaluate "
               "to the numbers of an earlier solve (nothing invalidates the memo: derived objects are not registered)" % cname, loc(fn, fn))
    if not exits:
        return
    # leaves: every successful solve overwrites the value of every registered leaf
    pep = common.pep_class(repo)
    root = common.solve_root(repo)
    assign_fn = None
    for f in pep.methods.values():
        st = [s for s in flow.stmts_of(f, ast.Assign) if any(isinstance(t, ast.Attribute) and t.attr == "_value" for t in s.targets)]
        if len(st) >= 2:
            assign_fn = f
    if assign_fn is None:
        raise AnalysisError("post-solve assignment of leaf values not found in PEP")
    ctx.unit(qualname(assign_fn))
    calls = [c for c in ast.walk(root) if isinstance(c, ast.Call) and call_name(c) == assign_fn.name]
    ok = len(calls) == 1 and not flow.conditions_guarding(common.stmt_of(calls[0])) and not flow.in_loop(common.stmt_of(calls[0]))
    ctx.ob("R-MEMO", "PEP.%s::leaf values assigned on success" % root.name, ok,
           "every successful path of the solve root assigns the leaf values exactly once, unconditionally" if ok else
           "the assignment of leaf values is conditional / repeated / missing on the success path", loc(root, calls[0] if calls else root))
    # exits that skip the assignment must not leave values of an earlier solve behind
    for kind, st in flow.exits(root):
        if kind != "return" or st is None:
            continue
        if calls and flow.dominates(common.stmt_of(calls[0]), st):
            continue
        # early return: look for a clearing of leaf values in its block
        blk = flow.block_of(st)[2]
        clears = any(isinstance(n, ast.Assign) and any(isinstance(t, ast.Attribute) and t.attr in ("_value",) for t in n.targets)
                     and is_const(n.value) and n.value.value is None for s in blk for n in ast.walk(s))
        ctx.ob("R-MEMO", "PEP.%s::early return leaves earlier values" % root.name, clears,
               "the early return clears the values of the leaves" if clears else
               "the early return (no finite optimum) neither assigns nor clears leaf values and multipliers: after a failed re-solve, "
               "eval()/eval_dual() still answer with the numbers of the previous successful solve", loc(root, st))


def r_memo_new(ctx):
    """No accessor of the DSL / function / problem classes memoises a solver-derived result in an attribute that the solve path does not refresh.
    Pattern: a method tests `self.A is (not) None`, assigns `self.A` and returns it."""
    repo = ctx.repo
    allowed = {("Point", "eval"), ("Expression", "eval")}      # leaf memo checked by R-MEMO above (derived objects recompute)
    n = 0
    for c in repo.all_classes():
        for fn in c.methods.values():
            if fn.name == "__init__":
                continue
            tested = set()
            for t in ast.walk(fn):
                if isinstance(t, ast.Compare) and len(t.ops) == 1 and isinstance(t.ops[0], (ast.Is, ast.IsNot, ast.Eq, ast.NotEq)) \
                        and isinstance(t.comparators[0], ast.Constant) and t.comparators[0].value is None:
                    d = dotted(t.left)
                    if d and d.startswith("self.") and d.count(".") == 1:
                        tested.add(d)
            for a in sorted(tested):
                assigned = any(isinstance(s, ast.Assign) and any(dotted(t) == a for t in s.targets) for s in flow.stmts_of(fn, ast.Assign))
                returned = any(isinstance(r, ast.Return) and dotted(r.value) == a for r in ast.walk(fn))
                if assigned and returned:
                    n += 1
                    ok = (c.name, fn.name) in allowed
                    ctx.ob("R-MEMO", "%s.%s::memo %s" % (c.name, fn.name, a), ok,
                           "leaf value overwritten at each solve (derived objects recompute, see above)" if ok else
                           "`%s` is computed once and returned from the attribute afterwards; nothing on the solve path refreshes it, so after a re-solve "
                           "the method answers with the result of an earlier solve" % a, loc(fn, fn))
    # the same pattern on any receiver, in methods and module-level functions: `x.A` tested against None, assigned, and what is returned comes
    # from it -- a result cached on a model object survives every later solve and edit
    for fn in repo.all_functions():
        c = getattr(fn, "_cls", None)
        if fn.name == "__init__":
            continue
        tested = set()
        for t in ast.walk(fn):
            if isinstance(t, ast.Compare) and len(t.ops) == 1 and isinstance(t.ops[0], (ast.Is, ast.IsNot, ast.Eq, ast.NotEq)) \
                    and isinstance(t.comparators[0], ast.Constant) and t.comparators[0].value is None:
                d = dotted(t.left)
                if d and d.count(".") == 1 and not d.startswith("self."):
                    tested.add(d)
        for a in sorted(tested):
            assigned = [s0 for s0 in flow.stmts_of(fn, ast.Assign) if any(dotted(t) == a for t in s0.targets)]
            derived = {a}
            for s0 in flow.stmts_of(fn, ast.Assign):
                if any(isinstance(n0, ast.Attribute) and dotted(n0) == a for n0 in ast.walk(s0.value)):
                    for t in s0.targets:
                        for t1 in (t.elts if isinstance(t, (ast.Tuple, ast.List)) else [t]):
                            if isinstance(t1, ast.Name):
                                derived.add(t1.id)
            returned = any(isinstance(r, ast.Return) and r.value is not None and
                           any((dotted(n0) in derived) for n0 in ast.walk(r.value) if isinstance(n0, (ast.Name, ast.Attribute))) for r in ast.walk(fn))
            if assigned and returned:
                n += 1
                ctx.ob("R-MEMO", "%s::memo %s" % (qualname(fn), a), False,
                       "`%s` is computed once, stored on the object and answered from there afterwards; nothing on the solve path refreshes it, so after "
                       "a re-solve or an edit of the model the function answers with an earlier result" % a, loc(fn, assigned[0]))
    ctx.count("memo patterns", n)


# ---------------------------------------------------------------------------------------------------
# R-POSTSOLVE: what the solve root calls on the model after the solve assigns values and reads, nothing else
# ---------------------------------------------------------------------------------------------------
def r_postsolve(ctx):
    """The methods of the problem object that the solve root calls (evaluation of the leaves, reconstruction of the certificate, eigenvalue
    diagnostics) only rebind `_value`-like fields and locals: no container of the model (a list attribute of the problem, of a function, of a
    class) grows or is edited in place there -- directly or through a local name bound to it -- otherwise every solve leaves the model larger."""
    repo = ctx.repo
    root = common.solve_root(repo)
    pep = common.pep_class(repo)
    n = 0
    for c in ast.walk(root):
        if not (isinstance(c, ast.Call) and isinstance(c.func, ast.Attribute) and dotted(c.func.value) == "self"):
            continue
        m = pep.find_method(c.func.attr)
        if m is None or m is root:
            continue
        n += 1
        bad = []
        # locals that are another name of a container attribute
        aliases = {}
        for s0 in flow.stmts_of(m, ast.Assign):
            if len(s0.targets) == 1 and isinstance(s0.targets[0], ast.Name) and isinstance(s0.value, ast.Attribute) and s0.value.attr.startswith("list_of"):
                aliases[s0.targets[0].id] = src(s0.value)
        for node in ast.walk(m):
            recv = None
            if isinstance(node, ast.Call) and isinstance(node.func, ast.Attribute) and node.func.attr in effects.CONTAINER_MUTATORS:
                recv = node.func.value
            elif isinstance(node, ast.AugAssign):
                recv = node.target
            elif isinstance(node, ast.Assign):
                for t in node.targets:
                    if isinstance(t, ast.Subscript):
                        recv = t.value
            if recv is None:
                continue
            text = None
            if isinstance(recv, ast.Attribute) and recv.attr.startswith("list_of"):
                text = src(recv)
            elif isinstance(recv, ast.Name) and recv.id in aliases:
                text = "%s (= %s)" % (recv.id, aliases[recv.id])
            if text:
                bad.append((node, text))
        ctx.ob("R-POSTSOLVE", "PEP.%s::edits no container of the model" % m.name, not bad,
               "only values are assigned" if not bad else
               "`%s` edits `%s` in place: the model grows at every solve (and what is added is sent again by the next one)"
               % (norm_stmt(common.stmt_of(bad[0][0]))[:70], bad[0][1]), loc(m, bad[0][0] if bad else m))
    ctx.count("post-solve methods of the problem object", n)
    return n
