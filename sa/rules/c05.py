"""C05 -- the problem handed to the solver is exactly the declared model."""
from . import pepsolve, wrappers, translate, state, common, translprog, solveprog

LEVEL = "other"
EXPLANATION = ("Discovery of the containers that hold the declared model (by the kind of object appended to them) and proof that the solve root "
               "drains each with exactly one whole-list loop sending every element once with the method of its kind, for every owner; sense "
               "dispatch of both back-ends against the literal set Constraint accepts; comparison operators of Expression by normal form; dense and "
               "sparse translators interpreted abstractly over (key kind, mirrored key present, index order); LMI encodings; objective sense; nothing "
               "accumulates across solves; MOSEK matrix-variable indices derive from send order."
               ' Also: every declaration method stores what it is given exactly once on every path; declare_* build a new object at every call; the LMI constructor converts entries per kind on a copy; MOSEK rows carry exactly the sparse translation; main variables are sized by the leaf counters.')
TRUSTED = ["CPython ast", "MOSEK: sparse symmetric matrices are lower-triangular with off-diagonal entries counted twice; bar-variables are numbered in append order",
           "cvxpy: sum(multiply(G, W)) is the Frobenius inner product"]
ASSUMPTIONS = ["numeric equality of dense and sparse data on concrete expressions is not executed; it follows from the per-kind rules"]


def run(ctx):
    nc, ns = pepsolve.r_drain(ctx)
    pepsolve.r_obj(ctx)
    solveprog.r_solve_program(ctx, {"drain", "generate"})
    pepsolve.r_fresh_declarations(ctx)
    pepsolve.r_declare(ctx)
    pepsolve.r_registry(ctx)
    from . import leafprog
    leafprog.r_function_creation(ctx)   # every function, leaf or combination, enters the registry the solve root iterates, once, with containers of its own
    wrappers.r_sense(ctx)
    wrappers.r_cmp(ctx)
    translate.r_keykinds(ctx)
    translate.r_transl(ctx)
    nt = translprog.r_translators(ctx)
    ctx.floor("translator programs unrolled", nt, 22)
    wrappers.r_lmienc(ctx)
    wrappers.r_mainvars(ctx)
    wrappers.r_psdstore(ctx)
    wrappers.r_mosekrow(ctx)
    pepsolve.r_objsense(ctx)
    state.r_accum(ctx)
    common.r_argbind(ctx, {common.solve_root(ctx.repo).name, "generate_problem", "send_constraint_to_solver", "send_lmi_constraint_to_solver", "expression_to_sparse_matrices", "expression_to_matrices"})
    nb = wrappers.r_baridx(ctx)
    ctx.floor("declared-model containers", nc, 6)
    ctx.floor("send sites in the solve root", ns, 5)
    ctx.floor("bar-variable index sites", nb, 4)
