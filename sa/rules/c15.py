"""C15 -- block partitions behave as orthogonal coordinate-block projections."""
import ast
from ..model import AnalysisError, src, loc, call_name, dotted, params_of, norm_stmt, is_const, get_arg, qualname, iter_base
from ..nf import Evaluator, Rat, PointV, ExprV, ConsV, TupleV, Opaque, SortError
from ..core import Ctx
from .. import flow
from . import formula, pepsolve, common

LEVEL = "other"
EXPLANATION = ("Memo discipline of get_block (blocks are created only for a point not yet decomposed and stored before being returned), bounded symbolic "
               "unrolling of the decomposition for d = 1..4 (d entries, d-1 fresh leaves, the entries sum back to the point, d = 1 is the identity), "
               "loop-domain analysis of the orthogonality generator (all decomposed points x all decomposed points, every unordered pair of distinct "
               "blocks once, one equality-to-zero per combination, unconditionally), registration and draining of every partition by the solve root, "
               "and the block-smooth class formula against spec/classes.py.")
TRUSTED = ["CPython ast", "spec/classes.py", "sa/nf.py arithmetic"]
ASSUMPTIONS = ["validity on real coordinate projections is mathematics, not decided", "unrolling bound: d <= 4 blocks (the loop structure does not depend on d)"]






def r_blocks(ctx):
    """get_block as a program (sa/miniint.py), for d = 1..4 blocks: asking the d blocks of a point creates exactly d - 1 new leaf points, the blocks
    are distinct and sum back to the point (d = 1: the point itself); asking again returns the very same objects and creates nothing; another
    point (a combination just as well as a leaf: the table is keyed by object identity) gets its own blocks, which sum back to it."""
    from ..miniint import IndexInterp, VecObj
    repo = ctx.repo
    bp = repo.cls("BlockPartition")
    fn = bp.methods.get("get_block")
    if fn is None:
        raise AnalysisError("BlockPartition.get_block missing")
    ctx.unit("BlockPartition.get_block")
    ps = params_of(fn)
    point, blk = ps[1], ps[2]
    for d in (1, 2, 3, 4):
        created = []

        def on_call(node, it, created=created):
            nm = call_name(node)
            if isinstance(node.func, ast.Name) and nm == "Point":
                a0 = get_arg(node, 0, "is_leaf")
                if a0 is None or is_const(a0, True):
                    o = VecObj("Point", PointV.atom("blk%d" % (len(created) + 1)))
                    created.append(o)
                    return o
                dd = get_arg(node, 1, "decomposition_dict")
                if dd is not None and (isinstance(dd, ast.Dict) and not dd.keys or isinstance(dd, ast.Call) and call_name(dd) == "dict" and not dd.args):
                    return VecObj("Point", PointV())
            if nm == "get_nb_blocks":
                return d
            if nm == "isinstance":
                return True
            return NotImplemented
        state = {"self.d": d, "self.blocks_dict": {}, "null_point": VecObj("Point", PointV())}
        p_obj = VecObj("Point", PointV.atom("p"))
        q_obj = VecObj("Point", PointV.atom("q1") + PointV.atom("q2"))      # a combination: two points may well have equal counters (None)

        def ask(pt, k):
            env = dict(state)
            env[point], env[blk] = pt, k
            it = IndexInterp(env, on_call=on_call)
            r = it.run(fn.body)
            for key0 in ("self.blocks_dict",):
                state[key0] = it.env[key0]
            return r
        msg = None
        try:
            first = [ask(p_obj, k) for k in range(d)]
            n1 = len(created)
            again = [ask(p_obj, k) for k in range(d)]
            n2 = len(created)
            other = [ask(q_obj, k) for k in range(d)]
            n3 = len(created)
            if not all(isinstance(b0, VecObj) for b0 in first + again + other):
                msg = "get_block returns %r" % ([b0 for b0 in first + again + other if not isinstance(b0, VecObj)][:1],)
            elif n1 != d - 1:
                msg = "decomposing a point into %d blocks creates %d new leaf points (expected %d)" % (d, n1, d - 1)
            elif n2 != n1 or any(x is not y for x, y in zip(first, again)):
                msg = "asking the blocks of the same point again %s" % ("creates %d more leaf points" % (n2 - n1) if n2 != n1 else "returns other objects")
            else:
                tot = PointV()
                for b0 in first:
                    tot = tot + b0.val
                tq = PointV()
                for b0 in other:
                    tq = tq + b0.val
                if not tot.equals(p_obj.val):
                    msg = "the %d blocks of p sum to `%s`, not to p" % (d, tot)
                elif len({id(b0) for b0 in first}) != d:
                    msg = "two block numbers of the same point share one object"
                elif n3 - n2 != d - 1 or not tq.equals(q_obj.val) or any(x is y for x in first for y in other if d > 1):
                    msg = "a second decomposed point (a combination) gets blocks that sum to `%s` instead of to itself (%d new leaves): the table confuses two points" % (tq, n3 - n2)
        except AnalysisError as e:
            msg = "get_block not interpretable: %s" % e
        ctx.ob("R-SUMBACK", "BlockPartition.get_block::d=%d" % d, msg is None,
               "%d blocks, %d fresh leaves, blocks sum to the point, same objects when asked again, own blocks per point" % (d, d - 1) if msg is None else msg, loc(fn, fn))


def r_ortho_program(ctx, fn):
    """add_partition_constraints unrolled (sa/miniint.py) for d = 1..3 blocks and 0..2 decomposed points: the relations generated are exactly
    <block k of a, block l of b> == 0 for every unordered choice of two *different* block numbers k != l and all decomposed points a, b (a == b
    included), each once -- and nothing else.  Raises AnalysisError when the routine leaves the interpreter's fragment."""
    from ..miniint import IndexInterp, SymObj, is_token
    n = 0
    for d, npts, prior in [(d0, n0, False) for d0 in (1, 2, 3) for n0 in (0, 1, 2)] + [(2, 2, True), (3, 1, True)]:
        if True:
            pts = [SymObj("Point", label="pq"[i]) for i in range(npts)]
            blocks = {p: [SymObj("Point", label="%s_%d" % (p.attrs["label"], k), owner=p, block=k) for k in range(d)] for p in pts}
            # `prior`: the partition already holds a constraint (one the user attached, or what an earlier solve generated)
            earlier = [SymObj("Constraint", label="already there")] if prior else []
            me = SymObj("BlockPartition", label="self", d=d, blocks_dict=blocks, list_of_constraints=list(earlier), counter=0)
            got = []

            def on_call(node, it):
                nm = call_name(node)
                if isinstance(node.func, ast.Attribute) and dotted(node.func.value) == "self":
                    if nm == "add_constraint" and len(node.args) + len(node.keywords) == 1:
                        got.append(it.ev(node.args[0] if node.args else node.keywords[0].value))
                        return None
                    if nm == "get_nb_blocks":
                        return d
                return NotImplemented
            it = IndexInterp({"self": me}, on_call=on_call)
            try:
                it.run(fn.body)
            except AnalysisError as ex:
                if "the index program raises" in str(ex):
                    ctx.ob("R-ORTHO", "BlockPartition.add_partition_constraints::d=%d, %d point(s)%s (unrolled)" % (d, npts, ", a constraint already attached" if prior else ""), False,
                           "the generator raises on a well-formed partition: %s" % ex, loc(fn, fn))
                    continue
                raise
            got = got + [c for c in me.attrs["list_of_constraints"] if not any(c is e0 for e0 in earlier)]
            n += 1
            msg = None
            pairs = []
            for c in got:
                rel = None
                if is_token(c) and c[0] == "cmp" and c[1] == "Eq":
                    l, r = (c[2], c[3]) if c[3] == 0 else ((c[3], c[2]) if c[2] == 0 else (None, None))
                    if is_token(l) and l[0] == "op" and l[1] == "Mult" and all(isinstance(x, SymObj) and "owner" in x.attrs for x in l[2:4]):
                        rel = (l[2], l[3])
                if rel is None:
                    msg = "a relation is `%r`, not <block, block> == 0" % (c,)
                    break
                pairs.append(rel)
            if msg is None:
                want = {}
                allb = [b for p in pts for b in blocks[p]]
                for i, a in enumerate(allb):
                    for b in allb[i + 1:]:
                        if a.attrs["block"] != b.attrs["block"]:
                            want[frozenset((id(a), id(b)))] = (a, b)
                seen = {}
                for a, b in pairs:
                    key = frozenset((id(a), id(b)))
                    if key not in want:
                        msg = "the relation <%s, %s> == 0 is imposed: %s" % (a.attrs["label"], b.attrs["label"],
                                                                             "blocks with the same number are not orthogonal" if a.attrs["block"] == b.attrs["block"] else "unexpected")
                        break
                    seen[key] = seen.get(key, 0) + 1
                if msg is None:
                    missing = [v for k0, v in want.items() if k0 not in seen]
                    twice = [want[k0] for k0, c0 in seen.items() if c0 > 1]
                    if missing:
                        msg = "no relation between %s and %s (%d of %d relations missing)" % (missing[0][0].attrs["label"], missing[0][1].attrs["label"], len(missing), len(want))
                    elif twice:
                        msg = "the relation between %s and %s is generated %d times in one call" % (twice[0][0].attrs["label"], twice[0][1].attrs["label"], max(seen.values()))
            ctx.ob("R-ORTHO", "BlockPartition.add_partition_constraints::d=%d, %d point(s)%s (unrolled)" % (d, npts, ", a constraint already attached" if prior else ""), msg is None,
                   "every pair of blocks with different numbers, over all decomposed points, exactly once" if msg is None else msg, loc(fn, fn))
    ctx.count("partition programs unrolled", n)
    return n


def r_ortho(ctx):
    repo = ctx.repo
    bp = repo.cls("BlockPartition")
    fn = bp.methods.get("add_partition_constraints")
    if fn is None:
        raise AnalysisError("BlockPartition.add_partition_constraints missing")
    ctx.unit("BlockPartition.add_partition_constraints")
    try:
        r_ortho_program(ctx, fn)
        return
    except AnalysisError as ex:
        ctx.notes.append("R-ORTHO: %s -- shape clauses applied instead" % ex)
    adds = [c for c in ast.walk(fn) if isinstance(c, ast.Call) and ((call_name(c) == "add_constraint" and dotted(c.func.value) == "self")
                                                                   or (call_name(c) == "append" and dotted(c.func.value) == "self.list_of_constraints"))]
    if len(adds) != 1:
        ctx.ob("R-ORTHO", "BlockPartition.add_partition_constraints::one emission site", False, "%d emission sites" % len(adds), loc(fn, fn))
        return
    add = adds[0]
    st = common.stmt_of(add)
    gens = flow.loop_generators(st, fn)
    if gens is None:
        raise AnalysisError("BlockPartition.add_partition_constraints: loop nest outside the analysed fragment")
    loop_nodes = []
    for g0 in gens:
        if g0[2] not in loop_nodes:
            loop_nodes.append(g0[2])
    conds = flow.conditions_guarding(st)
    early = [s for s in flow.stmts_of(fn) if isinstance(s, (ast.Return, ast.Break, ast.Continue))]
    from ..absint import _pure
    def resets_output_before(s):
        """`self.list_of_constraints = list()` / `.clear()` ahead of the loop nest: every relation is still generated (whether anything else that
        was stored there may be dropped is the business of C05)"""
        if not (loop_nodes and getattr(s, "lineno", 0) < loop_nodes[0].lineno):
            return False
        if isinstance(s, ast.Assign) and len(s.targets) == 1 and dotted(s.targets[0]) == "self.list_of_constraints" and _harmless(s.value) \
                and not any(isinstance(n0, ast.Attribute) and n0.attr in ("blocks_dict", "d") for n0 in ast.walk(s.value)):
            return True
        return isinstance(s, ast.Expr) and isinstance(s.value, ast.Call) and call_name(s.value) == "clear" and dotted(s.value.func.value) == "self.list_of_constraints"
    extra = [s for s in fn.body if not (loop_nodes and s is loop_nodes[0]) and not isinstance(s, ast.Pass) and not resets_output_before(s)
             and not (isinstance(s, ast.Assign) and len(s.targets) == 1 and isinstance(s.targets[0], ast.Name) and _harmless(s.value))]
    ok = not conds and not early and not extra
    ctx.ob("R-ORTHO", "BlockPartition.add_partition_constraints::unconditional", ok,
           "the relations are generated unconditionally at every call" if ok else
           "generation is conditional (%s): some relations between blocks are not imposed" % ("; ".join(src(t) for t, _, _ in conds) or "early exit / extra statements"), loc(fn, fn))

    def is_values(e):
        return isinstance(e, ast.Call) and call_name(e) == "values" and dotted(e.func.value) == "self.blocks_dict"
    pl = [g0 for g0 in gens if is_values(g0[1])]
    rl = [g0 for g0 in gens if isinstance(g0[1], ast.Call) and call_name(g0[1]) == "range"]
    okp = len(pl) == 2 and len(rl) == 2 and len(gens) == 4 and all(g0[0] for g0 in gens)
    ctx.ob("R-ORTHO", "BlockPartition.add_partition_constraints::all points x all points", okp,
           "two loops over all decomposed points (full cross product) and two over block indices" if okp else
           "loop nest is %s" % [src(g0[1]) for g0 in gens], loc(fn, loop_nodes[0] if loop_nodes else fn))
    if not okp:
        return
    a, b = pl[0][0], pl[1][0]
    k, l = rl[0][0], rl[1][0]
    # body: A[k] * B[l] == 0
    arg = add.args[0]
    okb = isinstance(arg, ast.Compare) and isinstance(arg.ops[0], ast.Eq) and is_const(arg.comparators[0], 0) and isinstance(arg.left, ast.BinOp) \
        and isinstance(arg.left.op, ast.Mult)
    if okb:
        f1, f2 = arg.left.left, arg.left.right
        idx = set()
        for f in (f1, f2):
            if isinstance(f, ast.Subscript) and isinstance(f.value, ast.Name) and isinstance(f.slice, ast.Name):
                idx.add((f.value.id, f.slice.id))
        okb = idx in ({(a, k), (b, l)}, {(a, l), (b, k)})
    ctx.ob("R-ORTHO", "BlockPartition.add_partition_constraints::inner product of two blocks == 0", okb,
           "each relation is <block k of one point, block l of another> == 0" if okb else "the emitted relation is `%s`" % src(arg), loc(fn, add))
    # (k, l) domain for d = 1..4
    for d in (1, 2, 3, 4):
        pairs = []
        try:
            for kv in _range_vals(rl[0][1], {"d": d}):
                for lv in _range_vals(rl[1][1], {"d": d, k: kv}):
                    pairs.append((kv, lv))
        except AnalysisError as e:
            ctx.ob("R-ORTHO", "BlockPartition.add_partition_constraints::block pairs d=%d" % d, False, str(e), loc(fn, rl[0][2]))
            continue
        want = {frozenset((x, y)) for x in range(d) for y in range(d) if x != y}
        got = [frozenset(p) for p in pairs]
        ok = all(len(p) == 2 for p in got) and set(got) == want and len(got) == len(set(got))
        ctx.ob("R-ORTHO", "BlockPartition.add_partition_constraints::block pairs d=%d" % d, ok,
               "every unordered pair of distinct blocks exactly once (%d pairs)" % len(want) if ok else
               "block index pairs %s; expected every unordered pair of distinct blocks of range(%d) exactly once and no pair (k, k)" % (sorted(pairs), d), loc(fn, rl[0][2]))


def _harmless(e):
    """a local bound to a view / range / list of index tuples: no effect, nothing generated"""
    for n in ast.walk(e):
        if isinstance(n, ast.Call) and call_name(n) not in ("values", "keys", "items", "range", "len", "get_nb_blocks", "list", "tuple", "product", "combinations"):
            return False
        if isinstance(n, (ast.Lambda, ast.Await, ast.Yield, ast.NamedExpr)):
            return False
    return True


def _range_vals(call, env):
    def ev(n):
        if isinstance(n, ast.Constant) and isinstance(n.value, int):
            return n.value
        if dotted(n) == "self.d" or (isinstance(n, ast.Call) and call_name(n) == "get_nb_blocks"):
            return env["d"]
        if isinstance(n, ast.Name) and n.id in env:
            return env[n.id]
        if isinstance(n, ast.BinOp) and isinstance(n.op, (ast.Add, ast.Sub)):
            a, b = ev(n.left), ev(n.right)
            return a + b if isinstance(n.op, ast.Add) else a - b
        raise AnalysisError("range bound `%s` outside the analysed fragment" % src(n))
    return list(range(*[ev(a) for a in call.args]))


def _no_relation_guard(t, br, var):
    """`p.get_nb_blocks() > 1`, `p.d >= 2`, `p.blocks_dict` (non-empty): partitions skipped by these have no pair of distinct blocks / no point"""
    if not br:
        return False
    if isinstance(t, ast.Compare) and len(t.ops) == 1 and isinstance(t.comparators[0], ast.Constant):
        l = t.left
        subj = (isinstance(l, ast.Call) and call_name(l) == "get_nb_blocks" and dotted(l.func.value) == var) or dotted(l) == var + ".d"
        if subj and ((isinstance(t.ops[0], ast.Gt) and t.comparators[0].value in (0, 1)) or (isinstance(t.ops[0], ast.GtE) and t.comparators[0].value in (1, 2))
                     or (isinstance(t.ops[0], ast.NotEq) and t.comparators[0].value == 1)):
            return True
        if isinstance(l, ast.Call) and call_name(l) == "len" and l.args and dotted(l.args[0]) == var + ".blocks_dict" and \
                ((isinstance(t.ops[0], ast.Gt) and t.comparators[0].value == 0) or (isinstance(t.ops[0], ast.GtE) and t.comparators[0].value == 1)):
            return True
    return dotted(t) == var + ".blocks_dict"


def r_strong_registry(ctx):
    """blocks_dict keeps the decomposed points alive: a point decomposed through a temporary (`partition.get_block(y - x, k)`) stays a key, so
    its blocks are still there when the relations are generated."""
    bp = ctx.repo.cls("BlockPartition")
    inits = []
    for fn in bp.methods.values():
        for s0 in flow.stmts_of(fn, ast.Assign):
            if any(dotted(t) == "self.blocks_dict" for t in s0.targets):
                inits.append((fn, s0))
    if not inits:
        raise AnalysisError("BlockPartition: no initialisation of blocks_dict found")
    for fn, s0 in inits:
        v = s0.value
        weak = [c for c in ast.walk(v) if isinstance(c, ast.Call) and (call_name(c) or "").startswith("Weak") or
                (isinstance(c, ast.Call) and (dotted(c.func) or "").startswith("weakref."))]
        ctx.ob("R-MEMOBLK", "BlockPartition.%s::blocks_dict holds its keys" % fn.name, not weak,
               "the decomposition table is an ordinary mapping: decomposed points stay registered" if not weak else
               "`%s`: the table drops a decomposed point as soon as the program holds no other reference to it (any point decomposed through a "
               "temporary combination), and its blocks get no orthogonality relation" % norm_stmt(s0), loc(fn, s0))


def r_registered(ctx):
    """Every partition is registered and the solve root generates and drains the relations of every registered partition."""
    sub = Ctx(ctx.prop, ctx.repo, ctx.tier)
    pepsolve.r_drain(sub)
    for o in sub.obligations:
        if o.key.startswith("BlockPartition."):
            ctx.obligations.append(o)
    root = common.solve_root(ctx.repo)
    calls = [c for c in ast.walk(root) if isinstance(c, ast.Call) and call_name(c) == "add_partition_constraints"]
    ok = False
    msg = "add_partition_constraints is not called in a loop over the partition registry"
    if len(calls) == 1:
        lp = flow.in_loop(common.stmt_of(calls[0]))
        base_it, enum = iter_base(lp.iter) if lp is not None else (None, False)
        tgt = (lp.target.elts[1] if enum and isinstance(lp.target, ast.Tuple) and len(lp.target.elts) == 2 else lp.target) if lp is not None else None
        if lp is not None and dotted(base_it) == "BlockPartition.list_of_partitions" and isinstance(tgt, ast.Name) \
                and dotted(calls[0].func.value) == tgt.id and not flow.conditions_guarding(lp):
            ok, msg = True, "the relations of every registered partition are generated at each solve"
            # a guard between the loop header and the call is harmless only when it skips partitions that have no relation at all
            for t, br, _ in flow.conditions_guarding(common.stmt_of(calls[0])):
                if not _no_relation_guard(t, br, tgt.id):
                    ok = False
                    msg = ("the relations of a registered partition are generated only if `%s%s`: the relations of points decomposed since the last "
                           "generation are never imposed" % ("" if br else "not ", src(t)))
            early = [x for x in flow.stmts_of_block(lp.body) if isinstance(x, (ast.Break, ast.Continue, ast.Return)) and x.lineno < calls[0].lineno]
            if ok and early:
                ok, msg = False, "the loop over the partitions can skip the generation (`%s` at line %d)" % (norm_stmt(early[0]), early[0].lineno)
    ctx.ob("R-PARTREG", "PEP.%s::generate for every registered partition" % root.name, ok, msg, loc(root, calls[0] if calls else root))


def run(ctx):
    r_blocks(ctx)
    r_strong_registry(ctx)
    r_ortho(ctx)
    r_registered(ctx)
    from . import solveprog
    solveprog.r_solve_program(ctx, {"drain"})     # every partition generates its relations once per solve (also in a model without functions) and they are sent
    pepsolve.r_registry(ctx)
    pepsolve.r_fresh_declarations(ctx, only=("declare_block_partition",))
    formula.r_formula(ctx, "sound", only={"BlockSmoothConvexFunction"})
    formula.r_formula(ctx, "complete", only={"BlockSmoothConvexFunction"})
    from . import hookprog
    hookprog.r_hook_programs(ctx, "complete", only={"BlockSmoothConvexFunction"})
