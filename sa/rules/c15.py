"""C15 -- block partitions behave as orthogonal coordinate-block projections."""
import ast
from ..model import AnalysisError, src, loc, call_name, dotted, params_of, norm_stmt, is_const, get_arg, qualname, iter_base
from ..nf import Evaluator, Rat, PointV, ExprV, ConsV, TupleV, Opaque, SortError
from ..core import Ctx
from .. import flow
from . import formula, pepsolve, common

LEVEL = "other"
EXPLANATION = ("Memo discipline of get_block (blocks are created only for a point not yet decomposed and stored before being returned), bounded symbolic "
               "unrolling of the decomposition for d = 1..4 (d entries, d-1 fresh leaves, the entries sum back to the point, d = 1 is the identity), "
               "loop-domain analysis of the orthogonality generator (all decomposed points x all decomposed points, every unordered pair of distinct "
               "blocks once, one equality-to-zero per combination, unconditionally), registration and draining of every partition by the solve root, "
               "and the block-smooth class formula against spec/classes.py.")
TRUSTED = ["CPython ast", "spec/classes.py", "sa/nf.py arithmetic"]
ASSUMPTIONS = ["validity on real coordinate projections is mathematics, not decided", "unrolling bound: d <= 4 blocks (the loop structure does not depend on d)"]


class _BlockInterp(Evaluator):
    def __init__(self, d):
        super().__init__({})
        self.d = d
        self.fresh_n = 0

    def name(self, node):
        if node.id == "null_point":
            return PointV()
        raise AnalysisError("unbound name %s in get_block" % node.id)

    def attribute(self, node):
        if dotted(node) == "self.d":
            return Rat(self.d)
        raise AnalysisError("attribute %s in get_block" % src(node))

    def call(self, node):
        nm = call_name(node)
        if isinstance(node.func, ast.Name) and nm == "Point":
            a = get_arg(node, 0, "is_leaf")
            if a is None or is_const(a, True):
                self.fresh_n += 1
                return PointV.atom("blk%d" % self.fresh_n)
            dd = get_arg(node, 1, "decomposition_dict")
            if isinstance(dd, ast.Call) and call_name(dd) == "dict" or isinstance(dd, ast.Dict) and not dd.keys:
                return PointV()
        if isinstance(node.func, ast.Name) and nm == "list" and not node.args:
            return Opaque("list", [])
        if nm == "get_nb_blocks":
            return Rat(self.d)
        raise AnalysisError("call %s in get_block" % src(node))

    def ev_List(self, node):
        return Opaque("list", [self.ev(e) for e in node.elts])

    def ev_BinOp(self, node):
        if isinstance(node.op, ast.Add):
            a, b = self.ev(node.left), self.ev(node.right)
            if isinstance(a, Opaque) and isinstance(b, Opaque) and a.tag == "list" and b.tag == "list":
                return Opaque("list", list(a.payload) + list(b.payload))
            from ..nf import v_add
            return v_add(a, b)
        return super().ev_BinOp(node)


def _run_block_body(stmts, it):
    for s in stmts:
        if isinstance(s, ast.Assign) and len(s.targets) == 1 and isinstance(s.targets[0], ast.Name):
            it.env[s.targets[0].id] = it.ev(s.value)
        elif isinstance(s, ast.AugAssign) and isinstance(s.target, ast.Name) and isinstance(s.op, (ast.Add, ast.Sub)):
            cur = it.env[s.target.id]
            v = it.ev(s.value)
            it.env[s.target.id] = cur + v if isinstance(s.op, ast.Add) else cur - v
        elif isinstance(s, ast.For) and isinstance(s.iter, ast.Call) and call_name(s.iter) == "range" and isinstance(s.target, ast.Name):
            args = [it.ev(a) for a in s.iter.args]
            if not all(isinstance(a, Rat) and a.is_number() for a in args):
                raise AnalysisError("range bounds %s" % src(s.iter))
            ints = [int(a.number()) for a in args]
            for i in range(*ints):
                it.env[s.target.id] = Rat(i)
                _run_block_body(s.body, it)
        elif isinstance(s, ast.Expr) and isinstance(s.value, ast.Call) and call_name(s.value) == "append" and isinstance(s.value.func.value, ast.Name):
            lst = it.env[s.value.func.value.id]
            lst.payload.append(it.ev(s.value.args[0]))
        elif isinstance(s, ast.Assign) and isinstance(s.targets[0], ast.Subscript) and dotted(s.targets[0].value) == "self.blocks_dict":
            try:
                it.stored = it.ev(s.value)
            except (AnalysisError, SortError):
                it.stored = None
            it.stored_key = src(s.targets[0].slice)
        elif isinstance(s, ast.Assert):
            continue
        else:
            raise AnalysisError("statement `%s` of get_block outside the analysed fragment" % norm_stmt(s)[:60])


def r_blocks(ctx):
    repo = ctx.repo
    bp = repo.cls("BlockPartition")
    fn = bp.methods.get("get_block")
    if fn is None:
        raise AnalysisError("BlockPartition.get_block missing")
    ctx.unit("BlockPartition.get_block")
    ps = params_of(fn)
    point, blk = ps[1], ps[2]
    guards = [s for s in fn.body if isinstance(s, ast.If)]
    memo = None
    for g in guards:
        t = g.test
        if isinstance(t, ast.Compare) and isinstance(t.ops[0], ast.NotIn) and dotted(t.left) == point:
            base = t.comparators[0]
            base = base.func.value if isinstance(base, ast.Call) and call_name(base) == "keys" else base
            if dotted(base) == "self.blocks_dict":
                memo = g
    ctx.ob("R-MEMOBLK", "BlockPartition.get_block::memo guard", memo is not None,
           "blocks are built only when the point is not yet a key of blocks_dict" if memo is not None else "no `if point not in self.blocks_dict` guard", loc(fn, fn))
    if memo is None:
        return
    creations = [c for c in ast.walk(fn) if isinstance(c, ast.Call) and isinstance(c.func, ast.Name) and c.func.id == "Point"]
    outside = [c for c in creations if not any(n is c for n in ast.walk(memo))]
    ctx.ob("R-MEMOBLK", "BlockPartition.get_block::creation under the guard", not outside and not memo.orelse,
           "every new point is created under the guard" if not outside else "points are created outside the memo guard (line %s): asking again gives other blocks" % [c.lineno for c in outside], loc(fn, memo))
    rets = [r for r in ast.walk(fn) if isinstance(r, ast.Return)]
    okr = len(rets) >= 1 and all(src(r.value).replace(" ", "") == "self.blocks_dict[%s][%s]" % (point, blk) for r in rets)
    ctx.ob("R-MEMOBLK", "BlockPartition.get_block::returns the stored block", okr,
           "every return reads the stored list at the requested block" if okr else "returns %s" % [src(r.value) for r in rets], loc(fn, fn))
    rng = [a for a in fn.body if isinstance(a, ast.Assert)]
    okb = any(src(a.test).replace(" ", "") in ("0<=%s<=self.d-1" % blk, "0<=%s<self.d" % blk) for a in rng)
    ctx.ob("R-MEMOBLK", "BlockPartition.get_block::block range", okb, "block numbers 0..d-1 are accepted" if okb else "the admissible range of block numbers is not asserted as 0..d-1", loc(fn, fn))
    # bounded unrolling
    for d in (1, 2, 3, 4):
        it = _BlockInterp(d)
        it.env[point] = PointV.atom("p")
        it.stored = None
        it.stored_key = None
        try:
            _run_block_body(memo.body, it)
        except (AnalysisError, SortError) as e:
            ctx.ob("R-SUMBACK", "BlockPartition.get_block::d=%d" % d, False, "not interpretable: %s" % e, loc(fn, memo))
            continue
        st = it.stored
        ok = isinstance(st, Opaque) and st.tag == "list" and len(st.payload) == d and it.fresh_n == d - 1 and it.stored_key == point
        msg = ""
        if ok:
            tot = PointV()
            for b in st.payload:
                tot = tot + b
            ok = tot.equals(PointV.atom("p"))
            distinct = len({str(b) for b in st.payload}) == d
            ok = ok and distinct
            msg = "%d blocks, %d fresh leaves, blocks sum to the point" % (d, d - 1) if ok else "the %d stored blocks sum to `%s`, not to the point" % (d, tot)
        else:
            msg = "stores %s under key %s with %d fresh leaves (expected a list of %d blocks under the point, %d fresh leaves)" % (
                "%d blocks" % len(st.payload) if isinstance(st, Opaque) else st, it.stored_key, it.fresh_n, d, d - 1)
        ctx.ob("R-SUMBACK", "BlockPartition.get_block::d=%d" % d, ok, msg, loc(fn, memo))
        ctx.sample({"rule": "R-SUMBACK", "d": d, "blocks": [str(b) for b in st.payload] if isinstance(st, Opaque) else None})


def r_ortho(ctx):
    repo = ctx.repo
    bp = repo.cls("BlockPartition")
    fn = bp.methods.get("add_partition_constraints")
    if fn is None:
        raise AnalysisError("BlockPartition.add_partition_constraints missing")
    ctx.unit("BlockPartition.add_partition_constraints")
    adds = [c for c in ast.walk(fn) if isinstance(c, ast.Call) and ((call_name(c) == "add_constraint" and dotted(c.func.value) == "self")
                                                                   or (call_name(c) == "append" and dotted(c.func.value) == "self.list_of_constraints"))]
    if len(adds) != 1:
        ctx.ob("R-ORTHO", "BlockPartition.add_partition_constraints::one emission site", False, "%d emission sites" % len(adds), loc(fn, fn))
        return
    add = adds[0]
    st = common.stmt_of(add)
    gens = flow.loop_generators(st, fn)
    if gens is None:
        raise AnalysisError("BlockPartition.add_partition_constraints: loop nest outside the analysed fragment")
    loop_nodes = []
    for g0 in gens:
        if g0[2] not in loop_nodes:
            loop_nodes.append(g0[2])
    conds = flow.conditions_guarding(st)
    early = [s for s in flow.stmts_of(fn) if isinstance(s, (ast.Return, ast.Break, ast.Continue))]
    from ..absint import _pure
    extra = [s for s in fn.body if not (loop_nodes and s is loop_nodes[0]) and not isinstance(s, ast.Pass)
             and not (isinstance(s, ast.Assign) and len(s.targets) == 1 and isinstance(s.targets[0], ast.Name) and _harmless(s.value))]
    ok = not conds and not early and not extra
    ctx.ob("R-ORTHO", "BlockPartition.add_partition_constraints::unconditional", ok,
           "the relations are generated unconditionally at every call" if ok else
           "generation is conditional (%s): some relations between blocks are not imposed" % ("; ".join(src(t) for t, _, _ in conds) or "early exit / extra statements"), loc(fn, fn))

    def is_values(e):
        return isinstance(e, ast.Call) and call_name(e) == "values" and dotted(e.func.value) == "self.blocks_dict"
    pl = [g0 for g0 in gens if is_values(g0[1])]
    rl = [g0 for g0 in gens if isinstance(g0[1], ast.Call) and call_name(g0[1]) == "range"]
    okp = len(pl) == 2 and len(rl) == 2 and len(gens) == 4 and all(g0[0] for g0 in gens)
    ctx.ob("R-ORTHO", "BlockPartition.add_partition_constraints::all points x all points", okp,
           "two loops over all decomposed points (full cross product) and two over block indices" if okp else
           "loop nest is %s" % [src(g0[1]) for g0 in gens], loc(fn, loop_nodes[0] if loop_nodes else fn))
    if not okp:
        return
    a, b = pl[0][0], pl[1][0]
    k, l = rl[0][0], rl[1][0]
    # body: A[k] * B[l] == 0
    arg = add.args[0]
    okb = isinstance(arg, ast.Compare) and isinstance(arg.ops[0], ast.Eq) and is_const(arg.comparators[0], 0) and isinstance(arg.left, ast.BinOp) \
        and isinstance(arg.left.op, ast.Mult)
    if okb:
        f1, f2 = arg.left.left, arg.left.right
        idx = set()
        for f in (f1, f2):
            if isinstance(f, ast.Subscript) and isinstance(f.value, ast.Name) and isinstance(f.slice, ast.Name):
                idx.add((f.value.id, f.slice.id))
        okb = idx in ({(a, k), (b, l)}, {(a, l), (b, k)})
    ctx.ob("R-ORTHO", "BlockPartition.add_partition_constraints::inner product of two blocks == 0", okb,
           "each relation is <block k of one point, block l of another> == 0" if okb else "the emitted relation is `%s`" % src(arg), loc(fn, add))
    # (k, l) domain for d = 1..4
    for d in (1, 2, 3, 4):
        pairs = []
        try:
            for kv in _range_vals(rl[0][1], {"d": d}):
                for lv in _range_vals(rl[1][1], {"d": d, k: kv}):
                    pairs.append((kv, lv))
        except AnalysisError as e:
            ctx.ob("R-ORTHO", "BlockPartition.add_partition_constraints::block pairs d=%d" % d, False, str(e), loc(fn, rl[0][2]))
            continue
        want = {frozenset((x, y)) for x in range(d) for y in range(d) if x != y}
        got = [frozenset(p) for p in pairs]
        ok = all(len(p) == 2 for p in got) and set(got) == want and len(got) == len(set(got))
        ctx.ob("R-ORTHO", "BlockPartition.add_partition_constraints::block pairs d=%d" % d, ok,
               "every unordered pair of distinct blocks exactly once (%d pairs)" % len(want) if ok else
               "block index pairs %s; expected every unordered pair of distinct blocks of range(%d) exactly once and no pair (k, k)" % (sorted(pairs), d), loc(fn, rl[0][2]))


def _harmless(e):
    """a local bound to a view / range / list of index tuples: no effect, nothing generated"""
    for n in ast.walk(e):
        if isinstance(n, ast.Call) and call_name(n) not in ("values", "keys", "items", "range", "len", "get_nb_blocks", "list", "tuple", "product", "combinations"):
            return False
        if isinstance(n, (ast.Lambda, ast.Await, ast.Yield, ast.NamedExpr)):
            return False
    return True


def _range_vals(call, env):
    def ev(n):
        if isinstance(n, ast.Constant) and isinstance(n.value, int):
            return n.value
        if dotted(n) == "self.d" or (isinstance(n, ast.Call) and call_name(n) == "get_nb_blocks"):
            return env["d"]
        if isinstance(n, ast.Name) and n.id in env:
            return env[n.id]
        if isinstance(n, ast.BinOp) and isinstance(n.op, (ast.Add, ast.Sub)):
            a, b = ev(n.left), ev(n.right)
            return a + b if isinstance(n.op, ast.Add) else a - b
        raise AnalysisError("range bound `%s` outside the analysed fragment" % src(n))
    return list(range(*[ev(a) for a in call.args]))


def _no_relation_guard(t, br, var):
    """`p.get_nb_blocks() > 1`, `p.d >= 2`, `p.blocks_dict` (non-empty): partitions skipped by these have no pair of distinct blocks / no point"""
    if not br:
        return False
    if isinstance(t, ast.Compare) and len(t.ops) == 1 and isinstance(t.comparators[0], ast.Constant):
        l = t.left
        subj = (isinstance(l, ast.Call) and call_name(l) == "get_nb_blocks" and dotted(l.func.value) == var) or dotted(l) == var + ".d"
        if subj and ((isinstance(t.ops[0], ast.Gt) and t.comparators[0].value in (0, 1)) or (isinstance(t.ops[0], ast.GtE) and t.comparators[0].value in (1, 2))
                     or (isinstance(t.ops[0], ast.NotEq) and t.comparators[0].value == 1)):
            return True
        if isinstance(l, ast.Call) and call_name(l) == "len" and l.args and dotted(l.args[0]) == var + ".blocks_dict" and \
                ((isinstance(t.ops[0], ast.Gt) and t.comparators[0].value == 0) or (isinstance(t.ops[0], ast.GtE) and t.comparators[0].value == 1)):
            return True
    return dotted(t) == var + ".blocks_dict"


def r_strong_registry(ctx):
    """blocks_dict keeps the decomposed points alive: a point decomposed through a temporary (`partition.get_block(y - x, k)`) stays a key, so
    its blocks are still there when the relations are generated."""
    bp = ctx.repo.cls("BlockPartition")
    inits = []
    for fn in bp.methods.values():
        for s0 in flow.stmts_of(fn, ast.Assign):
            if any(dotted(t) == "self.blocks_dict" for t in s0.targets):
                inits.append((fn, s0))
    if not inits:
        raise AnalysisError("BlockPartition: no initialisation of blocks_dict found")
    for fn, s0 in inits:
        v = s0.value
        weak = [c for c in ast.walk(v) if isinstance(c, ast.Call) and (call_name(c) or "").startswith("Weak") or
                (isinstance(c, ast.Call) and (dotted(c.func) or "").startswith("weakref."))]
        ctx.ob("R-MEMOBLK", "BlockPartition.%s::blocks_dict holds its keys" % fn.name, not weak,
               "the decomposition table is an ordinary mapping: decomposed points stay registered" if not weak else
               "`%s`: the table drops a decomposed point as soon as the program holds no other reference to it (any point decomposed through a "
               "temporary combination), and its blocks get no orthogonality relation" % norm_stmt(s0), loc(fn, s0))


def r_registered(ctx):
    """Every partition is registered and the solve root generates and drains the relations of every registered partition."""
    sub = Ctx(ctx.prop, ctx.repo, ctx.tier)
    pepsolve.r_drain(sub)
    for o in sub.obligations:
        if o.key.startswith("BlockPartition."):
            ctx.obligations.append(o)
    root = common.solve_root(ctx.repo)
    calls = [c for c in ast.walk(root) if isinstance(c, ast.Call) and call_name(c) == "add_partition_constraints"]
    ok = False
    msg = "add_partition_constraints is not called in a loop over the partition registry"
    if len(calls) == 1:
        lp = flow.in_loop(common.stmt_of(calls[0]))
        base_it, enum = iter_base(lp.iter) if lp is not None else (None, False)
        tgt = (lp.target.elts[1] if enum and isinstance(lp.target, ast.Tuple) and len(lp.target.elts) == 2 else lp.target) if lp is not None else None
        if lp is not None and dotted(base_it) == "BlockPartition.list_of_partitions" and isinstance(tgt, ast.Name) \
                and dotted(calls[0].func.value) == tgt.id and not flow.conditions_guarding(lp):
            ok, msg = True, "the relations of every registered partition are generated at each solve"
            # a guard between the loop header and the call is harmless only when it skips partitions that have no relation at all
            for t, br, _ in flow.conditions_guarding(common.stmt_of(calls[0])):
                if not _no_relation_guard(t, br, tgt.id):
                    ok = False
                    msg = ("the relations of a registered partition are generated only if `%s%s`: the relations of points decomposed since the last "
                           "generation are never imposed" % ("" if br else "not ", src(t)))
            early = [x for x in flow.stmts_of_block(lp.body) if isinstance(x, (ast.Break, ast.Continue, ast.Return)) and x.lineno < calls[0].lineno]
            if ok and early:
                ok, msg = False, "the loop over the partitions can skip the generation (`%s` at line %d)" % (norm_stmt(early[0]), early[0].lineno)
    ctx.ob("R-PARTREG", "PEP.%s::generate for every registered partition" % root.name, ok, msg, loc(root, calls[0] if calls else root))


def run(ctx):
    r_blocks(ctx)
    r_strong_registry(ctx)
    r_ortho(ctx)
    r_registered(ctx)
    pepsolve.r_fresh_declarations(ctx, only=("declare_block_partition",))
    formula.r_formula(ctx, "sound", only={"BlockSmoothConvexFunction"})
    formula.r_formula(ctx, "complete", only={"BlockSmoothConvexFunction"})
