"""Consumers of an expression decomposition: R-KEYKINDS (sibling agreement of the four consumers), R-TRANSL (dense and
sparse translators), R-LEAFREG (leaf registries / post-solve assignment), R-EVALSHAPE (accumulation loops of eval)."""
import ast
from fractions import Fraction
from ..model import (AnalysisError, src, loc, call_name, dotted, qualname, norm_stmt, params_of, is_const, get_arg)
from ..nf import Evaluator, Rat, to_rat
from .. import flow
from . import common


# ---------------------------------------------------------------------------------------------------
# the three key kinds of an expression decomposition
# ---------------------------------------------------------------------------------------------------
def _key_kind(test, keyvar, type_aliases=()):
    """'leaf' for type(k) == Expression, 'pair' for type(k) == tuple, 'const' for k == 1."""
    if isinstance(test, ast.Compare) and len(test.ops) == 1 and isinstance(test.ops[0], (ast.Eq, ast.Is)):
        l, r = test.left, test.comparators[0]
        if (isinstance(l, ast.Call) and call_name(l) == "type" and l.args and dotted(l.args[0]) == keyvar) or (isinstance(l, ast.Name) and l.id in type_aliases):
            if dotted(r) == "Expression":
                return "leaf"
            if dotted(r) == "tuple":
                return "pair"
        if dotted(l) == keyvar and is_const(r, 1):
            return "const"
    if isinstance(test, ast.Call) and call_name(test) == "isinstance" and len(test.args) == 2 and dotted(test.args[0]) == keyvar:
        if dotted(test.args[1]) == "Expression":
            return "leaf"
        if dotted(test.args[1]) == "tuple":
            return "pair"
    return None


class Consumer:
    pass


def find_consumers(repo):
    """Loops `for key[, weight] in <expr>.decomposition_dict[.items()]` whose body dispatches on the key kind."""
    out = []
    for fn in repo.all_functions():
        for lp in flow.stmts_of(fn, ast.For):
            it = lp.iter
            base = it.func.value if isinstance(it, ast.Call) and call_name(it) in ("items", "keys") else it
            if isinstance(base, ast.Name):
                base = flow._single_def(fn, base.id) or base
            if not (isinstance(base, ast.Attribute) and base.attr == "decomposition_dict"):
                continue
            if isinstance(lp.target, ast.Tuple) and len(lp.target.elts) == 2:
                key, weight = lp.target.elts[0].id, lp.target.elts[1].id
            elif isinstance(lp.target, ast.Name):
                key, weight = lp.target.id, None
            else:
                continue
            # locals bound to type(key) before the dispatch
            aliases = set()
            for st0 in lp.body:
                if isinstance(st0, ast.Assign) and isinstance(st0.targets[0], ast.Name) and isinstance(st0.value, ast.Call) and call_name(st0.value) == "type" \
                        and st0.value.args and dotted(st0.value.args[0]) == key:
                    aliases.add(st0.targets[0].id)
            tests = [n.test for n in ast.walk(ast.Module(body=lp.body, type_ignores=[])) if isinstance(n, ast.If)]
            if not any(_key_kind(x, key, aliases) for t in tests for x in ast.walk(t)):
                continue
            from ..absint import bool_decider
            kinds = {}
            closed = False
            for K in ("leaf", "pair", "const", "other"):
                def atom(t, K=K):
                    k = _key_kind(t, key, aliases)
                    return None if k is None else (k == K)
                body, term = flow.specialise(lp.body, bool_decider(atom))
                body = [x for x in body if not (isinstance(x, ast.Assign) and isinstance(x.targets[0], ast.Name) and x.targets[0].id in aliases)]
                if K == "other":
                    closed = flow.always_raises(body)
                elif not flow.always_raises(body):
                    kinds[K] = body or [ast.Pass()]
            if not kinds:
                continue
            c = Consumer()
            c.fn, c.loop, c.key, c.weight, c.kinds, c.closed = fn, lp, key, weight, kinds, closed
            c.owner = dotted(base.value)
            out.append(c)
    return out


def r_keykinds(ctx):
    """Each consumer of a decomposition is decided by unrolling it (both translators: rules/translprog.py; Expression.eval and the walk over the
    LMIs after a solve: rules/leafprog.py) -- every kind of key handled with its own indices / values, any other kind raises.  The structural
    clauses below apply to a consumer whose program is outside the interpreted fragment, and to consumers no program is written for."""
    from . import translprog, leafprog
    decided = set()
    try:
        translprog.r_translators(ctx)
        decided |= {"expression_to_matrices", "expression_to_sparse_matrices"}
    except AnalysisError as ex:
        ctx.notes.append("R-KEYKINDS: translator programs: %s -- structural clauses applied" % ex)
    try:
        if getattr(ctx, "_evalprog_done", None) is None:
            leafprog.r_expression_eval_program(ctx)
            ctx._evalprog_done = True
        decided.add("Expression.eval")
    except AnalysisError as ex:
        ctx.notes.append("R-KEYKINDS: Expression.eval program: %s -- structural clauses applied" % ex)
    try:
        if getattr(ctx, "_assignprog_done", None) is None:
            leafprog.r_assignment_program(ctx)
            ctx._assignprog_done = True
        fn0 = leafprog.assignment_fn(ctx.repo)
        if fn0 is not None:
            decided.add(qualname(fn0))
    except AnalysisError as ex:
        if isinstance(ex, leafprog.Undecided):
            raise
        ctx.notes.append("R-KEYKINDS: post-solve program: %s -- structural clauses applied" % ex)
    try:
        cons = find_consumers(ctx.repo)
    except AnalysisError:
        if len(decided) >= 4:
            ctx.count("decomposition consumers", len(decided))
            return
        raise
    ctx.count("decomposition consumers", max(len(cons), len(decided)))
    for c in cons:
        name = qualname(c.fn)
        if name in decided:
            continue
        ctx.unit(name)
        key = "%s::%s" % (c.fn._module.rel, name)
        missing = {"leaf", "pair", "const"} - set(c.kinds)
        ctx.ob("R-KEYKINDS", key + "::three kinds", not missing,
               "dispatches on leaf expression / pair of points / constant" if not missing else
               "keys of kind %s raise instead of being handled" % sorted(missing), loc(c.fn, c.loop))
        closed = c.closed
        ctx.ob("R-KEYKINDS", key + "::closed", closed, "any other key raises" if closed else "a key of another kind is silently ignored", loc(c.fn, c.loop))
        # leaf: addressed by the key's own index; pair: by the two points' own indices
        if "leaf" in c.kinds:
            owners = [dotted(n.value) for n in ast.walk(ast.Module(body=c.kinds["leaf"], type_ignores=[])) if isinstance(n, ast.Attribute) and n.attr == "counter"]
            ok = all(o == c.key for o in owners) and (bool(owners) or _calls_eval_on(c.kinds["leaf"], c.key))
            ctx.ob("R-KEYKINDS", key + "::leaf by own index", ok,
                   "a leaf expression is addressed by its own index (or evaluated itself)" if ok else
                   "the leaf-expression branch uses the index of %s" % sorted(set(o for o in owners if o != c.key)), loc(c.fn, c.kinds["leaf"][0]))
        if "pair" in c.kinds:
            body = c.kinds["pair"]
            un = [s for s in body if isinstance(s, ast.Assign) and isinstance(s.targets[0], ast.Tuple) and dotted(s.value) == c.key and len(s.targets[0].elts) == 2]
            okp = len(un) == 1
            if okp:
                p1, p2 = [e.id for e in un[0].targets[0].elts]
                cs = set()
                for n in ast.walk(ast.Module(body=body, type_ignores=[])):
                    if isinstance(n, ast.Attribute) and n.attr == "counter":
                        cs.add(dotted(n.value))
                okp = cs <= {p1, p2} and (cs == {p1, p2} or (not cs and _calls_eval_on(body, p1) and _calls_eval_on(body, p2)))
            ctx.ob("R-KEYKINDS", key + "::pair by own indices", okp,
                   "an inner product is addressed by the indices (or values) of its own two points" if okp else
                   "the pair branch does not use exactly the two points of the key", loc(c.fn, body[0]))




def _calls_eval_on(body, name):
    for n in ast.walk(ast.Module(body=body, type_ignores=[])):
        if isinstance(n, ast.Call) and call_name(n) == "eval" and dotted(n.func.value) == name:
            return True
    return False


# ---------------------------------------------------------------------------------------------------
# R-TRANSL
# ---------------------------------------------------------------------------------------------------
def r_transl(ctx):
    """Both translators are decided as programs on abstract expressions (rules/translprog.py); here only: the MOSEK back-end uses the sparse one."""
    from . import translprog
    repo = ctx.repo
    n = translprog.r_translators(ctx)
    mb = [b for b in common.backends(repo) if "mosek" in b.name.lower()][0]
    used = {call_name(c2) for f in mb.methods.values() for c2 in ast.walk(f) if isinstance(c2, ast.Call) and (call_name(c2) or "").startswith("expression_to_")}
    ctx.ob("R-TRANSL", "MosekWrapper::uses the sparse translator", used == {"expression_to_sparse_matrices"},
           "every MOSEK row is built from the sparse translation" if used == {"expression_to_sparse_matrices"} else "uses %s" % sorted(used), mb.module.rel)
    cb = [b for b in common.backends(repo) if "cvxpy" in b.name.lower()][0]
    usedc = {call_name(c2) for f in cb.methods.values() for c2 in ast.walk(f) if isinstance(c2, ast.Call) and (call_name(c2) or "").startswith("expression_to_")}
    ctx.ob("R-TRANSL", "CvxpyWrapper::uses the dense translator", usedc == {"expression_to_matrices"},
           "every cvxpy expression is built from the dense translation" if usedc == {"expression_to_matrices"} else "uses %s" % sorted(usedc), cb.module.rel)
    return n




# ---------------------------------------------------------------------------------------------------
# R-LEAFREG
# ---------------------------------------------------------------------------------------------------
def r_leafreg(ctx):
    """Decided by unrolling the constructors and the post-solve assignment (rules/leafprog.py); the shape rules below are the fallback for a
    routine that leaves the interpreter's fragment."""
    from . import leafprog
    try:
        leafprog.r_leaf_creation(ctx)
    except AnalysisError as ex:
        ctx.notes.append("R-LEAFREG: %s -- shape rules applied instead" % ex)
        _leafreg_ctor_shape(ctx)
    try:
        if getattr(ctx, "_assignprog_done", None) is None:
            leafprog.r_assignment_program(ctx)
            ctx._assignprog_done = True
    except AnalysisError as ex:
        if isinstance(ex, leafprog.Undecided):
            raise
        ctx.notes.append("R-LEAFREG: %s -- shape rules applied instead" % ex)
        _leafreg_assign_shape(ctx)


def _leafreg_ctor_shape(ctx):
    repo = ctx.repo
    for cname, reg in (("Point", "list_of_leaf_points"), ("Expression", "list_of_leaf_expressions")):
        init = repo.method(cname, "__init__")
        ctx.unit("%s.__init__" % cname)
        leaf_if = [s for s in init.body if isinstance(s, ast.If) and dotted(s.test) == "is_leaf"]
        ok = len(leaf_if) == 1
        msg = "no `if is_leaf:` split in the constructor"
        if ok:
            body = leaf_if[0].body
            take = [s for s in body if isinstance(s, ast.Assign) and dotted(s.targets[0]) == "self.counter" and dotted(s.value) == cname + ".counter"]
            inc = [s for s in body if isinstance(s, ast.AugAssign) and dotted(s.target) == cname + ".counter" and isinstance(s.op, ast.Add) and is_const(s.value, 1)]
            app = [s for s in body if isinstance(s, ast.Expr) and isinstance(s.value, ast.Call) and call_name(s.value) == "append"
                   and dotted(s.value.func.value) == "%s.%s" % (cname, reg) and dotted(s.value.args[0]) == "self"]
            dec = [s for s in body if isinstance(s, ast.Assign) and dotted(s.targets[0]) == "self.decomposition_dict"]
            ok = len(take) == 1 and len(inc) == 1 and len(app) == 1 and take[0].lineno < inc[0].lineno and len(dec) == 1 and \
                src(dec[0].value).replace(" ", "") == "{self:1}"
            msg = "a leaf takes the class counter as its index, increments it, registers itself and decomposes as {self: 1}" if ok else \
                "leaf branch: index taken %d, counter incremented %d, registered %d (in this order), self-decomposition %d" % (len(take), len(inc), len(app), len(dec))
            # nothing else takes an index
            others = [s for s in flow.stmts_of(init, ast.AugAssign) if dotted(s.target) == cname + ".counter" and s not in inc]
            if ok and others:
                ok, msg = False, "the class counter is also changed outside the leaf branch"
            nl = leaf_if[0].orelse
            nonleaf_counter = [s for s in nl if isinstance(s, ast.Assign) and dotted(s.targets[0]) == "self.counter" and is_const(s.value) and s.value.value is None]
            if ok and len(nonleaf_counter) != 1:
                ok, msg = False, "a derived object does not get index None"
        ctx.ob("R-LEAFREG", "%s.__init__::leaf creation lock-step" % cname, ok, msg, loc(init, init))


def _leafreg_assign_shape(ctx):
    repo = ctx.repo
    # post-solve assignment: whole registries, own indices
    pep = common.pep_class(repo)
    fn = None
    for f in pep.methods.values():
        if sum(1 for s in flow.stmts_of(f, ast.For) if dotted(s.iter) in ("Point.list_of_leaf_points", "Expression.list_of_leaf_expressions")) >= 2:
            fn = f
    if fn is None:
        ctx.ob("R-LEAFREG", "PEP::post-solve assignment iterates both registries", False,
               "no PEP method iterates both leaf registries to assign values", pep.module.rel)
        return
    ctx.unit(qualname(fn))
    for reg, idxshape in (("Point.list_of_leaf_points", "points"), ("Expression.list_of_leaf_expressions", "F")):
        loops = [s for s in flow.stmts_of(fn, ast.For) if dotted(s.iter) == reg]
        ok = len(loops) == 1 and isinstance(loops[0].target, ast.Name) and not flow.conditions_guarding(loops[0]) and flow.in_loop(loops[0]) is None
        msg = "whole registry iterated unconditionally"
        if ok:
            v = loops[0].target.id
            st = [s for s in loops[0].body if isinstance(s, ast.Assign) and dotted(s.targets[0]) == v + "._value"]
            ok = len(st) == 1 and len(loops[0].body) == 1 and isinstance(st[0].value, ast.Subscript)
            if ok:
                sl = src(st[0].value.slice).replace(" ", "").strip("()")
                base = dotted(st[0].value.value)
                if idxshape == "points":
                    ok = sl == ":,%s.counter" % v
                else:
                    ok = sl == "%s.counter" % v and base == params_of(fn)[1]
                msg = "each leaf receives the solver value at its own index" if ok else "leaf value read at `%s[%s]`" % (base, sl)
            else:
                msg = "loop body is not a single assignment of the leaf value"
        ctx.ob("R-LEAFREG", "PEP.%s::%s" % (fn.name, reg), ok, msg, loc(fn, loops[0] if loops else fn))
    reass = []
    for pn in params_of(fn)[1:3]:
        for n0 in ast.walk(fn):
            if isinstance(n0, ast.Name) and n0.id == pn and isinstance(n0.ctx, ast.Store):
                reass.append(pn)
    ctx.ob("R-LEAFREG", "PEP.%s::solver output used as given" % fn.name, not reass,
           "the Gram matrix and the function values are factorised / read as the solver returned them" if not reass else
           "`%s` is replaced inside the function before the leaves are evaluated (e.g. by an eigenvalue-thresholded matrix): the instance no longer "
           "reproduces the Gram matrix that is published and constraints need not hold at it" % reass[0], loc(fn, fn))
    # points_values: columns of the triangular factor of sqrt(eig) * eigvec^T
    qr = [s for s in flow.stmts_of(fn, ast.Assign) if isinstance(s.value, ast.Call) and call_name(s.value) == "qr"]
    okq = len(qr) == 1 and any(k.arg == "mode" and is_const(k.value, "r") for k in qr[0].value.keywords)
    if okq:
        a = qr[0].value.args[0]
        # transpose of (sqrt(eigenvalues) * eigenvectors), with both names coming from one eigh() of the Gram argument
        okq = isinstance(a, ast.Attribute) and a.attr == "T" and isinstance(a.value, ast.BinOp) and isinstance(a.value.op, ast.Mult)
        if okq:
            sides = [a.value.left, a.value.right]
            sq = [x for x in sides if isinstance(x, ast.Call) and call_name(x) == "sqrt" and len(x.args) == 1 and isinstance(x.args[0], ast.Name)]
            ot = [x for x in sides if isinstance(x, ast.Name)]
            eig = [s2 for s2 in flow.stmts_of(fn, ast.Assign) if isinstance(s2.value, ast.Call) and call_name(s2.value) == "eigh" and isinstance(s2.targets[0], ast.Tuple)]
            okq = len(sq) == 1 and len(ot) == 1 and len(eig) == 1 and [e.id for e in eig[0].targets[0].elts] == [sq[0].args[0].id, ot[0].id] \
                and dotted(eig[0].value.args[0]) == params_of(fn)[2]
    ctx.ob("R-LEAFREG", "PEP.%s::factorisation" % fn.name, okq,
           "point coordinates are the triangular factor of (sqrt(eigenvalues) * eigenvectors)^T, so that their inner products reproduce the Gram matrix" if okq else
           "the factor the point coordinates are read from is not qr((sqrt(eig_val) * eig_vec).T, mode='r')", loc(fn, qr[0] if qr else fn))
    clip = [s for s in flow.stmts_of(fn, ast.Assign) if isinstance(s.value, ast.Call) and call_name(s.value) == "maximum"]
    okc = len(clip) == 1 and len(clip[0].value.args) == 2 and is_const(clip[0].value.args[1], 0) and isinstance(clip[0].value.args[0], ast.Name) \
        and dotted(clip[0].targets[0]) == clip[0].value.args[0].id and clip[0].lineno < (qr[0].lineno if qr else 0)
    if okc:
        conds = flow.conditions_guarding(clip[0])
        okc = all(not _mentions_verbose(t) for t, _, _ in conds)
        # the only admissible guard is "some eigenvalue is negative" (clipping is a no-op otherwise)
        ev = clip[0].value.args[0].id
        for t, br, _ in conds:
            neg = None
            if isinstance(t, ast.Compare) and len(t.ops) == 1 and is_const(t.comparators[0]) and t.comparators[0].value == 0:
                l = t.left
                if isinstance(l, ast.Name):
                    l = flow._single_def(fn, l.id) or l
                is_min = isinstance(l, ast.Call) and call_name(l) in ("min", "amin") and l.args and dotted(l.args[0]) == ev
                if is_min and isinstance(t.ops[0], (ast.Lt, ast.LtE)):
                    neg = True
                elif is_min and isinstance(t.ops[0], (ast.GtE, ast.Gt)):
                    neg = False
            if neg is None or neg != br:
                okc = False
    ctx.ob("R-LEAFREG", "PEP.%s::negative eigenvalues clipped" % fn.name, okc,
           "negative eigenvalues are clipped to 0 whatever the verbosity" if okc else "eigenvalue clipping missing, under a verbosity guard, or not executed when an eigenvalue is negative (the square root then yields NaN coordinates)", loc(fn, fn))


def _mentions_verbose(test):
    return any((isinstance(n, ast.Name) and n.id == "verbose") or (isinstance(n, ast.Attribute) and n.attr == "verbose") for n in ast.walk(test))


# ---------------------------------------------------------------------------------------------------
# R-EVALSHAPE
# ---------------------------------------------------------------------------------------------------
def r_evalshape(ctx):
    repo = ctx.repo
    from . import c16 as _c16
    _c16.ensure_accessor_programs(ctx)        # the accessors unrolled before / after a solve: they decide where a structural clause below is not met
    from . import leafprog
    try:
        if getattr(ctx, "_evalprog_done", None) is None:
            leafprog.r_expression_eval_program(ctx)
            ctx._evalprog_done = True
    except AnalysisError as ex:
        ctx.notes.append("R-EVALSHAPE: %s -- only the shape rules apply" % ex)
    # Point.eval
    fn = repo.method("Point", "eval")
    ctx.unit("Point.eval")
    loops = [l for l in flow.stmts_of(fn, ast.For) if isinstance(l.iter, ast.Call) and call_name(l.iter) == "items" and dotted(l.iter.func.value) == "self.decomposition_dict"]
    ok = len(loops) == 1
    msg = "no loop over all items of the decomposition"
    if ok:
        lp = loops[0]
        k, w = [e.id for e in lp.target.elts]
        acc = [s for s in lp.body if isinstance(s, ast.AugAssign)]
        ok = len(lp.body) == 1 and len(acc) == 1 and isinstance(acc[0].op, ast.Add) and _is_product(acc[0].value, w, "%s.eval()" % k)
        msg = "value = sum over all items of weight * operand value" if ok else "accumulation is `%s`" % (norm_stmt(lp.body[0])[:60])
        if ok:
            accn = acc[0].target.id
            ini = [s for s in flow.stmts_of(fn, ast.Assign) if any(isinstance(t, ast.Name) and t.id == accn for t in s.targets)]
            ok = len(ini) == 1 and isinstance(ini[0].value, ast.Call) and call_name(ini[0].value) == "zeros" and ini[0].lineno < lp.lineno
            st = [s for s in flow.stmts_of(fn, ast.Assign) if any(dotted(t) == "self._value" for t in s.targets)]
            ok = ok and len(st) == 1 and dotted(st[0].value) == accn and st[0].lineno > lp.lineno
            if not ok:
                msg = "accumulator not started from zeros / not stored as the value"
            pc = flow.path_counts(lp.body, lambda n: False)
            if set(pc) != {"next"}:
                ok, msg = False, "the accumulation loop can exit early"
    ctx.ob_or_program(("accessor", "Point", "eval"), "R-EVALSHAPE", "Point.eval::linear combination", ok, msg, loc(fn, fn))
    # Expression.eval
    fn = repo.method("Expression", "eval")
    ctx.unit("Expression.eval")
    cons = [c for c in find_consumers(repo) if c.fn is fn]
    ok = len(cons) == 1
    msg = "no key-kind dispatch"
    if ok:
        c = cons[0]
        want = {"leaf": "%s.eval()" % c.key, "pair": None, "const": None}
        accs = {}
        for kind, body in c.kinds.items():
            a = [s for s in body if isinstance(s, ast.AugAssign) and isinstance(s.op, ast.Add)]
            accs[kind] = a
        ok = all(len(accs.get(k, [])) == 1 for k in ("leaf", "pair", "const"))
        msg = "each key kind adds exactly one term"
        if ok:
            names = {accs[k][0].target.id for k in accs}
            okl = _is_product(accs["leaf"][0].value, c.weight, "%s.eval()" % c.key)
            p = [s for s in c.kinds["pair"] if isinstance(s, ast.Assign) and isinstance(s.targets[0], ast.Tuple)]
            okp = False
            if p:
                p1, p2 = [e.id for e in p[0].targets[0].elts]
                v = accs["pair"][0].value
                okp = isinstance(v, ast.BinOp) and isinstance(v.op, ast.Mult) and any(dotted(x) == c.weight for x in (v.left, v.right)) and \
                    any(isinstance(x, ast.Call) and call_name(x) == "dot" and {src(a) for a in x.args} == {"%s.eval()" % p1, "%s.eval()" % p2} for x in (v.left, v.right))
            okc = dotted(accs["const"][0].value) == c.weight
            ok = len(names) == 1 and okl and okp and okc
            msg = "value = sum of weight*F-value + weight*<p1, p2> + constant" if ok else \
                "terms: leaf %s, pair %s, const %s, one accumulator %s" % (okl, okp, okc, len(names) == 1)
            if ok:
                accn = names.pop()
                ini = [s for s in flow.stmts_of(fn, ast.Assign) if any(isinstance(t, ast.Name) and t.id == accn for t in s.targets)]
                st = [s for s in flow.stmts_of(fn, ast.Assign) if any(dotted(t) == "self._value" for t in s.targets)]
                ok = len(ini) == 1 and is_const(ini[0].value) and ini[0].value.value == 0 and len(st) == 1 and dotted(st[0].value) == accn and st[0].lineno > c.loop.lineno
                if not ok:
                    msg = "accumulator not started from 0 / not stored as the value"
    ctx.ob_or_program(("accessor", "Expression", "eval"), "R-EVALSHAPE", "Expression.eval::affine-bilinear combination", ok, msg, loc(fn, fn))
    # Constraint.eval evaluates its own expression; PSDMatrix.eval every entry in place
    fn = repo.method("Constraint", "eval")
    st = [s for s in flow.stmts_of(fn, ast.Assign) if any(dotted(t) == "self._value" for t in s.targets)]
    ok = len(st) == 1
    if ok:
        v = st[0].value
        if isinstance(v, ast.Name):
            d = [s2 for s2 in flow.stmts_of(fn, ast.Assign) if dotted(s2.targets[0]) == v.id]
            v = d[0].value if len(d) == 1 else v
        ok = src(v) == "self.expression.eval()"
    ctx.ob_or_program(("accessor", "Constraint", "eval"), "R-EVALSHAPE", "Constraint.eval::value of its expression", ok, "the value of a constraint is the value of its expression" if ok else "value is `%s`" % (src(st[0].value) if st else "?"), loc(fn, fn))
    fn = repo.method("PSDMatrix", "eval")
    st = [s for s in flow.stmts_of(fn, ast.Assign) if any(dotted(t) == "self._value" for t in s.targets)]
    ok = len(st) == 1 and _entrywise_eval(st[0].value)
    ctx.ob_or_program(("accessor", "PSDMatrix", "eval"), "R-EVALSHAPE", "PSDMatrix.eval::entrywise values", ok, "entry (i, j) of the value is the value of entry (i, j)" if ok else "value is `%s`" % (src(st[0].value)[:80] if st else "?"), loc(fn, fn))


def _is_product(v, a, btext):
    return isinstance(v, ast.BinOp) and isinstance(v.op, ast.Mult) and {src(v.left), src(v.right)} == {a, btext}


def _entrywise_eval(v):
    """np.array([[e.eval() for e in line] for line in self.matrix_of_expressions]) up to local names"""
    if isinstance(v, ast.Call) and call_name(v) == "array" and v.args:
        v = v.args[0]
    if not (isinstance(v, ast.ListComp) and len(v.generators) == 1 and not v.generators[0].ifs):
        return False
    outer = v.generators[0]
    inner = v.elt
    if not (dotted(outer.iter) == "self.matrix_of_expressions" and isinstance(outer.target, ast.Name)):
        return False
    if not (isinstance(inner, ast.ListComp) and len(inner.generators) == 1 and not inner.generators[0].ifs):
        return False
    g = inner.generators[0]
    return dotted(g.iter) == outer.target.id and isinstance(g.target, ast.Name) and isinstance(inner.elt, ast.Call) \
        and call_name(inner.elt) == "eval" and dotted(inner.elt.func.value) == g.target.id and not inner.elt.args


class _Skip(Exception):
    pass


