"""C01 -- the returned upper bound is backed by a complete, checkable dual certificate."""
from . import pepsolve, wrappers, formula, dictops, mosekprog, solveprog

LEVEL = "other"
EXPLANATION = ("Structure of the certificate bookkeeping on every path: every send is paired with the tracking append of the same object and the "
               "reconstruction ranges over exactly the tracked lists (R-PAIR); both back-ends track each sent object once and the base class aligns "
               "multiplier k+1 with tracked object k (R-TRACK); symbolic producer/consumer equation between the solver constraints an object emits and "
               "the slots the cvxpy recovery skips (R-SLOTS); the proof reconstruction unrolled on an abstract solved model and compared, in an exact "
               "vector-space calculus, with objective + <R, G> + sum <D, M> - sum l e, together with the MOSEK dual transformation "
               "(R-SIGN); dual mode returns the constant of the identity (R-RET); every LMI whose entry-equality multipliers are dropped is symmetric as "
               "written (R-LMIDUAL)."
               ' Also: the residual comes from the single capture before any dimension reduction (R-ORDER), every tracked object contributes to the reconstruction, the dictionary helpers the constant is read through are interpreted per key class, and each back-end hands the solver the constraint as written -- translation compared with zero, no rescaling -- so that the multiplier reported by the solver is the multiplier of the constraint in the identity (R-SENSE).')
TRUSTED = ["CPython ast", "cvxpy dual sign convention for <= / == / >> constraints of a maximisation problem", "MOSEK: y and -barsj are the multipliers in that convention"]
ASSUMPTIONS = ["non-negativity / positive semidefiniteness of the numbers and 'up to solver tolerance' are not decided"]


def run(ctx):
    n = pepsolve.r_pair(ctx)
    solveprog.r_solve_program(ctx, {"track", "duals", "return", "generate"})
    wrappers.r_track(ctx)
    wrappers.r_slots(ctx)
    wrappers.r_mainvars(ctx)    # the residual is the multiplier of `G >> 0`, the one constraint the main variables contribute
    wrappers.r_lmienc(ctx)      # the matrix variable of an LMI carries no constraint of its own besides `M >> 0` (an implicit bound would share the multiplier)
    wrappers.r_sign(ctx)
    wrappers.r_sense(ctx)       # the solver constraint is the constraint as written, unscaled: its multiplier is the constraint's multiplier
    mosekprog.r_mosek_duals(ctx)  # MOSEK: multiplier k is read at the row / matrix variable of tracked object k, for every sequence of kinds up to length 3
    pepsolve.r_ret(ctx)
    pepsolve.r_order(ctx)
    dictops.r_dictops(ctx)      # the constant of the identity is read from prune(symmetrize(decomposition))
    nl = formula.r_class_lmi_symmetric(ctx)
    r_user_lmi(ctx)
    ctx.floor("send/track pairs", n, 5)
    ctx.floor("class LMI builders", nl, 3)


def r_user_lmi(ctx):
    """The user-facing LMI constructor symmetrises or rejects matrices that are not symmetric as written, or the entry multipliers are consumed."""
    import ast
    from ..model import loc, call_name, dotted, src
    from .. import flow
    repo = ctx.repo
    psd = repo.cls("PSDMatrix")
    init = psd.find_method("__init__")
    store = None
    for s0 in init.body:
        if isinstance(s0, ast.Assign) and dotted(s0.targets[0]) == "self.matrix_of_expressions" and isinstance(s0.value, ast.Call):
            store = psd.find_method(call_name(s0.value))
    symmetrises = False
    for f in (store, init):
        if f is None:
            continue
        for n in ast.walk(f):
            if isinstance(n, ast.Attribute) and n.attr == "T":
                symmetrises = True
            if isinstance(n, ast.Call) and call_name(n) in ("allclose", "array_equal") :
                symmetrises = True
    # are the entry multipliers written anywhere and read by the reconstruction?
    written = any(isinstance(t, ast.Attribute) and t.attr == "entries_dual_variable_value" and dotted(t.value) != "self"
                  for f in repo.all_functions() for s in flow.stmts_of(f, ast.Assign) for t in s.targets)
    ok = symmetrises or written
    ctx.ob("R-LMIDUAL", "PSDMatrix::entry-equality multipliers", ok,
           "matrices are symmetrised / checked at construction, or the entry multipliers are recorded" if ok else
           "an LMI sends one equality per entry (i, j) but the multipliers of these equalities are dropped (`entries_dual_variable_value` is never "
           "written) and nothing makes a user matrix symmetric as written: for [[a, t], [s, b]] with t != s the reconstructed certificate misses the "
           "multipliers of the implied equality t = s", loc(init, init))
