"""Role resolution shared by the rules (roles are resolved from structure where cheap, by anchor name otherwise;
a role that cannot be resolved is an AnalysisError, never a silent pass)."""
import ast
from ..model import AnalysisError, call_name, dotted, params_of, src
from .. import flow


def pep_class(repo):
    return repo.cls("PEP")


def solve_root(repo):
    """The PEP method that calls generate_problem on a wrapper."""
    pep = pep_class(repo)
    hits = [f for f in pep.methods.values() if any(call_name(c) == "generate_problem" for c in ast.walk(f) if isinstance(c, ast.Call))]
    if len(hits) != 1:
        raise AnalysisError("solve root (PEP method calling generate_problem) resolves to %d methods" % len(hits))
    return hits[0]


def wrapper_param(root):
    """Name through which the solve root addresses the wrapper (receiver of generate_problem)."""
    for c in ast.walk(root):
        if isinstance(c, ast.Call) and call_name(c) == "generate_problem" and isinstance(c.func, ast.Attribute):
            d = dotted(c.func.value)
            if d:
                return d
    raise AnalysisError("solve root: receiver of generate_problem not resolved")


def wrapper_base(repo):
    return repo.cls("Wrapper")


def backends(repo):
    base = wrapper_base(repo)
    subs = sorted(repo.subclasses(base), key=lambda c: c.name)
    if len(subs) < 2:
        raise AnalysisError("expected at least two back-ends deriving from Wrapper, found %d" % len(subs))
    return subs


def reconstruction_fn(repo):
    """The PEP method that reads eval_dual() of tracked constraints and returns the dual objective."""
    pep = pep_class(repo)
    hits = [f for f in pep.methods.values() if sum(1 for c in ast.walk(f) if isinstance(c, ast.Call) and call_name(c) == "eval_dual") >= 2]
    if len(hits) != 1:
        raise AnalysisError("proof reconstruction function resolves to %d methods" % len(hits))
    return hits[0]


def stmt_of(node):
    while not isinstance(node, ast.stmt):
        node = node._parent
    return node
