"""Role resolution shared by the rules (roles are resolved from structure where cheap, by anchor name otherwise;
a role that cannot be resolved is an AnalysisError, never a silent pass)."""
import ast
from ..model import AnalysisError, call_name, dotted, params_of, src, qualname, loc
from .. import flow


def pep_class(repo):
    return repo.cls("PEP")


def solve_root(repo):
    """The PEP method that calls generate_problem on a wrapper."""
    pep = pep_class(repo)
    hits = [f for f in pep.methods.values() if any(call_name(c) == "generate_problem" for c in ast.walk(f) if isinstance(c, ast.Call))]
    if len(hits) != 1:
        raise AnalysisError("solve root (PEP method calling generate_problem) resolves to %d methods" % len(hits))
    return hits[0]


def wrapper_param(root):
    """Name through which the solve root addresses the wrapper (receiver of generate_problem)."""
    for c in ast.walk(root):
        if isinstance(c, ast.Call) and call_name(c) == "generate_problem" and isinstance(c.func, ast.Attribute):
            d = dotted(c.func.value)
            if d:
                return d
    raise AnalysisError("solve root: receiver of generate_problem not resolved")


def wrapper_base(repo):
    return repo.cls("Wrapper")


def backends(repo):
    base = wrapper_base(repo)
    subs = sorted(repo.subclasses(base), key=lambda c: c.name)
    if len(subs) < 2:
        raise AnalysisError("expected at least two back-ends deriving from Wrapper, found %d" % len(subs))
    return subs


def reconstruction_fn(repo):
    """The PEP method that reads eval_dual() of tracked constraints and returns the dual objective."""
    pep = pep_class(repo)
    hits = [f for f in pep.methods.values() if sum(1 for c in ast.walk(f) if isinstance(c, ast.Call) and call_name(c) == "eval_dual") >= 2]
    if len(hits) != 1:
        raise AnalysisError("proof reconstruction function resolves to %d methods" % len(hits))
    return hits[0]


def stmt_of(node):
    while not isinstance(node, ast.stmt):
        node = node._parent
    return node


# ---------------------------------------------------------------------------------------------------
# R-ARGBIND: a value travels to the parameter of its own name
# ---------------------------------------------------------------------------------------------------
def _positional_params(fn):
    a = fn.args
    names = [x.arg for x in a.posonlyargs + a.args]
    if getattr(fn, "_cls", None) is not None and names and names[0] in ("self", "cls") and \
            not any(isinstance(d, ast.Name) and d.id == "staticmethod" for d in fn.decorator_list):
        names = names[1:]
    return names, [x.arg for x in a.kwonlyargs]


def _origin_of(fn, a, depth=0):
    """A single-assignment local bound to a plain name / attribute stands for that name (`tol = tol_dimension_reduction`)."""
    if isinstance(a, ast.Name) and depth < 4:
        stores = [n for n in ast.walk(fn) if isinstance(n, ast.Name) and isinstance(n.ctx, ast.Store) and n.id == a.id]
        if len(stores) == 1 and a.id not in params_of(fn):
            st = stmt_of(stores[0])
            if isinstance(st, ast.Assign) and len(st.targets) == 1 and st.targets[0] is stores[0] and isinstance(st.value, (ast.Name, ast.Attribute)):
                return _origin_of(fn, st.value, depth + 1)
    return a


def r_argbind(ctx, callees, rule="R-ARGBIND", why=""):
    """Every call, anywhere in the package, of one of the named functions: an argument that is a plain name (or `self.<name>` / `<x>.<name>`)
    spelled like a parameter of the callee is bound to that parameter -- positionally or by keyword -- and not to another one.
    Decided on the resolved callee's signature; calls with *args are reported as not analysable."""
    from .. import effects
    repo = ctx.repo
    n_sites = 0
    n_bound = 0
    for fn in list(repo.all_functions()):
        if True:
            for call in [n for n in ast.walk(fn) if isinstance(n, ast.Call)]:
                nm = call_name(call)
                if nm not in callees:
                    continue
                targets, note = effects.resolve_call(repo, fn, call)
                targets = [t for t in targets if t.name == nm]
                if not targets or note == "external":
                    continue
                n_sites += 1
                for t in targets:
                    pos, kwonly = _positional_params(t)
                    allp = set(pos) | set(kwonly)
                    bad = None
                    if any(isinstance(a, ast.Starred) for a in call.args):
                        continue
                    for i, a in enumerate(call.args):
                        a = _origin_of(fn, a)
                        an = a.id if isinstance(a, ast.Name) else (a.attr if isinstance(a, ast.Attribute) else None)
                        if an is None or an not in allp:
                            continue
                        bound = pos[i] if i < len(pos) else None
                        n_bound += 1
                        if bound != an and bound is not None:
                            # harmless when the callee's parameter of that name receives the same argument by another route
                            bad = (an, bound, i)
                            break
                    for k in call.keywords:
                        if k.arg is None:
                            continue
                        v = _origin_of(fn, k.value)
                        vn = v.id if isinstance(v, ast.Name) else (v.attr if isinstance(v, ast.Attribute) else None)
                        if vn is not None and vn in allp:
                            n_bound += 1
                            if vn != k.arg:
                                bad = (vn, k.arg, "keyword")
                                break
                    key = "%s -> %s::%s" % (qualname(fn), qualname(t), " ".join(src(call.func).split()))
                    # forwarding: an option the caller itself takes under the same name, and the callee gives a default to, is handed over -- otherwise
                    # the caller's argument (validated or not) is silently replaced by the callee's default
                    if getattr(t, "_cls", None) is not None and getattr(fn, "_cls", None) is t._cls and not any(k.arg is None for k in call.keywords if False):
                        own = set(params_of(fn)[1:])
                        given = {pos[i] for i in range(min(len(call.args), len(pos)))} | {k.arg for k in call.keywords if k.arg}
                        defaults = set(pos[len(pos) - len(t.args.defaults):]) | set(kwonly)
                        dropped = sorted(p0 for p0 in allp if p0 in own and p0 in defaults and p0 not in given and p0 != "self")
                        if dropped and not any(k.arg is None and isinstance(k.value, ast.Name) and k.value.id != (fn.args.kwarg.arg if fn.args.kwarg else None) for k in call.keywords):
                            ctx.ob(rule, key + "::forwards its own options", False,
                                   "%s takes `%s` but does not hand it to %s, which then uses its default: the caller's value is ignored%s" % (
                                       qualname(fn), dropped[0], qualname(t), why), loc(fn, call))
                    ctx.ob(rule, key, bad is None,
                           "arguments named like a parameter are bound to that parameter" if bad is None else
                           "`%s` is handed to parameter `%s` of %s (%s), which also has a parameter `%s`: the two values are exchanged%s"
                           % (bad[0], bad[1], qualname(t), "position %s" % bad[2] if bad[2] != "keyword" else "keyword", bad[0], why), loc(fn, call))
    ctx.count("call sites with name-matched arguments", n_sites)
    return n_sites, n_bound
