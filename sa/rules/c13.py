"""C13 -- solving again gives fresh, consistent answers."""
from . import state, formula, translate, solveprog, pepsolve, entryprog

LEVEL = "other"
EXPLANATION = ("Per-solve freshness (new wrapper, rebinding of the tracking lists and of the objective leaf, regeneration of class and "
               "partition constraints before the first send), effect closure of the per-solve roots (every accumulation is reset there, keyed, "
               "under an idempotence guard, or an identifier counter), and memo discipline of the four eval accessors and of the solve root's exits. "
               "Holds for every sequence of solves and edits because the rules bound what can survive from one solve to the next."
               " R-ENTRY: the public entry unrolled on a problem object that holds the back-end of an earlier solve: every call constructs its own."
               ' Also: class constraints are regenerated unconditionally; no accessor memoises a solver-derived result; every registered leaf is re-assigned unconditionally after each successful solve.')
TRUSTED = ["CPython ast", "call resolution and effect summaries of sa/effects.py"]
ASSUMPTIONS = ["equality of returned numbers across solves is not decided (solver determinism)"]


def run(ctx):
    entryprog.r_entry(ctx)       # every call of the public entry constructs its own back-end object and hands that one to the solve root
    state.r_fresh(ctx)
    solveprog.r_solve_program(ctx, {"track", "drain", "duals"})   # nothing left over from an earlier solve is tracked or sent; what is sent is what was just regenerated
    n = state.r_accum(ctx)
    state.r_postsolve(ctx)
    pepsolve.r_registry(ctx)     # registries and their counters are edited by constructors and the reset only: a solve that takes a leaf out renumbers what earlier solves assigned
    pepsolve.r_order(ctx)        # the multipliers of every successful solve are captured, whatever the mode: none survives from an earlier solve
    state.r_memo(ctx)
    state.r_memo_new(ctx)
    state.r_process_memo(ctx, rule="R-MEMO", memo_only=True)   # results kept by functools decorators are not refreshed by a new solve
    formula.r_regen(ctx)
    formula.r_hook_memo(ctx)     # no hook answers from what it stored at an earlier solve
    translate.r_leafreg(ctx)     # every registered leaf is re-assigned, unconditionally, after each successful solve
    ctx.floor("accumulating writes examined", n, 5)
