"""R-DICTOPS -- abstract interpretation of the four dictionary helpers over key classes.

The helpers touch keys only through membership tests, tuple construction / reversal and `isinstance(key, tuple)`,
and coefficients only through + * / and the test `!= 0`.  Their transfer function on one representative per key class
(key only in the first dictionary / only in the second / in both; zero / non-zero coefficient; mirrored pair present /
absent / diagonal pair / non-pair key) therefore determines their behaviour on every dictionary.  The transfer function
is computed from the syntax tree with symbolic coefficients and compared with the specification; operands must be left
untouched.
"""
import ast
from ..model import AnalysisError, src, loc, call_name, dotted, params_of, norm_stmt
from ..nf import Rat, to_rat


class _Unknown(AnalysisError):
    pass


class _Ret(Exception):
    def __init__(self, v):
        self.v = v


class _Continue(Exception):
    pass


class _Break(Exception):
    pass


_NO = object()


class DictInterp:
    def __init__(self, module, depth=0):
        self.module = module
        self.depth = depth

    def call(self, fn, args):
        import copy as _copy
        saved = [dict(a) if isinstance(a, dict) else a for a in args]
        env = dict(zip(params_of(fn), args))
        try:
            self.block(fn.body, env)
        except _Ret as r:
            return r.v
        except _Unknown as why:
            # outside this small interpreter's fragment: the general one (sa/miniint.py) evaluates the same function on the same arguments
            r = self._general(fn, saved)
            if r is _NO:
                raise why
            for a, b in zip(args, saved):
                if isinstance(a, dict) and isinstance(b, dict) and a is not b:
                    a.clear()
                    a.update(b)          # writes the function made to its arguments are made to the caller's objects
                if r is b:
                    r = a                # the function returned its own argument: the caller gets its own object back
            return r
        return None

    def _general(self, fn, args):
        from ..miniint import IndexInterp
        mod = getattr(fn, "_module", None) or self.module
        if getattr(fn, "_cls", None) is not None or mod is None:
            return _NO
        env = dict(zip(params_of(fn), args))
        env.update({"tuple": ("type", "tuple"), "dict": ("type", "dict"), "int": ("type", "int"), "float": ("type", "float")})
        it = IndexInterp(env)
        it.home = (getattr(mod, "repo", None), mod, None) if getattr(mod, "repo", None) is not None else None
        try:
            return it.run(fn.body)
        except AnalysisError:
            return _NO

    def block(self, stmts, env):
        for s in stmts:
            self.stmt(s, env)

    def stmt(self, s, env):
        if isinstance(s, ast.Assign) and len(s.targets) == 1:
            t = s.targets[0]
            v = self.ev(s.value, env)
            if isinstance(t, ast.Name):
                env[t.id] = v
            elif isinstance(t, ast.Subscript) and isinstance(t.value, ast.Name):
                d = env[t.value.id]
                if not isinstance(d, dict):
                    raise _Unknown("subscript store into a non-dictionary")
                d[self.ev(t.slice, env)] = v
            else:
                raise _Unknown("assignment target %s" % src(t))
        elif isinstance(s, ast.AugAssign) and isinstance(s.target, ast.Subscript) and isinstance(s.target.value, ast.Name):
            d = env[s.target.value.id]
            k = self.ev(s.target.slice, env)
            if k not in d:
                raise _Unknown("augmented assignment to a missing key (KeyError at run time)")
            d[k] = self.binop(s.op, d[k], self.ev(s.value, env))
        elif isinstance(s, ast.AugAssign) and isinstance(s.target, ast.Name):
            env[s.target.id] = self.binop(s.op, env[s.target.id], self.ev(s.value, env))
        elif isinstance(s, ast.For):
            items = self.iterate(s.iter, env)
            for it in items:
                self.bind(s.target, it, env)
                try:
                    self.block(s.body, env)
                except _Continue:
                    continue
                except _Break:
                    break
        elif isinstance(s, ast.Continue):
            raise _Continue()
        elif isinstance(s, ast.Break):
            raise _Break()
        elif isinstance(s, ast.If):
            if self.truth(s.test, env):
                self.block(s.body, env)
            else:
                self.block(s.orelse, env)
        elif isinstance(s, ast.Return):
            raise _Ret(self.ev(s.value, env) if s.value is not None else None)
        elif isinstance(s, (ast.Pass, ast.Expr)):
            if isinstance(s, ast.Expr) and isinstance(s.value, ast.Call):
                self.ev(s.value, env)
        else:
            raise _Unknown("statement `%s`" % norm_stmt(s)[:50])

    def bind(self, target, v, env):
        if isinstance(target, ast.Name):
            env[target.id] = v
        elif isinstance(target, (ast.Tuple, ast.List)) and isinstance(v, tuple) and len(v) == len(target.elts):
            for t, x in zip(target.elts, v):
                self.bind(t, x, env)
        else:
            raise _Unknown("loop target %s" % src(target))

    def iterate(self, it, env):
        if isinstance(it, ast.Call) and call_name(it) == "product" and it.args:
            # itertools.product(X, Y, ...): the nested loops it abbreviates
            import itertools as _it
            seqs = [self.iterate(a, env) for a in it.args]
            rep = [k for k in it.keywords if k.arg == "repeat"]
            if rep and isinstance(rep[0].value, ast.Constant) and isinstance(rep[0].value.value, int):
                seqs = seqs * rep[0].value.value
            return [tuple(c) for c in _it.product(*seqs)]
        if isinstance(it, ast.Call) and call_name(it) in ("list", "tuple", "iter") and isinstance(it.func, ast.Name) and len(it.args) == 1:
            return self.iterate(it.args[0], env)
        if isinstance(it, ast.Call) and isinstance(it.func, ast.Attribute) and it.func.attr in ("keys", "items", "values"):
            d = self.ev(it.func.value, env)
            if not isinstance(d, dict):
                raise _Unknown("iteration over %s" % src(it))
            if it.func.attr == "keys":
                return list(d.keys())
            if it.func.attr == "values":
                return list(d.values())
            return [("__pair__", k, v) for k, v in d.items()] and [_Pair(k, v) for k, v in d.items()]
        d = self.ev(it, env)
        if isinstance(d, dict):
            return list(d.keys())
        raise _Unknown("iteration over %s" % src(it))

    def truth(self, t, env):
        if isinstance(t, ast.Compare) and len(t.ops) == 1:
            op = t.ops[0]
            if isinstance(op, (ast.In, ast.NotIn)):
                k = self.ev(t.left, env)
                c = t.comparators[0]
                if isinstance(c, ast.Call) and isinstance(c.func, ast.Attribute) and c.func.attr == "keys":
                    d = self.ev(c.func.value, env)
                else:
                    d = self.ev(c, env)
                if not isinstance(d, dict):
                    raise _Unknown("membership test in %s" % src(c))
                r = k in d
                return r if isinstance(op, ast.In) else not r
            a, b = self.ev(t.left, env), self.ev(t.comparators[0], env)
            if isinstance(a, Rat) and isinstance(b, Rat) and isinstance(op, (ast.NotEq, ast.Eq)):
                z = (a - b)
                if z.is_zero():
                    r = True
                elif len(z.symbols()) >= 1 and not z.is_number():
                    r = False         # a generic (symbolic) coefficient differs from 0
                else:
                    r = z.number() == 0
                return r if isinstance(op, ast.Eq) else not r
            raise _Unknown("coefficients are compared by `%s`: the result depends on their sign / size, not only on being zero" % src(t))
        if isinstance(t, ast.Call) and call_name(t) == "isinstance" and len(t.args) == 2 and dotted(t.args[1]) == "tuple":
            return isinstance(self.ev(t.args[0], env), tuple) and not isinstance(self.ev(t.args[0], env), _Pair)
        if isinstance(t, ast.UnaryOp) and isinstance(t.op, ast.Not):
            return not self.truth(t.operand, env)
        if isinstance(t, ast.BoolOp):
            vals = [self.truth(v, env) for v in t.values]
            return all(vals) if isinstance(t.op, ast.And) else any(vals)
        raise _Unknown("test `%s`" % src(t))

    def binop(self, op, a, b):
        if isinstance(a, Rat) and isinstance(b, Rat):
            if isinstance(op, ast.Add):
                return a + b
            if isinstance(op, ast.Sub):
                return a - b
            if isinstance(op, ast.Mult):
                return a * b
            if isinstance(op, ast.Div):
                return a / b
        raise _Unknown("operator %s on %s and %s" % (type(op).__name__, a, b))

    def ev(self, e, env):
        if isinstance(e, ast.Name):
            if e.id in env:
                return env[e.id]
            raise _Unknown("unbound name %s" % e.id)
        if isinstance(e, ast.Constant) and isinstance(e.value, (int, float)) and not isinstance(e.value, bool):
            return to_rat(e.value)
        if isinstance(e, ast.Dict) and not e.keys:
            return {}
        if isinstance(e, ast.Dict):
            return {self.ev(k, env): self.ev(v, env) for k, v in zip(e.keys, e.values)}
        if isinstance(e, ast.Call):
            nm = call_name(e)
            if isinstance(e.func, ast.Name) and nm == "dict" and not e.args:
                return {}
            if isinstance(e.func, ast.Name) and nm == "dict" and len(e.args) == 1:
                d = self.ev(e.args[0], env)
                return dict(d)
            if isinstance(e.func, ast.Attribute) and nm == "copy":
                d = self.ev(e.func.value, env)
                if isinstance(d, dict):
                    return dict(d)
            if isinstance(e.func, ast.Name) and nm in self.module.functions and self.depth < 3:
                args = [self.ev(a, env) for a in e.args]
                return DictInterp(self.module, self.depth + 1).call(self.module.functions[nm], args)
            raise _Unknown("call %s" % src(e))
        if isinstance(e, ast.Subscript):
            base = self.ev(e.value, env)
            if isinstance(base, dict):
                k = self.ev(e.slice, env)
                if k not in base:
                    raise _Unknown("lookup of a missing key (KeyError at run time)")
                return base[k]
            if isinstance(base, tuple) and isinstance(e.slice, ast.Slice) and e.slice.lower is None and e.slice.upper is None \
                    and isinstance(e.slice.step, ast.UnaryOp) and isinstance(e.slice.step.operand, ast.Constant) and e.slice.step.operand.value == 1:
                return tuple(reversed(base))
            if isinstance(base, tuple) and isinstance(e.slice, ast.Constant):
                return base[e.slice.value]
            raise _Unknown("subscript %s" % src(e))
        if isinstance(e, ast.Tuple):
            return tuple(self.ev(x, env) for x in e.elts)
        if isinstance(e, ast.BinOp):
            return self.binop(e.op, self.ev(e.left, env), self.ev(e.right, env))
        if isinstance(e, ast.UnaryOp) and isinstance(e.op, ast.USub):
            v = self.ev(e.operand, env)
            if isinstance(v, Rat):
                return -v
        if isinstance(e, ast.IfExp):
            return self.ev(e.body, env) if self.truth(e.test, env) else self.ev(e.orelse, env)
        if isinstance(e, ast.DictComp) and len(e.generators) == 1:
            g = e.generators[0]
            out = {}
            for it in self.iterate(g.iter, env):
                env2 = dict(env)
                self.bind(g.target, it, env2)
                if all(self.truth(c, env2) for c in g.ifs):
                    out[self.ev(e.key, env2)] = self.ev(e.value, env2)
            return out
        raise _Unknown("expression %s" % src(e))


class _Pair(tuple):
    """(key, value) produced by .items() -- distinct from a tuple key"""
    def __new__(cls, k, v):
        return super().__new__(cls, (k, v))


def _eq(d, want):
    if not isinstance(d, dict) or set(d) != set(want):
        return False
    return all(isinstance(d[k], Rat) and d[k].equals(want[k]) for k in want)


def _show(d):
    if not isinstance(d, dict):
        return str(d)
    return "{" + ", ".join("%s: %s" % (k, v) for k, v in d.items()) + "}"


def r_dictops(ctx):
    mod = ctx.repo.module("PEPit/tools/dict_operations.py")
    S = Rat.sym
    cases = []
    # merge
    d1 = {"A": S("a"), "C": S("c1")}
    d2 = {"B": S("b"), "C": S("c2")}
    cases.append(("merge_dict", [d1, d2], {"A": S("a"), "B": S("b"), "C": S("c1") + S("c2")},
                  "keys of either dictionary, coefficients added on common keys"))
    # prune
    cases.append(("prune_dict", [{"A": S("a"), "Z": Rat(0), "B": S("b")}], {"A": S("a"), "B": S("b")},
                  "exactly the keys with a non-zero coefficient, coefficients unchanged"))
    # multiply
    cases.append(("multiply_dicts", [{"A": S("a"), "B": S("b")}, {"C": S("c"), "D": S("d")}],
                  {("A", "C"): S("a") * S("c"), ("A", "D"): S("a") * S("d"), ("B", "C"): S("b") * S("c"), ("B", "D"): S("b") * S("d")},
                  "one key (k1, k2) per pair of keys with the product of the coefficients"))
    cases.append(("multiply_dicts", [{"A": S("a")}, {"A": S("c")}], {("A", "A"): S("a") * S("c")}, "squared norm key (k, k)"))
    # symmetrize
    half = Rat(1) / Rat(2)
    cases.append(("symmetrize_dict", [{("P", "Q"): S("u"), ("Q", "P"): S("v"), ("R", "T"): S("w"), ("D", "D"): S("t"), "N": S("n"), 1: S("k")}],
                  {("P", "Q"): (S("u") + S("v")) * half, ("Q", "P"): (S("u") + S("v")) * half, ("R", "T"): S("w") * half, ("T", "R"): S("w") * half,
                   ("D", "D"): S("t"), "N": S("n"), 1: S("k")},
                  "each inner-product key shares its coefficient equally with its mirrored key; other keys unchanged"))
    # empty arguments: still a new dictionary (an operator that gets back its operand's own dictionary and then writes into it changes the operand --
    # the module-level null point / null expression have an empty decomposition)
    cases.append(("prune_dict", [{}], {}, "an empty dictionary for an empty dictionary"))
    cases.append(("merge_dict", [{}, {"B": S("b")}], {"B": S("b")}, "the other dictionary's content when one is empty"))
    cases.append(("merge_dict", [{"A": S("a")}, {}], {"A": S("a")}, "the other dictionary's content when one is empty"))
    cases.append(("symmetrize_dict", [{}], {}, "an empty dictionary for an empty dictionary"))
    n = 0
    for name, args, want, what in cases:
        fn = mod.functions.get(name)
        if fn is None:
            raise AnalysisError("dictionary helper %s not found" % name)
        ctx.unit(name)
        n += 1
        ins = [dict(a) for a in args]
        key = "%s::%s" % (name, "/".join(str(k) for k in list(args[0])[:3]) or ("empty" + ("" if len(args) == 1 or not args[1] else " + " + "/".join(str(k) for k in list(args[1])[:3]))))
        try:
            got = DictInterp(mod).call(fn, ins)
            ok = _eq(got, want)
            msg = "returns %s" % what if ok else "on %s returns %s, specified %s (%s)" % (", ".join(_show(a) for a in args), _show(got), _show(want), what)
        except _Unknown as e:
            ok, msg = False, "transfer function not computable: %s" % e
        if ok and isinstance(got, dict) and any(got is a for a in ins):
            ok, msg = False, "on %s returns the argument itself, not a new dictionary: what the caller writes into the result lands in the operand" % ", ".join(_show(a) for a in args)
        ctx.ob("R-DICTOPS", key, ok, msg, loc(fn, fn))
        untouched = all(_eq(a, b) for a, b in zip(ins, args))
        ctx.ob("R-DICTOPS", key + "::operands untouched", untouched,
               "the arguments are left as they were" if untouched else "an argument is modified in place: %s -> %s" % (_show(args[0]), _show(ins[0])), loc(fn, fn))
        ctx.sample({"rule": "R-DICTOPS", "helper": name, "input": [_show(a) for a in args], "output": _show(want)})
    ctx.count("dictionary helper cases", n)
