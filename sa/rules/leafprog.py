"""Leaf creation and the post-solve assignment as programs (R-LEAFREG, program-based part).

(1) The constructors of Point and Expression are unrolled by sa/miniint.py for a leaf and for a derived object, on a model whose class counter
    is 3 and whose registry holds three leaves: a leaf takes the counter as its index, the counter moves by exactly one, the leaf is registered
    exactly once (at the end, so that position == index) and decomposes as {itself: 1}; a derived object takes no index, leaves counter and
    registry alone and keeps the decomposition it was given.

(2) The PEP method that assigns the solver's output to the leaves is unrolled on three leaf points, four leaf expressions and one 2x2 LMI whose
    entries mention leaves, for (some eigenvalue negative?) x (verbose?).  numpy is modelled algebraically: eigh(G) = (E, V), G = V diag(E) V^T;
    scaling the columns of V by sqrt(E') and transposing gives M with M^T M = V diag(E') V^T; the triangular factor R of M has R^T R = M^T M.
    Expected, on every path: leaf point k receives column k of such an R with E' = max(E, 0) (E itself is admissible only on the path where no
    eigenvalue is negative), leaf expression k receives F[k], where G and F are the arguments as the solver returned them."""
import ast
from ..model import AnalysisError, src, loc, call_name, dotted, qualname, params_of
from ..miniint import IndexInterp, SymObj, is_token
from .. import flow
from . import common


def _tok(tag, *args):
    return ("call", tag, tuple(args), ())


def _is(tokv, tag):
    return is_token(tokv) and tokv[0] == "call" and tokv[1] == tag


# ---------------------------------------------------------------------------------------------------
# (1) constructors
# ---------------------------------------------------------------------------------------------------
def r_leaf_creation(ctx):
    repo = ctx.repo
    n = 0
    for cname, reg in (("Point", "list_of_leaf_points"), ("Expression", "list_of_leaf_expressions")):
        init = repo.method(cname, "__init__")
        ctx.unit("%s.__init__" % cname)
        ps = params_of(init)
        for leaf in (True, False):
            old = [SymObj(cname, label="old%d" % k, counter=k, _is_leaf=True) for k in range(3)]
            me = SymObj(cname, label="new")
            given = {old[0]: 2, old[2]: -1}
            env = {p: None for p in ps}
            env.update({ps[0]: me, "is_leaf": leaf, "decomposition_dict": None if leaf else given, cname + ".counter": 3, cname + "." + reg: list(old),
                        cname: ("type", cname), "dict": ("type", "dict"), "Point": ("type", "Point"), "Expression": ("type", "Expression")})
            env[cname] = ("type", cname)
            it = IndexInterp(env, check_asserts=True)
            it.symbolic_truth = True
            msg = None
            try:
                it.run(init.body)
            except AnalysisError as ex:
                if "raises" in str(ex):
                    msg = "the constructor raises for %s: %s" % ("a leaf" if leaf else "a derived object with a decomposition", ex)
                else:
                    raise AnalysisError("%s.__init__ not interpretable: %s" % (cname, ex))
            if msg is None:
                cnt = it.env.get(cname + ".counter")
                regv = it.env.get(cname + "." + reg)
                a = me.attrs
                if leaf:
                    if a.get("counter") != 3:
                        msg = "a leaf gets index `%r`, the class counter was 3" % (a.get("counter"),)
                    elif cnt != 4:
                        msg = "after creating one leaf the class counter is %r, expected 4" % (cnt,)
                    elif not isinstance(regv, list) or [x for x in regv if x is me] != [me] or regv[:3] != old or regv[-1] is not me:
                        msg = "the leaf is not registered exactly once at the end of %s.%s (position == index)" % (cname, reg)
                    elif not (isinstance(a.get("decomposition_dict"), dict) and list(a["decomposition_dict"].keys()) == [me] and a["decomposition_dict"][me] == 1):
                        msg = "a leaf does not decompose as {itself: 1}"
                    elif a.get("_is_leaf") is not True:
                        msg = "the leaf flag of a leaf is `%r`" % (a.get("_is_leaf"),)
                    elif a.get("_value", "missing") is not None:
                        msg = "a new leaf already carries a value (`%r`)" % (a.get("_value", "missing"),)
                else:
                    if a.get("counter", "missing") is not None:
                        msg = "a derived object gets index `%r`, expected None" % (a.get("counter", "missing"),)
                    elif cnt != 3:
                        msg = "creating a derived object moves the class counter to %r" % (cnt,)
                    elif regv != old:
                        msg = "creating a derived object changes the leaf registry"
                    elif a.get("decomposition_dict") is not given and a.get("decomposition_dict") != given:
                        msg = "a derived object does not keep the decomposition it was given"
                    elif a.get("_is_leaf") is not False:
                        msg = "the leaf flag of a derived object is `%r`" % (a.get("_is_leaf"),)
                    elif a.get("_value", "missing") is not None:
                        msg = "a new derived object already carries a value (`%r`)" % (a.get("_value", "missing"),)
            n += 1
            ctx.ob("R-LEAFREG", "%s.__init__::%s (unrolled)" % (cname, "leaf" if leaf else "derived object"), msg is None,
                   ("index = counter, counter + 1, registered once at the end, decomposes as {self: 1}" if leaf else
                    "no index, counter and registry untouched, decomposition kept") if msg is None else msg, loc(init, init))
    return n


def r_function_creation(ctx):
    """Function.__init__ unrolled for a leaf and for a combination: both are registered exactly once in the class registry the solve root iterates;
    a leaf decomposes as {itself: 1} and takes the class counter (which moves by one); a combination keeps the decomposition it is given, takes no
    index and leaves the counter alone; the differentiability flag is stored as given; every sample / constraint container starts empty and is the
    object's own (no container is shared with the registry, with another attribute or with an argument)."""
    repo = ctx.repo
    init = repo.method("Function", "__init__")
    ctx.unit("Function.__init__")
    ps = params_of(init)
    n = 0
    for leaf in (True, False):
        for flag in (True, False):
            old = [SymObj("Function", label="old%d" % k, counter=k, _is_leaf=True) for k in range(2)]
            me = SymObj("Function", label="new")
            given = {old[0]: 2, old[1]: -1}
            env = {p: None for p in ps}
            env.update({ps[0]: me, "is_leaf": leaf, "decomposition_dict": None if leaf else given, "reuse_gradient": flag,
                        "Function.counter": 2, "Function.list_of_functions": list(old), "Function": ("type", "Function"), "dict": ("type", "dict")})
            it = IndexInterp(env, check_asserts=True)
            it.symbolic_truth = True
            msg = None
            try:
                it.run(init.body)
            except AnalysisError as ex:
                if "raises" in str(ex):
                    msg = "the constructor raises for %s: %s" % ("a leaf" if leaf else "a combination with a decomposition", ex)
                else:
                    raise AnalysisError("Function.__init__ not interpretable: %s" % ex)
            if msg is None:
                a = me.attrs
                cnt = it.env.get("Function.counter")
                regv = it.env.get("Function.list_of_functions")
                lists = {k: v for k, v in a.items() if isinstance(v, (list, dict)) and k != "decomposition_dict"}
                shared = [(k1, k2) for k1 in lists for k2 in lists if k1 < k2 and lists[k1] is lists[k2]]
                if not isinstance(regv, list) or [x for x in regv if x is me] != [me] or regv[:2] != old:
                    msg = "the function is not registered exactly once in Function.list_of_functions (the solve root would %s its constraints)" % (
                        "never send" if not isinstance(regv, list) or me not in regv else "send twice")
                elif a.get("_is_leaf") is not leaf:
                    msg = "the leaf flag is `%r` for is_leaf=%r" % (a.get("_is_leaf"), leaf)
                elif a.get("reuse_gradient") is not flag:
                    msg = "the differentiability flag stored is `%r` for reuse_gradient=%r" % (a.get("reuse_gradient"), flag)
                elif leaf and not (isinstance(a.get("decomposition_dict"), dict) and list(a["decomposition_dict"].keys()) == [me] and a["decomposition_dict"][me] == 1):
                    msg = "a leaf function does not decompose as {itself: 1}"
                elif leaf and (a.get("counter") != 2 or cnt != 3):
                    msg = "a leaf function gets index `%r` and leaves the class counter at %r (it was 2)" % (a.get("counter"), cnt)
                elif not leaf and a.get("decomposition_dict") is not given and a.get("decomposition_dict") != given:
                    msg = "a combination does not keep the decomposition it was given"
                elif not leaf and (a.get("counter", "missing") is not None or cnt != 2):
                    msg = "a combination gets index `%r` / moves the class counter to %r" % (a.get("counter", "missing"), cnt)
                elif any(v for v in lists.values()):
                    msg = "a new function starts with a non-empty `%s`" % [k for k, v in lists.items() if v][0]
                elif shared or any(v is regv or v is given for v in lists.values()):
                    msg = "two containers of a new function are one object (%s): what is appended to one appears in the other" % (shared[0] if shared else "registry / argument",)
            n += 1
            ctx.ob("R-LEAFREG", "Function.__init__::%s, reuse_gradient=%s (unrolled)" % ("leaf" if leaf else "combination", flag), msg is None,
                   "registered once, own empty containers, flag stored, %s" % ("index = counter, {self: 1}" if leaf else "decomposition kept, no index")
                   if msg is None else msg, loc(init, init))
    return n


# ---------------------------------------------------------------------------------------------------
# (2) post-solve assignment
# ---------------------------------------------------------------------------------------------------
def assignment_fn(repo):
    pep = common.pep_class(repo)
    fn = None
    for f in pep.methods.values():
        regs = set()
        for n0 in ast.walk(f):
            d = dotted(n0) if isinstance(n0, ast.Attribute) else None
            if d in ("Point.list_of_leaf_points", "Expression.list_of_leaf_expressions"):
                regs.add(d)
        stores = [n0 for n0 in ast.walk(f) if isinstance(n0, ast.Attribute) and n0.attr == "_value" and isinstance(n0.ctx, ast.Store)]
        if len(regs) == 2 and stores:
            fn = f
    return fn


class _Interp(IndexInterp):
    """numpy's linear algebra kept as terms; the sign test on the smallest eigenvalue is the only symbolic test with a meaning here"""

    def __init__(self, env, negative):
        super().__init__(env, symbolic=(), on_call=self._np)
        self.negative = negative
        self.choices = []        # decisions taken for the symbolic tests that are not sign tests, in order of evaluation
        self.taken = []          # (test, decision) as evaluated

    def _bind(self, target, value):
        # `a[<part>] = v` on an array kept as a term: the array is another one from here on (what it holds is no longer what the term says)
        if isinstance(target, ast.Subscript) and isinstance(target.value, ast.Name) and is_token(self.env.get(target.value.id)) \
                and self.env[target.value.id][0] in ("call", "array", "read", "op"):
            self.env[target.value.id] = _tok("overwritten in part", self.env[target.value.id], src(target.slice)[:40], value if isinstance(value, (int, float)) else "value")
            return
        super()._bind(target, value)

    def ev(self, e):
        if isinstance(e, ast.Attribute) and e.attr == "T":
            b = self.ev(e.value)
            if is_token(b):
                return _tok("T", b)
        if isinstance(e, ast.Attribute) and e.attr == "shape":
            b = self.ev(e.value)
            if isinstance(b, SymObj) and "shape" in b.attrs:
                return b.attrs["shape"]
        if isinstance(e, ast.Subscript):
            b = self.ev(e.value)
            if isinstance(b, SymObj) and b.kind == "PSDMatrix":
                idx = self.ev(e.slice)
                ents = b.attrs["matrix_of_expressions"]
                if idx in ents:
                    return ents[idx]
                raise AnalysisError("entry %r of a 2x2 LMI" % (idx,))
        if isinstance(e, ast.BinOp) and isinstance(e.op, ast.MatMult):
            return _tok("matmul", self.ev(e.left), self.ev(e.right))
        return super().ev(e)

    def _np(self, node, it):
        nm = call_name(node)
        f = node.func
        recv = None
        is_np = isinstance(f, ast.Attribute) and (dotted(f.value) or "") in ("np", "numpy", "np.linalg", "numpy.linalg")
        if isinstance(f, ast.Attribute) and not is_np:
            try:
                recv = self.ev(f.value)
            except AnalysisError:
                recv = None
        if isinstance(recv, SymObj) and nm == "get_is_leaf":
            return recv.attrs["_is_leaf"]
        args = lambda: [self.ev(a) for a in node.args]
        kw = lambda: {k.arg: self.ev(k.value) for k in node.keywords if k.arg}
        if is_np and nm in ("eigh", "eig") and len(node.args) == 1:
            a = args()[0]
            if a == ("array", "G"):
                return (_tok("eigvals"), _tok("eigvecs"))
            return (_tok("eigvals-of", a), _tok("eigvecs-of", a))
        if is_np and nm == "eigvalsh" and len(node.args) == 1:
            a = args()[0]
            return _tok("eigvals") if a == ("array", "G") else _tok("eigvals-of", a)
        if nm in ("min", "amin") and (is_np and len(node.args) == 1 or (recv is not None and is_token(recv) and not node.args)):
            return _tok("min", args()[0] if is_np else recv)
        if nm in ("max", "amax") and (is_np and len(node.args) == 1 or (recv is not None and is_token(recv) and not node.args)):
            return _tok("max", args()[0] if is_np else recv)
        if is_np and nm in ("abs", "absolute") and len(node.args) == 1:
            return _tok("abs", args()[0])
        if is_np and nm == "cholesky" and len(node.args) == 1:
            return _tok("chol", args()[0])
        if is_np and nm == "maximum" and len(node.args) == 2:
            a, b = args()
            if b == 0 or a == 0:
                return _tok("clip", a if b == 0 else b)
        if nm == "clip" and (is_np or is_token(recv)):
            av = args()
            k = kw()
            if is_np and av:
                x, rest = av[0], av[1:]
            else:
                x, rest = recv, av
            lo = rest[0] if rest else k.get("a_min", k.get("min", "missing"))
            hi = rest[1] if len(rest) > 1 else k.get("a_max", k.get("max"))
            if lo == 0 and hi is None:
                return _tok("clip", x)
        if is_np and nm == "sqrt" and len(node.args) == 1:
            return _tok("sqrt", args()[0])
        if is_np and nm == "diag" and len(node.args) == 1:
            return _tok("diag", args()[0])
        if nm == "transpose" and (is_np and len(node.args) == 1 or (is_token(recv) and not node.args)):
            return _tok("T", args()[0] if is_np else recv)
        if nm in ("dot", "matmul") and (is_np and len(node.args) == 2 or (is_token(recv) and len(node.args) == 1)):
            av = args()
            return _tok("matmul", *(av if is_np else [recv, av[0]]))
        if is_np and nm == "qr" and node.args:
            a = args()[0]
            mode = kw().get("mode", args()[1] if len(node.args) > 1 else "reduced")
            if mode == "r":
                return _tok("R", a)
            if mode in ("reduced", "complete"):
                return (_tok("Q", a), _tok("R", a))
        if is_np and nm in ("any",) and len(node.args) == 1:
            return _tok("any", args()[0])
        if nm == "any" and is_token(recv) and not node.args:
            return _tok("any", recv)
        return NotImplemented

    def truth(self, v):
        if is_token(v):
            s = _sign_test(v)
            if s is not None:
                return self.negative if s else not self.negative
            if self.negative:
                d = _implied_when_negative(v)
                if d is not None:
                    return d
            # any other numeric test (conditioning, rank, ...): both outcomes are explored, one run each
            k = len(self.taken)
            if k >= len(self.choices):
                raise _NeedChoice(k)
            self.taken.append((v, self.choices[k]))
            return self.choices[k]
        return super().truth(v)


class _NeedChoice(Exception):
    pass


def _nonneg(t):
    """a quantity that cannot be negative: a non-negative constant, the largest eigenvalue of a Gram matrix, products / quotients / maxima of such"""
    if isinstance(t, (int, float)) and not isinstance(t, bool):
        return t >= 0
    if _is(t, "max") and t[2] and (_is(t[2][0], "eigvals") or _is(t[2][0], "clip")):
        return True
    if _is(t, "clip") or _is(t, "sqrt") or _is(t, "abs"):
        return True
    if is_token(t) and t[0] == "op" and t[1] in ("Mult", "Div", "Add"):
        return _nonneg(t[2]) and _nonneg(t[3])
    return False


def _implied_when_negative(v):
    """On the path where the smallest eigenvalue is negative: `min(E) > y` / `>= y` is false and `min(E) < y` / `<= y` is true for every y >= 0."""
    if not (is_token(v) and v[0] == "cmp"):
        return None
    op, l, r = v[1], v[2], v[3]
    m = _tok("min", _tok("eigvals"))
    if r == m:
        l, r = r, l
        op = {"Lt": "Gt", "Gt": "Lt", "LtE": "GtE", "GtE": "LtE"}.get(op, op)
    if l == m and _nonneg(r):
        if op in ("Gt", "GtE"):
            return False
        if op in ("Lt", "LtE"):
            return True
    m0 = _tok("min", _tok("clip", _tok("eigvals")))          # 0 on this path
    if r == m0:
        l, r = r, l
        op = {"Lt": "Gt", "Gt": "Lt", "LtE": "GtE", "GtE": "LtE"}.get(op, op)
    if l == m0 and _nonneg(r):
        if op == "Gt":
            return False
        if op == "LtE":
            return True
    return None


def _sign_test(v):
    """True: the test says 'some eigenvalue is negative'; False: it says 'none is'; None: something else"""
    if _is(v, "any") and v[2]:
        inner = v[2][0]
        if is_token(inner) and inner[0] == "cmp" and inner[2] == _tok("eigvals") and inner[3] == 0 and inner[1] == "Lt":
            return True
        return None
    if not (is_token(v) and v[0] == "cmp"):
        return None
    op, l, r = v[1], v[2], v[3]
    if r == _tok("min", _tok("eigvals")) and l == 0:
        l, r = r, l
        op = {"Lt": "Gt", "Gt": "Lt", "LtE": "GtE", "GtE": "LtE"}.get(op, op)
    if l == _tok("min", _tok("eigvals")) and r == 0:
        if op == "Lt":
            return True
        if op == "GtE":
            return False
    return None


def _factor(t):
    """-> (which eigenvalues scale the columns of V: None / 'raw' / 'clipped', transposed?) or None"""
    if _is(t, "eigvecs"):
        return (None, False)
    if _is(t, "T"):
        f = _factor(t[2][0])
        return (f[0], not f[1]) if f else None
    def scale(x):
        if _is(x, "sqrt"):
            a = x[2][0]
            if _is(a, "eigvals"):
                return "raw"
            if _is(a, "clip") and _is(a[2][0], "eigvals"):
                return "clipped"
        return None
    if is_token(t) and t[0] == "op" and t[1] == "Mult":
        for a, b in ((t[2], t[3]), (t[3], t[2])):
            s, f = scale(a), _factor(b)
            if s and f == (None, False):
                return (s, False)            # a row vector broadcast over a matrix scales its columns
            if is_token(a) and a[0] == "read" and isinstance(a[2], tuple) and len(a[2]) == 2 and a[2][1] is None and scale(a[1]) and f == (None, True):
                return (scale(a[1]), True)   # s[:, None] * V^T scales the rows of V^T
    if _is(t, "matmul") and len(t[2]) == 2:
        a, b = t[2]
        if _is(a, "diag") and scale(a[2][0]) and _factor(b) == (None, True):
            return (scale(a[2][0]), True)
        if _is(b, "diag") and scale(b[2][0]) and _factor(a) == (None, False):
            return (scale(b[2][0]), False)
    return None


def _column(v):
    """leaf value `v` -> (factor term, column index) or None"""
    if is_token(v) and v[0] == "read":
        base, idx = v[1], v[2]
        if isinstance(idx, tuple) and len(idx) == 2 and is_token(idx[0]) and idx[0] == ("slice", None, None, None) and isinstance(idx[1], int):
            return base, idx[1]
        if isinstance(idx, int):
            return (base[2][0] if _is(base, "T") else _tok("T", base)), idx        # row k of X is column k of X^T
    return None


class Undecided(AnalysisError):
    """the routine could not be decided in a scenario no structural rule covers either: the check stops (exit 2) instead of falling back"""


def r_assignment_program(ctx):
    """-> number of runs, or raises AnalysisError when the routine is outside the fragment (the caller then falls back on the shape rules)"""
    repo = ctx.repo
    fn = assignment_fn(repo)
    if fn is None:
        ctx.ob("R-LEAFREG", "PEP::post-solve assignment iterates both registries", False,
               "no PEP method iterates both leaf registries to assign values", common.pep_class(repo).module.rel)
        return 0
    ctx.unit(qualname(fn))
    ps = params_of(fn)
    results = []
    fpar0, gpar0 = _output_params(repo, fn)
    extras = [p0 for p0 in ps[1:] if p0 not in (fpar0, gpar0, "verbose")]
    scenarios = [(True, 0, None), (True, 1, None), (False, 0, None), (False, 1, None)] + [(False, 0, p0) for p0 in extras] + [(True, 0, p0) for p0 in extras]
    for negative, verbose, extra in scenarios:
        def model():
            pts = [SymObj("Point", label="p%d" % k, counter=k, _is_leaf=True, _value=None) for k in range(3)]
            exs = [SymObj("Expression", label="e%d" % k, counter=k, _is_leaf=True, _value=None, decomposition_dict=None) for k in range(4)]
            for o in pts + exs:
                o.attrs["decomposition_dict"] = {o: 1}
            comp = SymObj("Expression", label="composite", counter=None, _is_leaf=False, _value=None,
                          decomposition_dict={exs[2]: 2, (pts[0], pts[2]): 3, 1: 5})
            psd = SymObj("PSDMatrix", label="lmi", shape=(2, 2), matrix_of_expressions={(0, 0): exs[1], (0, 1): comp, (1, 0): comp, (1, 1): exs[3]})
            env = {ps[0]: SymObj("PEP", label="self", list_of_psd=[psd]), "Point.list_of_leaf_points": list(pts),
                   "Expression.list_of_leaf_expressions": list(exs), "Point.counter": 3, "Expression.counter": 4,
                   "Point": ("type", "Point"), "Expression": ("type", "Expression"), "tuple": ("type", "tuple"), "int": ("type", "int"),
                   "float": ("type", "float")}
            # the two solver outputs by position (after self): function values, Gram matrix -- identified by how the method's caller binds them
            fpar, gpar = _output_params(repo, fn)
            for p in ps[1:]:
                env[p] = verbose if p == "verbose" else (2 if p == extra else None)          # an argument besides the solver's outputs: once absent, once set
            env[fpar] = ("array", "F")
            env[gpar] = ("array", "G")
            return env, pts, exs, comp

        pending = [[]]
        while pending:
            choices = pending.pop(0)
            if len(results) > 64:
                raise AnalysisError("post-solve assignment: more than 64 paths through numeric tests")
            env, pts, exs, comp = model()
            it = _Interp(env, negative)
            it.home = (repo, fn._module, "PEP")
            it.choices = choices
            try:
                it.run(fn.body)
            except _NeedChoice:
                pending.append(choices + [True])
                pending.append(choices + [False])
                continue
            except AnalysisError as ex:
                if "raises" in str(ex):
                    results.append((negative, verbose, "", "the routine raises on a well-formed model: %s" % ex))
                    continue
                if extra is not None:
                    raise Undecided("post-solve assignment: the routine takes `%s` besides the solver's outputs; with it set, what the leaves receive cannot be "
                                    "determined (%s) -- no structural rule covers that path either" % (extra, ex))
                raise AnalysisError("post-solve assignment not interpretable: %s" % ex)
            msg = None
            path = "; ".join("%s is %s" % (_show(t)[:70], d) for t, d in it.taken)
            if extra is not None:
                path = ("`%s` = 2" % extra) + ("; " + path if path else "")
            for k, p in enumerate(pts):
                col = _column(p.attrs.get("_value"))
                if col is None:
                    msg = "leaf point %d receives `%s`, not a column of the triangular factor" % (k, _show(p.attrs.get("_value")))
                    break
                base, j = col
                if j != k:
                    msg = "leaf point %d receives column %d of the factor" % (k, j)
                    break
                if base == _tok("T", _tok("chol", ("array", "G"))) and not negative:
                    continue          # G = L L^T: the columns of L^T reproduce G (on a path where G is positive definite)
                if not _is(base, "R"):
                    msg = "the point coordinates are read from `%s`, not from the triangular factor of a square root of the Gram matrix" % _show(base)
                    break
                f = _factor(base[2][0])
                if f is None or not f[1] or f[0] is None:
                    msg = ("the matrix handed to qr is `%s`: its Gram matrix is not V diag(E) V^T = G (expected the transpose of the eigenvectors with "
                           "columns scaled by the square roots of the eigenvalues)" % _show(base[2][0]))
                    break
                if f[0] == "raw" and negative:
                    msg = "on the path where an eigenvalue is negative%s the square root is taken of the unclipped eigenvalues (NaN coordinates)" % (
                        "" if verbose else " and verbose is 0")
                    break
            if msg is None:
                for k, x in enumerate(exs):
                    if x.attrs.get("_value") != ("read", "F", k):
                        msg = "leaf expression %d receives `%s`, expected entry %d of the function values the solver returned" % (k, _show(x.attrs.get("_value")), k)
                        break
            if msg is None and comp.attrs.get("_value") is not None:
                msg = "a derived expression is given a value by the post-solve assignment (derived values are computed on demand from the leaves)"
            results.append((negative, verbose, path, msg))
    # an LMI entry whose decomposition holds a key of another kind (a lone point) is rejected by the walk over the LMIs
    env, pts, exs, comp = model()
    comp.attrs["decomposition_dict"] = {exs[2]: 2, pts[1]: 7}
    it = _Interp(env, False)
    it.home = (repo, fn._module, "PEP")
    it.choices = [False] * 8
    raised = False
    try:
        it.run(fn.body)
    except _NeedChoice:
        raised = None
    except AnalysisError as ex:
        raised = "the index program raises" in str(ex)
        if not raised:
            raise AnalysisError("post-solve assignment not interpretable: %s" % ex)
    if raised is not None:
        ctx.ob("R-KEYKINDS", "PEP.%s::a key of another kind in an LMI entry (unrolled)" % fn.name, raised,
               "a decomposition key that is a lone point raises" if raised else "an LMI entry with a key of another kind (a lone point) is silently accepted", loc(fn, fn))
    for negative, verbose, path, msg in results:
        ctx.ob("R-LEAFREG", "PEP.%s::%s eigenvalue, verbose=%d%s (unrolled)" % (fn.name, "a negative" if negative else "no negative", verbose,
                                                                               ", " + path if path else ""), msg is None,
               "leaf point k <- column k of R with R^T R = V max(E, 0) V^T, leaf expression k <- F[k]" if msg is None else msg, loc(fn, fn))
    ctx.count("post-solve assignment runs", len(results))
    return len(results)


# ---------------------------------------------------------------------------------------------------
# (3) evaluation of a combination
# ---------------------------------------------------------------------------------------------------
def r_expression_eval_program(ctx):
    """Expression.eval unrolled on a solved model: the value of `w1 * e1 + w2 * <p0, p1> + w3` must be w1 * value(e1) + w2 * <value(p0), value(p1)>
    + w3, with every operand read through its accessor.  Comparisons that involve an Expression go through Expression.__eq__, which builds a
    (truthy) Constraint -- the interpreter follows that, so a test like `key == 1` placed before the type tests takes the branch it takes at run
    time."""
    from ..nf import Rat
    repo = ctx.repo
    fn = repo.method("Expression", "eval")
    ctx.unit("Expression.eval")
    has_eq = repo.cls("Expression").find_method("__eq__") is not None
    pts = [SymObj("Point", label="p%d" % k, counter=k, _is_leaf=True, _value=("vec", "p%d" % k)) for k in range(3)]
    exs = [SymObj("Expression", label="e%d" % k, counter=k, _is_leaf=True, _value=Rat.sym("val_e%d" % k)) for k in range(2)]
    for o in pts + exs:
        o.attrs["decomposition_dict"] = {o: 1}
    results = []
    for order in (0, 1, 2, 3):
        items = [(exs[1], Rat.sym("w1")), ((pts[0], pts[1]), Rat.sym("w2")), (1, Rat.sym("w3"))]
        items = items[order:] + items[:order]
        want = Rat.sym("w1") * Rat.sym("val_e1") + Rat.sym("w2") * Rat.sym("<p0,p1>") + Rat.sym("w3")
        what = "w1 * e1 + w2 * <p0, p1> + w3"
        if order == 3:
            # a bilinear form over three points written with both orderings of every pair, each with a weight of its own (the product of two
            # different combinations of the same points): every one of the nine terms counts with its own weight
            items = [((pts[i0], pts[j0]), Rat.sym("q%d%d" % (i0, j0))) for i0 in range(3) for j0 in range(3)]
            want = Rat(0)
            for i0 in range(3):
                for j0 in range(3):
                    want = want + Rat.sym("q%d%d" % (i0, j0)) * Rat.sym("<%s,%s>" % tuple(sorted(("p%d" % i0, "p%d" % j0))))
            what = "sum of q_ij * <p_i, p_j> over all nine ordered pairs of three points"
        me = SymObj("Expression", label="combination", counter=None, _is_leaf=False, _value=None, decomposition_dict=dict(items))
        asked = []

        def on_call(node, it):
            nm = call_name(node)
            f = node.func
            if isinstance(f, ast.Attribute) and nm in ("eval", "get_is_leaf") and not node.args:
                try:
                    o = it.ev(f.value)
                except AnalysisError:
                    return NotImplemented
                if isinstance(o, SymObj) and nm == "get_is_leaf":
                    return o.attrs["_is_leaf"]
                if isinstance(o, SymObj) and o.attrs.get("_is_leaf"):
                    asked.append(o)
                    return o.attrs["_value"]
            if nm in ("dot", "inner", "vdot") and len(node.args) == 2:
                a, b = it.ev(node.args[0]), it.ev(node.args[1])
                if isinstance(a, tuple) and isinstance(b, tuple) and a[:1] == ("vec",) and b[:1] == ("vec",):
                    return Rat.sym("<%s,%s>" % tuple(sorted((a[1], b[1]))))
            return NotImplemented

        def on_compare(left, op, right, node):
            if has_eq and op == "Eq" and any(isinstance(x, SymObj) and x.kind == "Expression" for x in (left, right)):
                return SymObj("Constraint", label="built by Expression.__eq__")        # truthy, like every object
            return NotImplemented
        env = {params_of(fn)[0]: me, "Expression": ("type", "Expression"), "Point": ("type", "Point"), "tuple": ("type", "tuple"),
               "int": ("type", "int"), "float": ("type", "float"), "Point.counter": 3, "Expression.counter": 2}
        it = IndexInterp(env, on_call=on_call, check_asserts=True)
        it.home = (repo, fn._module, "Expression")
        it.on_compare = on_compare
        msg = None
        try:
            ret = it.run(fn.body)
            if not (type(ret).__name__ == "Rat" and (ret - want).is_zero()):
                msg = "the value of %s is computed as `%s`, expected `%s`" % (what, ret, want)
            elif me.attrs.get("_value") is not None and not (type(me.attrs["_value"]).__name__ == "Rat" and (me.attrs["_value"] - want).is_zero()):
                msg = "the value stored on the combination is `%s`, the value returned `%s`" % (me.attrs["_value"], ret)
        except AnalysisError as ex:
            if "the index program raises" in str(ex):
                msg = "evaluating a well-formed combination on a solved model raises: %s" % ex
            else:
                raise AnalysisError("Expression.eval not interpretable: %s" % ex)
        results.append((order, msg))
    # a key that is neither a leaf expression, a pair of points nor the constant is rejected
    me = SymObj("Expression", label="ill-formed combination", counter=None, _is_leaf=False, _value=None, decomposition_dict={exs[1]: Rat.sym("w1"), pts[0]: Rat.sym("wP")})
    env = {params_of(fn)[0]: me, "Expression": ("type", "Expression"), "Point": ("type", "Point"), "tuple": ("type", "tuple"),
           "int": ("type", "int"), "float": ("type", "float"), "Point.counter": 2, "Expression.counter": 2}

    def on_call2(node, it):
        nm = call_name(node)
        if isinstance(node.func, ast.Attribute) and nm in ("eval", "get_is_leaf") and not node.args:
            try:
                o = it.ev(node.func.value)
            except AnalysisError:
                return NotImplemented
            if isinstance(o, SymObj) and nm == "get_is_leaf":
                return o.attrs["_is_leaf"]
            if isinstance(o, SymObj) and o.attrs.get("_is_leaf"):
                return o.attrs["_value"]
        return NotImplemented
    it = IndexInterp(env, on_call=on_call2, check_asserts=True)
    it.home = (repo, fn._module, "Expression")
    raised = False
    try:
        it.run(fn.body)
    except AnalysisError as ex:
        raised = "the index program raises" in str(ex)
        if not raised:
            raise AnalysisError("Expression.eval not interpretable: %s" % ex)
    ctx.ob("R-KEYKINDS", "Expression.eval::a key of another kind (unrolled)", raised,
           "a decomposition key that is a lone point raises" if raised else "a decomposition key of another kind (a lone point) is silently ignored / accepted", loc(fn, fn))
    for order, msg in results:
        ctx.ob("R-EVALSHAPE", "Expression.eval::combination, key order %d (unrolled)" % order, msg is None,
               "value = sum of weight * value of the term, terms read through their accessors" if msg is None else msg, loc(fn, fn))
    return len(results)


def _show(v):
    s = repr(v)
    return s if len(s) < 160 else s[:157] + "..."


def _output_params(repo, fn):
    """names of the parameters that receive (function values, Gram matrix): read off the call in the solve root, whose arguments come from the
    wrapper's solution accessors; falls back on the conventional names"""
    ps = params_of(fn)[1:]
    lower = {p: p.lower() for p in ps}
    f = [p for p in ps if lower[p].startswith("f")]
    g = [p for p in ps if lower[p].startswith("g")]
    if len(f) == 1 and len(g) == 1:
        return f[0], g[0]
    raise AnalysisError("cannot tell which parameters of %s receive the function values and the Gram matrix" % fn.name)
