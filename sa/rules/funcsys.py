"""R-FUNCSYS (C07): the sample stores of leaf functions and of a weighted sum of them, as one system.

Instead of looking at `oracle`, `value`, `gradient`, `add_point` and their helpers one by one, the methods of `Function` are unrolled by
sa/miniint.py on a small object graph -- two or three leaf functions (each differentiable or not), their weighted sum with symbolic weights
(optionally with one more term of weight zero), points and expressions in the exact calculus of sa/nf.py -- along every bounded history of
queries (oracle / value / gradient of the sum or of a term, at one of two points, a declared stationary point, a user-recorded sample).  Every
method call on a function object is dispatched to the method body of the class, so how the bookkeeping is split between methods and helpers does
not matter; what is compared with the statement of C07 is the state of the stores and the returned objects after every query:

  one value      all values recorded or returned for one function at one point are the same expression;
  one gradient   a differentiable function records / returns one gradient per point;
  new subgradient  a non-differentiable function asked again at a point returns a gradient with a part never seen before;
  recorded       what `oracle` returns is a recorded sample of the function at that point;
  weighted sum   every sample of the sum is the weighted sum of samples recorded at that point for its terms (weight zero: no part);
  stationary     a declared stationary point is recorded with total gradient zero (and is in the stationary list)."""
import ast
import os
import itertools
from ..model import AnalysisError, src, loc, call_name, dotted, get_arg
from ..miniint import IndexInterp, SymObj, VecObj, ProgramRaise, is_token
from ..nf import Rat, PointV, ExprV

RULE = "R-FUNCSYS"


class Bound:
    """a method of Function taken from an object as a value (`f.gradient`), to be called later"""

    def __init__(self, obj, fn):
        self.obj, self.fn = obj, fn


class _Interp(IndexInterp):
    MAX_STEPS = 200000
    fcls = None

    def ev(self, e):
        if isinstance(e, ast.Attribute) and self.fcls is not None and e.attr != "decomposition_dict":
            try:
                base0 = self.ev(e.value) if isinstance(e.value, ast.Name) and e.value.id in self.env else None
            except AnalysisError:
                base0 = None
            if isinstance(base0, SymObj) and base0.kind == "Function" and e.attr not in base0.attrs:
                m0 = self.fcls.find_method(e.attr)
                if m0 is not None:
                    return Bound(base0, m0)
        if isinstance(e, ast.Attribute) and e.attr == "decomposition_dict" and not isinstance(e.ctx, ast.Store):
            try:
                base = self.ev(e.value)
            except AnalysisError:
                base = None
            if isinstance(base, VecObj):
                return dict(base.val.d)          # the decomposition of a point / expression is its normal form (zero weights do not exist there)
        return super().ev(e)


class _System:
    def __init__(self, repo, flags, zero_term, fflag=None):
        self.repo = repo
        self.cls = repo.cls("Function")
        if self.cls is None:
            raise AnalysisError("class Function not found")
        self.globals = {"Function.counter": 0, "Function.list_of_functions": []}
        self.n_atoms = 0
        self.queries = []          # (function, point, kind, returned)
        self.depth = 0
        self.steps = 0
        self.leaves = [self.make("f%d" % (k + 1), True, None, fl) for k, fl in enumerate(flags)]
        self.weights = [Rat.sym("w%d" % (k + 1)) for k in range(len(flags))]
        dd = dict(zip(self.leaves, self.weights))
        self.zero = None
        if zero_term:
            self.zero = self.make("f0", True, None, True)
            dd = dict([(self.zero, Rat(0))] + list(dd.items()))
        self.F = self.make("F", False, dd, all(flags) if fflag is None else fflag)
        self.user = []          # samples recorded by the user at a point that already had one: exempt from "one value"
        self.last_declared = None

    # ---------------------------------------------------------------- objects
    def fresh(self, sort):
        self.n_atoms += 1
        a = "%s%d" % ("p" if sort == "point" else "e", self.n_atoms)
        return VecObj("Point", PointV.atom(a), name=None) if sort == "point" else VecObj("Expression", ExprV.atom(a), name=None)

    def make(self, label, leaf, dd, flag):
        me = SymObj("Function", label=label)
        init = self.cls.find_method("__init__")
        if init is None:
            raise AnalysisError("Function.__init__ not found")
        self.call(init, me, [], {"is_leaf": leaf, "decomposition_dict": dd, "reuse_gradient": flag}, None, None)
        return me

    # ---------------------------------------------------------------- calls
    def call(self, fn, obj, args, kws, it, node):
        a = fn.args
        if a.vararg or a.kwarg or a.kwonlyargs or self.depth >= 12:
            raise AnalysisError("call of Function.%s outside the fragment" % fn.name)
        ps = [x.arg for x in a.posonlyargs + a.args]
        env = dict(self.globals)
        env.update({"Point": ("type", "Point"), "Expression": ("type", "Expression"), "Function": ("type", "Function")})
        static = any(isinstance(d0, ast.Name) and d0.id == "staticmethod" for d0 in fn.decorator_list)
        if not static:
            env[ps[0]] = obj
            ps = ps[1:]
        sub = _Interp(env, on_call=self.on_call, check_asserts=True)
        sub.fcls = self.cls
        sub.home = (self.repo, fn._module, self.cls.name)
        sub.steps = self.steps
        defaults = dict(zip(ps[len(ps) - len(a.defaults):], a.defaults))
        for k0, p0 in enumerate(ps):
            if k0 < len(args):
                env[p0] = args[k0]
            elif p0 in kws:
                env[p0] = kws[p0]
            elif p0 in defaults:
                env[p0] = sub.ev(defaults[p0])
            else:
                raise ProgramRaise("TypeError", "missing argument `%s` of Function.%s" % (p0, fn.name))
        if len(args) > len(ps) or any(k0 not in ps for k0 in kws):
            raise ProgramRaise("TypeError", "unexpected argument of Function.%s" % fn.name)
        sub.env = env
        self.depth += 1
        try:
            ret = sub.run(fn.body)
        finally:
            self.depth -= 1
            self.steps = sub.steps
        for k0 in list(self.globals):
            if k0 in sub.env:
                self.globals[k0] = sub.env[k0]
        return ret

    def on_call(self, node, it):
        nm = call_name(node)
        f = node.func
        if isinstance(f, ast.Name) and nm in ("Point", "Expression"):
            leaf = get_arg(node, 0, "is_leaf")
            if leaf is None or it.ev(leaf) is True:
                return self.fresh("point" if nm == "Point" else "expr")
            dd = get_arg(node, 1, "decomposition_dict")
            d = it.ev(dd) if dd is not None else None
            if isinstance(d, dict):
                try:
                    return VecObj("Point", PointV(dict(d)), name=None) if nm == "Point" else VecObj("Expression", ExprV(dict(d)), name=None)
                except Exception:
                    pass
            raise AnalysisError("`%s` outside the fragment" % src(node)[:60])
        if isinstance(f, ast.Name) and nm == "prune_dict" and len(node.args) == 1:
            v = it.ev(node.args[0])
            if isinstance(v, dict):
                return {k0: w0 for k0, w0 in v.items() if not ((isinstance(w0, Rat) and w0.is_zero()) or (isinstance(w0, (int, float)) and w0 == 0))}
            raise AnalysisError("prune_dict of `%s`" % src(node.args[0])[:40])
        if isinstance(f, ast.Name) and nm == "isinstance" and len(node.args) == 2:
            v = it.ev(node.args[0])
            t = it.ev(node.args[1])
            ts = t if isinstance(t, tuple) and not is_token(t) else (t,)
            kind = ("type", v.kind) if isinstance(v, SymObj) else ("type", type(v).__name__)
            return kind in ts
        if isinstance(f, ast.Attribute):
            try:
                recv = it.ev(f.value)
            except AnalysisError:
                return NotImplemented
            if isinstance(recv, SymObj) and recv.kind == "Function":
                m = self.cls.find_method(nm)
                if m is not None:
                    self.steps = it.steps
                    args = it.call_args(node)
                    kws = {k.arg: it.ev(k.value) for k in node.keywords if k.arg is not None}
                    try:
                        return self.call(m, recv, args, kws, it, node)
                    finally:
                        it.steps = self.steps
            if isinstance(recv, VecObj) and nm == "set_name":
                return None
            if isinstance(recv, VecObj) and nm == "get_name":
                return None
            if isinstance(recv, Bound):
                return NotImplemented
            if isinstance(recv, VecObj) and nm == "get_is_leaf":
                return len(recv.val.d) == 1 and all(not isinstance(k0, tuple) or k0[0] != "g" for k0 in recv.val.d) and \
                    all(isinstance(w0, Rat) and w0.is_number() and w0.number() == 1 for w0 in recv.val.d.values())
        if isinstance(f, ast.Call) or (isinstance(f, ast.Name) and isinstance(it.env.get(f.id), Bound)):
            try:
                fv = it.ev(f)
            except AnalysisError:
                fv = None
            if isinstance(fv, Bound):
                self.steps = it.steps
                args = it.call_args(node)
                kws = {k.arg: it.ev(k.value) for k in node.keywords if k.arg is not None}
                try:
                    return self.call(fv.fn, fv.obj, args, kws, it, node)
                finally:
                    it.steps = self.steps
        return NotImplemented

    # ---------------------------------------------------------------- queries
    def query(self, fobj, kind, point):
        meth = {"add_point0": "add_point", "add_point@": "add_point"}.get(kind, kind)
        m = self.cls.find_method(meth)
        if m is None:
            raise AnalysisError("Function.%s not found" % meth)
        before = self.atoms()
        if kind in ("stationary_point", "fixed_point"):
            ret = self.call(m, fobj, [], {}, None, None)
            p = ret[0] if isinstance(ret, tuple) and ret else ret
            if isinstance(p, VecObj):
                self.last_declared = p
        elif kind in ("add_point", "add_point0", "add_point@"):
            trip = (point if kind == "add_point@" else self.fresh("point"),
                    VecObj("Point", PointV(), name=None) if kind == "add_point0" else self.fresh("point"), self.fresh("expr"))
            self.call(m, fobj, [trip], {}, None, None)
            ret = trip
            if kind != "add_point@":
                self.last_declared = trip[0]
        else:
            ret = self.call(m, fobj, [point], {}, None, None)
        self.queries.append((fobj, point, kind, ret, before))
        return ret

    def some_term_not_differentiable(self):
        dd = self.F.attrs.get("decomposition_dict")
        return any(fo.attrs.get("reuse_gradient") is not True for fo, w in (dd.items() if isinstance(dd, dict) else [])
                   if not (isinstance(w, Rat) and w.is_zero()) and not (isinstance(w, (int, float)) and w == 0))

    def functions(self):
        return [self.F] + self.leaves + ([self.zero] if self.zero is not None else [])

    def samples(self, fobj):
        l = fobj.attrs.get("list_of_points")
        if not isinstance(l, list):
            raise AnalysisError("%s has no list of samples" % fobj.attrs.get("label"))
        out = []
        for t in l:
            if not (isinstance(t, tuple) and len(t) == 3 and all(isinstance(x, VecObj) for x in t) and isinstance(t[0].val, PointV)
                    and isinstance(t[1].val, PointV) and isinstance(t[2].val, ExprV)):
                raise ProgramRaise("TypeError", "%s records `%r`, not (point, gradient, value)" % (fobj.attrs.get("label"), t))
            out.append(t)
        return out

    def atoms(self):
        s = set()
        for fobj in self.functions():
            l = fobj.attrs.get("list_of_points")
            for t in (l if isinstance(l, list) else []):
                for x in (t if isinstance(t, tuple) else ()):
                    if isinstance(x, VecObj):
                        s |= set(x.val.atoms())
        for q in self.queries:
            r = q[3]
            for x in (r if isinstance(r, tuple) else (r,)):
                if isinstance(x, VecObj):
                    s |= set(x.val.atoms())
        return s

    # ---------------------------------------------------------------- the statement of C07 on the current state
    def check(self, only_registration=False):
        """-> None or the text of the first clause that fails (only_registration: the last query recorded a second, user-made sample at a point
        that may have had one -- what is asked is that it is recorded, as every sample handed to add_point is)"""
        if only_registration:
            fo, point, kind, ret, before = self.queries[-1]
            if not any(isinstance(t, tuple) and len(t) == 3 and t[0] is ret[0] and t[1] is ret[1] and t[2] is ret[2] for t in self.samples(fo)):
                return "the sample (%s, %s, %s) handed to %s.add_point at a point that %s is not among its recorded samples" % (
                    ret[0].val, ret[1].val, ret[2].val, fo.attrs.get("label"), "already had one")
            return None
        name = lambda fo: fo.attrs.get("label")
        at = {}
        for fo in self.functions():
            groups = []
            for t in self.samples(fo):
                for g0 in groups:
                    if g0[0][0].val.equals(t[0].val):
                        g0.append(t)
                        break
                else:
                    groups.append([t])
            at[id(fo)] = groups
            for g0 in groups:
                if any(not t[2].val.equals(g0[0][2].val) for t in g0):
                    return "%s has two values at the point %s: %s" % (name(fo), g0[0][0].val, " / ".join(sorted({str(t[2].val) for t in g0})))
                if fo.attrs.get("reuse_gradient") is True and any(not t[1].val.equals(g0[0][1].val) for t in g0):
                    return "%s is differentiable and has two gradients at the point %s: %s" % (
                        name(fo), g0[0][0].val, " / ".join(sorted({str(t[1].val) for t in g0})))
        for fo in self.functions():
            sl = fo.attrs.get("list_of_stationary_points")
            if not isinstance(sl, list):
                raise AnalysisError("%s has no list of stationary points" % name(fo))
            for g0 in at[id(fo)]:
                for t in g0:
                    listed = any(isinstance(u, tuple) and len(u) == 3 and all(isinstance(x0, VecObj) for x0 in u) and u[0].val.equals(t[0].val)
                                 and u[1].val.equals(t[1].val) and u[2].val.equals(t[2].val) for u in sl)
                    if (len(t[1].val.d) == 0) != listed:
                        return "%s: the sample (%s, %s, %s) %s" % (name(fo), t[0].val, t[1].val, t[2].val,
                                                                  "has gradient zero and is not in the list of stationary points" if not listed else
                                                                  "is in the list of stationary points with a gradient that is not zero")
            if any(not (isinstance(u, tuple) and len(u) == 3 and any(u[0].val.equals(t[0].val) for g0 in at[id(fo)] for t in g0)) for u in sl):
                return "%s: the list of stationary points holds something that is not a recorded sample" % name(fo)
        # returned objects
        seen_f, seen_g = {}, {}
        for qi, (fo, point, kind, ret, before) in enumerate(self.queries):
            if kind in ("stationary_point", "fixed_point", "add_point", "add_point0", "add_point@"):
                if qi != len(self.queries) - 1:
                    continue          # what a declaration records is looked at when it is made; later queries may add samples at that point
                if kind.startswith("add_point"):
                    if not any(t[0] is ret[0] and t[1] is ret[1] and t[2] is ret[2] or
                               (t[0].val.equals(ret[0].val) and t[1].val.equals(ret[1].val) and t[2].val.equals(ret[2].val)) for g0 in at[id(fo)] for t in g0):
                        return "the sample (%s, %s, %s) handed to %s.add_point is not among its recorded samples" % (ret[0].val, ret[1].val, ret[2].val, name(fo))
                else:
                    p = ret[0] if isinstance(ret, tuple) else ret
                    if not (isinstance(p, VecObj) and isinstance(p.val, PointV)):
                        return "%s of %s returns `%r`" % (kind, name(fo), ret)
                    if not p.val.d or set(p.val.atoms()) & before:
                        return "%s of %s returns the point %s, which is not a new point" % (kind, name(fo), p.val)
                    mine = [t for g0 in at[id(fo)] for t in g0 if t[0].val.equals(p.val)]
                    want = PointV() if kind == "stationary_point" else p.val
                    if not mine or any(not t[1].val.equals(want) for t in mine):
                        return "the %s declared on %s is recorded with the gradient %s" % (
                            kind.replace("_", " "), name(fo), " / ".join(str(t[1].val) for t in mine) if mine else "(no sample)")
                    if any(not t[2].val.d or set(t[2].val.atoms()) & before for t in mine):
                        return "the %s declared on %s is recorded with the value %s, which is not a new value" % (
                            kind.replace("_", " "), name(fo), " / ".join(str(t[2].val) for t in mine))
                    if isinstance(ret, tuple) and not (len(ret) == 3 and all(isinstance(x0, VecObj) for x0 in ret) and
                                                       any(t[1].val.equals(ret[1].val) and t[2].val.equals(ret[2].val) for t in mine)):
                        return "%s of %s returns `%r`, which is not the recorded sample" % (kind, name(fo), ret)
                    sl = fo.attrs.get("list_of_stationary_points")
                    if kind == "stationary_point" and not (isinstance(sl, list) and any(
                            isinstance(t, tuple) and t and isinstance(t[0], VecObj) and t[0].val.equals(p.val) for t in sl)):
                        return "the stationary point declared on %s is not in its list of stationary points" % name(fo)
                continue
            mine = [t for g0 in at[id(fo)] for t in g0 if t[0].val.equals(point.val)]
            rf = rg = None
            if kind == "oracle":
                if not (isinstance(ret, tuple) and len(ret) == 2 and all(isinstance(x, VecObj) for x in ret)):
                    return "%s.oracle returns `%r`, not (gradient, value)" % (name(fo), ret)
                rg, rf = ret
                if not (isinstance(rg.val, PointV) and isinstance(rf.val, ExprV)):
                    return "%s.oracle returns (%s, %s), not (gradient, value)" % (name(fo), rg.kind, rf.kind)
                if not any(t[1].val.equals(rg.val) and t[2].val.equals(rf.val) for t in mine):
                    return "%s.oracle returns (%s, %s), which is not a sample recorded for %s at %s (recorded: %s)" % (
                        name(fo), rg.val, rf.val, name(fo), point.val, ", ".join("(%s, %s)" % (t[1].val, t[2].val) for t in mine) or "nothing")
            elif kind in ("value", "__call__"):
                rf = ret
                if not (isinstance(rf, VecObj) and isinstance(rf.val, ExprV)):
                    return "%s.%s returns `%r`, not an expression" % (name(fo), kind, ret)
                if not any(t[2].val.equals(rf.val) for t in mine):
                    return "%s.%s returns %s, which is not the value recorded for %s at %s (recorded: %s)" % (
                        name(fo), kind, rf.val, name(fo), point.val, ", ".join(str(t[2].val) for t in mine) or "nothing")
            elif kind in ("gradient", "subgradient"):
                rg = ret
                if not (isinstance(rg, VecObj) and isinstance(rg.val, PointV)):
                    return "%s.%s returns `%r`, not a point" % (name(fo), kind, ret)
                if not any(t[1].val.equals(rg.val) for t in mine):
                    return "%s.%s returns %s, which is not a gradient recorded for %s at %s (recorded: %s)" % (
                        name(fo), kind, rg.val, name(fo), point.val, ", ".join(str(t[1].val) for t in mine) or "nothing")
            key = (id(fo), str(point.val))
            if rf is not None:
                if key in seen_f and not seen_f[key].equals(rf.val):
                    return "%s returns two values at the point %s: %s then %s" % (name(fo), point.val, seen_f[key], rf.val)
                seen_f[key] = rf.val
            if rg is not None:
                if fo.attrs.get("reuse_gradient") is True:
                    if key in seen_g and not seen_g[key].equals(rg.val):
                        return "%s is differentiable and returns two gradients at the point %s: %s then %s" % (name(fo), point.val, seen_g[key], rg.val)
                elif not (set(rg.val.atoms()) - before) and (fo is not self.F or self.some_term_not_differentiable()):
                    return "%s is not differentiable; asked for a (sub)gradient at %s it returns %s, no part of which is new (a method using two " \
                           "subgradients at one point is modelled with one)" % (name(fo), point.val, rg.val)
                seen_g[key] = rg.val
        # weighted sum
        dd = self.F.attrs.get("decomposition_dict")
        if not isinstance(dd, dict):
            raise AnalysisError("the sum has no decomposition")
        terms = [(fo, w) for fo, w in dd.items() if not (isinstance(w, Rat) and w.is_zero()) and not (isinstance(w, (int, float)) and w == 0)]
        for g0 in at[id(self.F)]:
            for (p, g, f) in g0:
                cands = []
                for fo, w in terms:
                    mine = [t for g1 in at[id(fo)] for t in g1 if t[0].val.equals(p.val)]
                    if not mine:
                        return "F has a sample at %s, its term %s has none: the sample of the sum is not a weighted sum of samples of its terms" % (p.val, name(fo))
                    cands.append([(w, t) for t in mine])
                totf = ExprV()
                for c in cands:
                    totf = totf + c[0][1][2].val.scale(c[0][0])
                if not totf.equals(f.val):
                    return "at %s the value of F is %s, the weighted sum of the values of its terms is %s" % (p.val, f.val, totf)
                ok = False
                for choice in itertools.islice(itertools.product(*cands), 4096):
                    totg = PointV()
                    for w, t in choice:
                        totg = totg + t[1].val.scale(w)
                    if totg.equals(g.val):
                        ok = True
                        break
                if not ok:
                    return "at %s the gradient %s of F is not the weighted sum of gradients recorded there for its terms (%s)" % (
                        p.val, g.val, "; ".join("%s: %s" % (name(terms[k][0]), ", ".join(str(t[1].val) for _, t in c)) for k, c in enumerate(cands)))
        if self.zero is not None:
            pass          # a term of weight zero may or may not have been asked: it has no part in any sum above
        return None


QUERIES = [("F", "oracle", "x"), ("F", "value", "x"), ("F", "gradient", "x"), ("f1", "oracle", "x"), ("f1", "value", "x"), ("f2", "gradient", "x"),
           ("F", "oracle", "y"), ("F", "stationary_point", None), ("f2", "add_point", None), ("F", "__call__", "x"), ("f2", "oracle", "x"), ("F", "add_point", None),
           ("F", "fixed_point", None), ("f1", "stationary_point", None), ("f1", "oracle", "y"), ("f1", "oracle", "s"), ("F", "oracle", "s"),
           ("f2", "add_point0", None), ("f2", "add_point@", "x"), ("F", "add_point@", "x")]


def histories(depth, quick):
    """every history of at most `depth` queries; in the quick tier (depth 2) also the histories of three queries in which the terms are asked twice
    before the sum is (among them the states in which the sum has nothing left to choose)"""
    for n in range(1, depth + 1):
        for h in itertools.product(QUERIES, repeat=n):
            if all(q[1] != "add_point@" for q in h[:-1]):
                yield h
    if quick == "triples":
        terms = [q for q in QUERIES if q[0] != "F" and q[1] != "add_point@"]
        for a in terms:
            for b in terms:
                for c in [q for q in QUERIES if q[0] == "F" and q[1] in ("oracle", "value", "gradient") and q[2] in ("x", "y")]:
                    yield (a, b, c)


def run_history(repo, flags, zero_term, hist, fflag=None):
    """-> (failure text or None, number of queries run)"""
    s = _System(repo, flags, zero_term, fflag)
    x = VecObj("Point", PointV.atom("x"), name=None)
    y = VecObj("Point", PointV.atom("y"), name=None)
    objs = {"F": s.F, "f1": s.leaves[0], "f2": s.leaves[-1]}
    n = 0
    for who, kind, pt in hist:
        if pt == "s":
            p = s.last_declared
            if p is None:
                continue          # nothing has been declared yet: the query does not exist in this history
        else:
            p = {"x": x, "y": y, None: None}[pt]
        if p is not None and n % 2 == 1:
            # the same point written another way: an object of its own with the same decomposition
            p = VecObj("Point", PointV(dict(p.val.d)), name=None)
        s.query(objs[who], kind, p)
        n += 1
        bad = s.check(only_registration=(kind == "add_point@"))
        if bad:
            return bad, n
    return None, n


_REPO = None


def _label(flags, zero_term, hist, fflag=None):
    return "%s%s%s: %s" % (", ".join("f%d %s" % (k + 1, "differentiable" if fl else "not differentiable") for k, fl in enumerate(flags)),
                           ", one more term of weight 0" if zero_term else "",
                           "" if fflag is None else ", the sum built by the constructor with reuse_gradient=%s" % fflag,
                         " then ".join("%s.%s(%s)" % (w, k, p or "") for w, k, p in hist))


def _run_config(job):
    """-> (violation text or None, analysis-error text or None, histories, queries) for one configuration (runs in a forked worker)"""
    flags, zero_term, depth, quick, fflag = job
    n_hist = n_q = 0
    for hist in histories(depth, quick):
        try:
            res, n = run_history(_REPO, flags, zero_term, hist, fflag)
        except ProgramRaise as e:
            res, n = "raises %s (%s)" % (e.exc, str(e)[:120]), len(hist)
        except AnalysisError as e:
            return None, "%s: not interpretable: %s" % (_label(flags, zero_term, hist, fflag), e), n_hist, n_q
        n_hist += 1
        n_q += n
        if res:
            return "F = %s with %s -- %s" % (" + ".join("w%d*f%d" % (k + 1, k + 1) for k in range(len(flags))), _label(flags, zero_term, hist, fflag), res), None, n_hist, n_q
    return None, None, n_hist, n_q


def r_function_system(ctx):
    global _REPO
    repo = ctx.repo
    cls = repo.cls("Function")
    anchor = cls.find_method("oracle") if cls is not None else None
    if anchor is None:
        raise AnalysisError("Function.oracle not found")
    ctx.unit("Function (stores of a weighted sum, unrolled as a system)")
    quick = ctx.tier != "thorough"
    depth = 2 if quick else 3
    # quick tier: the histories of three queries (both terms asked before the sum) in the configurations where they have found something
    tri = lambda fl, z, ff: "triples" if quick and (fl, z, ff) in (((True, True), True, None), ((True, False), False, None), ((False, False), True, None),
                                                                  ((True, True), False, False)) else False
    jobs = [(fl, z, depth, tri(fl, z, None), None) for fl in itertools.product((True, False), repeat=2) for z in (False, True)]
    jobs += [((True, True), False, depth, tri((True, True), False, False), False), ((True, True), True, depth, False, False)]
    jobs += [((True, False, True), False, 2, False, None), ((False, True, False), True, 1 if quick else 2, False, None)]
    _REPO = repo
    results = None
    try:
        import multiprocessing
        mp = multiprocessing.get_context("fork")
        with mp.Pool(max(1, min(len(jobs), int(os.environ.get("VERIF_JOBS", "0")) or (os.cpu_count() or 1)))) as pool:
            results = pool.map(_run_config, jobs, chunksize=1)
    except (ImportError, OSError, ValueError):
        results = None
    if results is None:
        results = [_run_config(j) for j in jobs]
    n_hist = sum(r[2] for r in results)
    n_q = sum(r[3] for r in results)
    bad = next((r[0] for r in results if r[0]), None)
    err = next((r[1] for r in results if r[1]), None)
    ctx.count("query histories unrolled", n_hist)
    ctx.count("queries checked", n_q)
    if err is not None and bad is None:
        ctx.notes.append("%s: %s; the per-method rules (R-ONEVALUE, R-WSUM, R-ADDPOINT) stay the deciding ones" % (RULE, err))
        return None
    ctx.ob(RULE, "Function::stores of a weighted sum along query histories (unrolled)", bad is None,
           "after every query of every history: one value per function and point, one gradient for a differentiable function, a new part in every "
           "further subgradient, returned = recorded, every sample of the sum is the weighted sum of samples of its terms, declared stationary / "
           "fixed points are new points recorded with gradient zero / the point itself" if bad is None else bad, loc(anchor, anchor))
    ctx.program_ok[("funcsys",)] = bad is None
    return bad is None
