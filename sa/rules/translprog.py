"""The two translators of an Expression into solver data, decided as programs (R-TRANSLPROG).

`expression_to_matrices` (dense, cvxpy back-end) and `expression_to_sparse_matrices` (sparse, MOSEK back-end) are unrolled by sa/miniint.py on
abstract expressions: a leaf expression, and composites whose decomposition holds a leaf expression, a constant, a squared norm and one pair of
leaf points under every configuration of its two mirrored keys (either one, both, one of them with an explicit zero weight), all weights
symbolic.  What each returns is compared with the meaning of the expression:

    value = constant + sum_k F[k] * a_k + <G, S>      with S symmetric, S[i][j] = S[j][i] = (w_ij + w_ji) / 2, S[i][i] = w_ii

dense  : (W, a, c) with (W + W^T) / 2 == S (the Gram matrix is symmetric, so only the symmetric part of W matters), a and c as above
sparse : lower-triangular triplets (i >= j) whose values, summed per position, are S[i][j]; (index, weight) pairs summing to a; the constant;
         the five index / value sequences come back as arrays (the MOSEK wrapper reads their .shape).
The two translators therefore agree on every such expression -- which is what lets the two back-ends receive the same problem."""
import ast
import itertools
from ..model import AnalysisError, src, loc, call_name, dotted, qualname, params_of
from ..miniint import IndexInterp, Matrix, SymObj, is_token
from ..nf import Rat
from .. import flow

NP, NF = 3, 4          # Point.counter, Expression.counter of the abstract model


def _model():
    pts = [SymObj("Point", counter=k, _is_leaf=True, label="p%d" % k) for k in range(NP)]
    exs = [SymObj("Expression", counter=k, _is_leaf=True, label="e%d" % k) for k in range(NF)]
    return pts, exs


def _cases():
    """(label, expression object, expected (S, a, c))"""
    w = Rat.sym
    zero = Rat(0)
    out = []
    pts, exs = _model()
    leaf = exs[2]
    leaf.attrs["decomposition_dict"] = None
    out.append(("a leaf expression", leaf, ({}, {2: Rat(1)}, zero)))
    configs = [("only (p0, p2)", w("w02"), None), ("only (p2, p0)", None, w("w20")), ("both mirrored keys", w("w02"), w("w20")),
               ("both, (p0, p2) with weight 0", zero, w("w20")), ("both, (p2, p0) with weight 0", w("w02"), zero)]
    for label, w02, w20 in configs:
        for order in (0, 1):
            pts, exs = _model()
            items = [(exs[1], w("wE")), (1, w("wc")), ((pts[1], pts[1]), w("w11"))]
            pair = []
            if w02 is not None:
                pair.append(((pts[0], pts[2]), w02))
            if w20 is not None:
                pair.append(((pts[2], pts[0]), w20))
            if order:
                pair.reverse()
            if order:
                items = pair + items
            else:
                items = items + pair
            dd = dict(items)
            e = SymObj("Expression", counter=None, _is_leaf=False, decomposition_dict=dd, label="composite")
            s02 = ((w02 if w02 is not None else zero) + (w20 if w20 is not None else zero)) / Rat(2)
            S = {(1, 1): w("w11"), (2, 0): s02, (0, 2): s02}
            out.append(("%s%s" % (label, ", pair keys first" if order else ""), e, (S, {1: w("wE")}, w("wc"))))
    return out


def _on_call(node, it):
    nm = call_name(node)
    if nm == "get_is_leaf" and isinstance(node.func, ast.Attribute):
        o = it.ev(node.func.value)
        if isinstance(o, SymObj):
            return o.attrs["_is_leaf"]
    return NotImplemented


def _env(param, e):
    return {param: e, "Expression": ("type", "Expression"), "Point": ("type", "Point"), "tuple": ("type", "tuple"), "int": ("type", "int"),
            "float": ("type", "float"), "Expression.counter": NF, "Point.counter": NP}


def _r(v):
    from fractions import Fraction
    if isinstance(v, Rat):
        return v
    if isinstance(v, float):
        return Rat(Fraction(repr(v)))
    if isinstance(v, (int, Fraction)):
        return Rat(v)
    raise AnalysisError("a weight is `%r`, not a number" % (v,))


def _eq(a, b):
    try:
        return _r(a).equals(_r(b))
    except AnalysisError:
        return False


def _vec_ok(got, want, n):
    for k in range(n):
        if not _eq(got.get(k, 0), want.get(k, Rat(0))):
            return "entry %d is %s, expected %s" % (k, got.get(k, 0), want.get(k, Rat(0)))
    return None


def r_translators(ctx):
    if getattr(ctx, "_translators_done", None) is not None:
        return ctx._translators_done
    repo = ctx.repo
    mod = repo.module("PEPit/tools/expressions_to_matrices.py")
    dense = mod.functions.get("expression_to_matrices")
    sparse = mod.functions.get("expression_to_sparse_matrices")
    if dense is None or sparse is None:
        raise AnalysisError("translators not found in PEPit/tools/expressions_to_matrices.py")
    n = 0
    for label, e, (S, a, c) in _cases():
        n += 1
        # ---- dense
        ctx.unit("expression_to_matrices")
        it = IndexInterp(_env(params_of(dense)[0], e), on_call=_on_call)
        it.home = (repo, mod, None)
        msg = None
        try:
            ret = it.run(dense.body)
            if not (isinstance(ret, tuple) and len(ret) == 3 and isinstance(ret[0], Matrix) and isinstance(ret[1], Matrix)):
                msg = "does not return (matrix of G weights, vector of F weights, constant)"
            else:
                W, av, cv = ret
                if W.shape != (NP, NP) or av.shape != (NF,):
                    msg = "returns arrays of shape %s and %s, the main variables have shape (Point.counter, Point.counter) and (Expression.counter,)" % (W.shape, av.shape)
                else:
                    for i, j in itertools.product(range(NP), repeat=2):
                        sym = (_r(W.get((i, j))) + _r(W.get((j, i)))) / Rat(2)
                        if not _eq(sym, S.get((i, j), Rat(0))):
                            msg = "the symmetric part of the G weights at (%d, %d) is %s, the expression has %s there" % (i, j, sym, S.get((i, j), Rat(0)))
                            break
                    if msg is None:
                        bad = _vec_ok({k[0] if isinstance(k, tuple) else k: v for k, v in av.writes.items()}, a, NF)
                        if bad:
                            msg = "F weights: " + bad
                    if msg is None and not _eq(cv, c):
                        msg = "the constant is %s, expected %s" % (cv, c)
        except AnalysisError as ex:
            msg = "not interpretable: %s" % ex
        ctx.ob("R-TRANSLPROG", "expression_to_matrices::%s" % label, msg is None,
               "constant + F.a + <G, W> is the expression" if msg is None else msg, loc(dense, dense))
        # ---- sparse
        ctx.unit("expression_to_sparse_matrices")
        it = IndexInterp(_env(params_of(sparse)[0], e), on_call=_on_call)
        it.home = (repo, mod, None)
        arrays = []

        def on_call2(node, it0):
            r = _on_call(node, it0)
            if r is not NotImplemented:
                return r
            if call_name(node) in ("array", "asarray") and not isinstance(node.func, ast.Name) and len(node.args) == 1:
                v = it0.ev(node.args[0])
                if isinstance(v, list):
                    arr = _Arr(v)
                    return arr
            return NotImplemented
        it.on_call = on_call2
        msg = None
        try:
            ret = it.run(sparse.body)
            if not (isinstance(ret, tuple) and len(ret) == 6):
                msg = "does not return six values"
            else:
                gi, gj, gv, fi, fv, cv = ret
                notarr = [k for k, x in enumerate((gi, gj, gv, fi, fv)) if not isinstance(x, _Arr)]
                if notarr:
                    msg = "returned value #%d is not an array (the MOSEK wrapper reads `.shape` of the index arrays)" % notarr[0]
                else:
                    gi, gj, gv, fi, fv = [list(x.items) for x in (gi, gj, gv, fi, fv)]
                    if not (len(gi) == len(gj) == len(gv)) or len(fi) != len(fv):
                        msg = "index and value sequences have different lengths (%d, %d, %d / %d, %d)" % (len(gi), len(gj), len(gv), len(fi), len(fv))
                    else:
                        tot = {}
                        for i, j, v in zip(gi, gj, gv):
                            if not (isinstance(i, int) and isinstance(j, int)) or i < j:
                                msg = "entry (%s, %s) is not in the lower triangle (MOSEK's sparse symmetric format)" % (i, j)
                                break
                            tot[(i, j)] = tot.get((i, j), Rat(0)) + _r(v)
                        if msg is None:
                            for i in range(NP):
                                for j in range(i + 1):
                                    if not _eq(tot.get((i, j), Rat(0)), S.get((i, j), Rat(0))):
                                        msg = "the lower-triangular entries at (%d, %d) sum to %s, the expression has %s there" % (i, j, tot.get((i, j), Rat(0)), S.get((i, j), Rat(0)))
                                        break
                                if msg:
                                    break
                        if msg is None:
                            fa = {}
                            for k, v in zip(fi, fv):
                                fa[k] = fa.get(k, Rat(0)) + _r(v)
                            bad = _vec_ok(fa, a, NF)
                            if bad:
                                msg = "F weights: " + bad
                        if msg is None and not _eq(cv, c):
                            msg = "the constant is %s, expected %s" % (cv, c)
        except AnalysisError as ex:
            msg = "not interpretable: %s" % ex
        ctx.ob("R-TRANSLPROG", "expression_to_sparse_matrices::%s" % label, msg is None,
               "constant + F.a + <G, sym(triplets)> is the expression" if msg is None else msg, loc(sparse, sparse))
    # a key that is neither a leaf expression, a pair of points nor the constant is rejected by both translators
    for fn0 in (dense, sparse):
        pts, exs = _model()
        e = SymObj("Expression", counter=None, _is_leaf=False, decomposition_dict={exs[1]: Rat.sym("wE"), pts[0]: Rat.sym("wP")}, label="composite")
        it = IndexInterp(_env(params_of(fn0)[0], e), on_call=_on_call)
        raised = False
        try:
            it.run(fn0.body)
        except AnalysisError as ex:
            raised = "raises" in str(ex)
        ctx.ob("R-TRANSLPROG", "%s::a key of another kind" % fn0.name, raised,
               "a decomposition key of another kind raises" if raised else "a decomposition key that is a lone point is silently ignored / accepted", loc(fn0, fn0))
    ctx.count("translator programs unrolled", 2 * n)
    ctx._translators_done = 2 * n
    return 2 * n


class _Arr:
    """result of np.array(list): keeps the items, is not a plain list any more"""

    def __init__(self, items):
        self.items = list(items)
