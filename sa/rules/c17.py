"""C17 -- dual tables report each multiplier at the pair of points it belongs to."""
import ast
from ..model import AnalysisError, src, loc, call_name, dotted, params_of, norm_stmt, is_const, get_arg, qualname, anon_src
from .. import flow
from .. import classes as K
from . import formula, common

LEVEL = "other"
EXPLANATION = ("Writer / reader agreement on the tables attribute: both generators append exactly one cell per inner iteration on every path (the "
               "constraint that is also appended to the class-constraint list, or 0), one row per outer iteration, label rows by the first list and "
               "columns by the second, and store a DataFrame under the condition name; the reader maps each cell to its multiplier in place; names are "
               "built from (function, condition, outer sample, inner sample); every store into the tables attribute anywhere holds a DataFrame; a family "
               "that emits class constraints outside the generators still names and tables them.")
TRUSTED = ["CPython ast", "pandas: DataFrame(rows, columns=..., index=...) keeps row / column order"]
ASSUMPTIONS = ["multiplier values themselves are C01's business"]


def r_align(ctx):
    ca = formula.get(ctx.repo)
    # ---- two-list generator
    g = ca.gens[K.GEN_TWO]
    fn = g.fn
    ctx.unit("Function.%s" % K.GEN_TWO)
    outer, inner = g.loops[0]["node"], g.loops[1]["node"]
    cons = g.cons_var
    # row variable: the list appended to inside the inner loop (other than the class list)
    row_apps = [c for c in ast.walk(inner) if isinstance(c, ast.Call) and call_name(c) == "append" and isinstance(c.func.value, ast.Name)]
    rows = {c.func.value.id for c in row_apps}
    ok = len(rows) == 1
    msg = "no single row list"
    table = None
    if ok:
        row = rows.pop()
        pc = flow.path_counts(inner.body, lambda n: isinstance(n, ast.Call) and call_name(n) == "append" and dotted(n.func.value) == row)
        ok = set(pc) == {"next"} and pc["next"] == {1}
        msg = "exactly one cell per pair on every path" if ok else "cells appended per pair: %s" % {k: sorted(v) for k, v in pc.items()}
        if ok:
            # emit path: the cell is the constraint; skip path: 0
            cells = {}
            for c in row_apps:
                st = common.stmt_of(c)
                same_branch_as_cb = any(n is g.cb_stmt for n in flow.block_of(st)[2])
                cells["emit" if same_branch_as_cb else "skip"] = src(c.args[0])
            ok = cells.get("emit") == cons and cells.get("skip") == "0"
            msg = "the cell of an emitted pair is its constraint, of a skipped pair 0" if ok else "cells are %s (expected the constraint `%s` / 0)" % (cells, cons)
        if ok:
            cl = [c for c in ast.walk(inner) if isinstance(c, ast.Call) and call_name(c) == "append" and dotted(c.func.value) == "self.list_of_class_constraints"]
            ok = len(cl) == 1 and dotted(cl[0].args[0]) == cons and any(n is common.stmt_of(cl[0]) for n in flow.block_of(g.cb_stmt)[2])
            if not ok:
                msg = "the constraint put in the table is not the one appended to the class-constraint list"
        if ok:
            tapp = [s for s in outer.body if isinstance(s, ast.Expr) and isinstance(s.value, ast.Call) and call_name(s.value) == "append"
                    and dotted(s.value.args[0]) == row and isinstance(s.value.func.value, ast.Name)]
            rinit = [s for s in outer.body if isinstance(s, ast.Assign) and dotted(s.targets[0]) == row and src(s.value) in ("list()", "[]")]
            ok = len(tapp) == 1 and len(rinit) == 1 and rinit[0].lineno < inner.lineno < tapp[0].lineno
            msg = "one fresh row per outer sample, appended once after its pairs" if ok else "rows are not (fresh row, inner loop, append row) per outer sample"
            if ok:
                table = tapp[0].value.func.value.id
    ctx.ob("R-ALIGN", "Function.%s::cells and rows" % K.GEN_TWO, ok, msg, loc(fn, inner))
    _dataframe(ctx, fn, g, table, two=True)
    # ---- one-list generator
    g1 = ca.gens[K.GEN_ONE]
    fn1 = g1.fn
    ctx.unit("Function.%s" % K.GEN_ONE)
    lp = g1.loops[0]["node"]
    cons = g1.cons_var
    apps = [c for c in ast.walk(lp) if isinstance(c, ast.Call) and call_name(c) == "append"]
    tnames = {c.func.value.id for c in apps if isinstance(c.func.value, ast.Name)}
    ok = len(tnames) == 1
    table1 = None
    msg = "no single table list"
    if ok:
        table1 = tnames.pop()
        pc = flow.path_counts(lp.body, lambda n: isinstance(n, ast.Call) and call_name(n) == "append" and dotted(n.func.value) in (table1, "self.list_of_class_constraints")
                              and dotted(n.args[0]) == cons)
        ok = set(pc) == {"next"} and pc["next"] == {2}
        msg = "each sample's constraint goes once to the table and once to the class-constraint list" if ok else "appends per sample: %s" % {k: sorted(v) for k, v in pc.items()}
    ctx.ob("R-ALIGN", "Function.%s::cells" % K.GEN_ONE, ok, msg, loc(fn1, lp))
    _dataframe(ctx, fn1, g1, table1, two=False)


def _names_list_source(fn, name):
    """list parameter a `point_names` comprehension ranges over"""
    for s in flow.stmts_of(fn, ast.Assign):
        if dotted(s.targets[0]) == name and isinstance(s.value, ast.ListComp) and len(s.value.generators) == 1:
            it = s.value.generators[0].iter
            base = it.args[0] if isinstance(it, ast.Call) and call_name(it) == "enumerate" and it.args else it
            return dotted(base)
    return None


def _dataframe(ctx, fn, g, table, two):
    dfs = [s for s in flow.stmts_of(fn, ast.Assign) if isinstance(s.value, ast.Call) and call_name(s.value) == "DataFrame"]
    key = "Function.%s::DataFrame" % fn.name
    if len(dfs) != 1 or table is None:
        ctx.ob("R-ALIGN", key, False, "no single DataFrame construction from the table", loc(fn, fn))
        return
    c = dfs[0].value
    data = dotted(c.args[0]) if c.args else None
    cols = dotted(get_arg(c, None, "columns"))
    idx = dotted(get_arg(c, None, "index")) if get_arg(c, None, "index") is not None else None
    lists = g.list_params
    ok = data == table
    if two:
        ok = ok and _names_list_source(fn, cols) == lists[1] and _names_list_source(fn, idx) == lists[0]
        what = "rows are labelled by the samples of the first list, columns by those of the second"
    else:
        ok = ok and _names_list_source(fn, cols) == lists[0] and idx is None
        what = "columns are labelled by the samples of the list"
    ctx.ob("R-ALIGN", key, ok, what if ok else "DataFrame(%s, columns from %s, index from %s): labels do not follow the loop order (rows = first list, columns = second list)"
           % (data, _names_list_source(fn, cols), _names_list_source(fn, idx) if idx else None), loc(fn, dfs[0]))
    df = dotted(dfs[0].targets[0])
    stores = [s for s in flow.stmts_of(fn, ast.Assign) if isinstance(s.targets[0], ast.Subscript) and dotted(s.targets[0].value) == "self.tables_of_constraints"]
    oks = len(stores) == 1 and dotted(stores[0].targets[0].slice) == g.name_param and dotted(stores[0].value) == df
    ctx.ob("R-ALIGN", "Function.%s::stored under the condition name" % fn.name, oks,
           "the table is (re)assigned under the condition name at every generation" if oks else
           "the table is not stored by `self.tables_of_constraints[<condition name>] = <DataFrame>` (e.g. setdefault keeps the table of an earlier solve)", loc(fn, stores[0] if stores else fn))
    other = [c2 for c2 in ast.walk(fn) if isinstance(c2, ast.Call) and call_name(c2) in ("setdefault", "update") and dotted(c2.func.value) == "self.tables_of_constraints"]
    if other:
        ctx.ob("R-ALIGN", "Function.%s::no conditional store" % fn.name, False, "tables are stored through `%s`: an existing table (of an earlier solve) is kept" % call_name(other[0]), loc(fn, other[0]))


def r_name(ctx):
    ca = formula.get(ctx.repo)
    for name, g in ca.gens.items():
        fn = g.fn
        sets = [c for c in ast.walk(g.loops[-1]["node"]) if isinstance(c, ast.Call) and call_name(c) == "set_name" and dotted(c.func.value) == g.cons_var]
        ok = len(sets) == 1 and isinstance(sets[0].args[0], ast.Call) and call_name(sets[0].args[0]) == "format"
        msg = "class constraints are not named once by a format call"
        if ok:
            fmt = sets[0].args[0]
            args = fmt.args
            want_n = 2 + g.arity
            roles = []
            for a in args:
                roles.append(_id_role(fn, g, a))
            want = ["function", "name"] + ["sample%d" % k for k in range(g.arity)]
            ok = roles == want and isinstance(fmt.func.value, ast.Constant) and fmt.func.value.value.count("{}") == want_n
            msg = "name = (function id, condition name, %s)" % ", ".join("sample %d id" % (k + 1) for k in range(g.arity)) if ok else \
                "name is built from %s, expected %s" % (roles, want)
            if ok:
                # same block as the callback call (named exactly when emitted)
                ok = any(n is common.stmt_of(sets[0]) for n in flow.block_of(g.cb_stmt)[2])
                if not ok:
                    msg = "the name is not set in the block that creates the constraint"
        ctx.ob("R-NAME", "Function.%s" % name, ok, msg, loc(fn, sets[0] if sets else fn))


def _defs_closure(fn, name, depth=0, seen=None):
    """Assignments defining `name`, followed through plain copies (x = y) -- helper inlining and hoisting introduce such copies."""
    seen = seen if seen is not None else set()
    if name in seen or depth > 4:
        return []
    seen.add(name)
    out = []
    for s in flow.stmts_of(fn, ast.Assign):
        if dotted(s.targets[0]) == name:
            if isinstance(s.value, ast.Name):
                out += _defs_closure(fn, s.value.id, depth + 1, seen)
            else:
                out.append(s)
    return out


def _id_role(fn, g, a):
    """'function' | 'name' | 'sample<k>' for an argument of the naming format call."""
    if not isinstance(a, ast.Name):
        return "?" + src(a)
    if a.id == g.name_param:
        return "name"
    defs = _defs_closure(fn, a.id)
    txt = " ".join(src(d.value) for d in defs)
    if "self.get_name()" in txt or "self.counter" in txt:
        return "function"
    for k, lp in enumerate(g.loops):
        comp0 = [n for n, (kk, c) in g.comp_of.items() if kk == k and c == 0]
        if comp0 and any("%s.get_name()" % comp0[0] in src(d.value) for d in defs):
            # the fallback label uses the index of the same loop
            idxs = [lp2["index"] for lp2 in g.loops]
            fb = [d for d in defs if "format(" in src(d.value)]
            if all(("format(%s)" % lp["index"]) in src(d.value) for d in fb):
                return "sample%d" % k
            return "sample%d-with-foreign-index" % k
    return "?" + a.id


def r_tabletype(ctx):
    repo = ctx.repo
    n = 0
    nth = {}
    fbase = repo.cls("Function")
    for c in [fbase] + repo.subclasses(fbase):
        for fn in c.methods.values():
            for s in flow.stmts_of(fn, ast.Assign):
                t = s.targets[0]
                if isinstance(t, ast.Subscript) and dotted(t.value) == "self.tables_of_constraints":
                    n += 1
                    v = s.value
                    is_df = False
                    if isinstance(v, ast.Name):
                        is_df = any(isinstance(d.value, ast.Call) and call_name(d.value) == "DataFrame" for d in flow.stmts_of(fn, ast.Assign) if dotted(d.targets[0]) == v.id)
                    elif isinstance(v, ast.Call) and call_name(v) == "DataFrame":
                        is_df = True
                    nth[(c.name, fn.name)] = nth.get((c.name, fn.name), 0) + 1
                    key = "%s.%s::store %d into tables_of_constraints" % (c.name, fn.name, nth[(c.name, fn.name)])
                    ctx.ob("R-TABLETYPE", key, is_df, "stores a DataFrame (what the reader iterates with iterrows / columns / index)" if is_df else
                           "stores `%s`, not a DataFrame: get_class_constraints_duals() calls .iterrows() on it and fails" % src(v)[:60], loc(fn, s))
                    alias = isinstance(v, ast.BinOp) and isinstance(v.op, ast.Mult) and any(isinstance(x, ast.List) and any(isinstance(e, (ast.List, ast.Dict)) for e in x.elts) for x in (v.left, v.right))
                    if alias:
                        ctx.ob("R-ALIAS", key, False, "`%s` repeats one mutable row object: every row of the table is the same list" % src(v)[:60], loc(fn, s))
    ctx.count("stores into the tables attribute", n)
    # reader
    fn = fbase.methods.get("get_class_constraints_duals")
    if fn is None:
        raise AnalysisError("Function.get_class_constraints_duals missing")
    ctx.unit("Function.get_class_constraints_duals")
    outer = [l for l in flow.stmts_of(fn, ast.For) if isinstance(l.iter, ast.Call) and call_name(l.iter) == "items" and dotted(l.iter.func.value) == "self.tables_of_constraints"]
    ok = len(outer) == 1
    msg = "the reader does not iterate all tables"
    if ok:
        k, t = [e.id for e in outer[0].target.elts]
        rows = [l for l in flow.stmts_of_block(outer[0]) if isinstance(l, ast.For) and isinstance(l.iter, ast.Call) and call_name(l.iter) == "iterrows" and dotted(l.iter.func.value) == t]
        ok = len(rows) == 1
        if ok:
            cells = [l for l in rows[0].body if isinstance(l, ast.For)]
            ok = len(cells) == 1 and isinstance(cells[0].target, ast.Name)
            if ok:
                e = cells[0].target.id
                arms, orelse = flow.closed_chain(cells[0].body[0]) if isinstance(cells[0].body[0], ast.If) else ([], [])
                kinds = {}
                for tst, body in arms:
                    app = [c for b in body for c in ast.walk(b) if isinstance(c, ast.Call) and call_name(c) == "append"]
                    if isinstance(tst, ast.Call) and call_name(tst) == "isinstance" and dotted(tst.args[1]) == "Constraint":
                        kinds["constraint"] = [src(a.args[0]) for a in app]
                    else:
                        kinds["scalar"] = [src(a.args[0]) for a in app]
                ok = kinds.get("constraint") == ["%s.eval_dual()" % e] and kinds.get("scalar") == [e] and bool(orelse) and flow.always_raises(orelse)
                msg = "each cell becomes its multiplier (a constraint) or itself (0), in place; anything else raises" if ok else "cell mapping is %s" % kinds
        df = [s for s in flow.stmts_of_block(outer[0]) if isinstance(s, ast.Assign) and isinstance(s.value, ast.Call) and call_name(s.value) == "DataFrame"]
        okd = len(df) == 1 and src(get_arg(df[0].value, None, "columns")) == t + ".columns" and src(get_arg(df[0].value, None, "index")) == t + ".index"
        st = [s for s in flow.stmts_of_block(outer[0]) if isinstance(s, ast.Assign) and isinstance(s.targets[0], ast.Subscript) and dotted(s.targets[0].slice) == k]
        okd = okd and len(st) == 1 and dotted(st[0].value) == dotted(df[0].targets[0])
        if ok and not okd:
            ok, msg = False, "the table of multipliers does not reuse the labels of the table of constraints / is not stored under the same key"
    ctx.ob("R-READER", "Function.get_class_constraints_duals", ok, msg, loc(fn, fn))
    # the reader computes from the current tables at every call: no write to self, no stored result returned
    from .. import effects
    ws = [w for w in effects.writes_of(repo, fn) if w.root in ("self", "alias:self") or w.root.startswith("class:")]
    stored = [r for r in ast.walk(fn) if isinstance(r, ast.Return) and (dotted(r.value) or "").startswith("self.")]
    pure = not ws and not stored
    ctx.ob("R-READER", "Function.get_class_constraints_duals::recomputed at every call", pure,
           "reads the tables of the latest generation and keeps nothing" if pure else
           "the reader %s: after a re-solve it can answer with the tables of an earlier solve"
           % ("writes `%s`" % ws[0].path if ws else "returns the stored `%s`" % src(stored[0].value)), loc(fn, ws[0].node if ws else (stored[0] if stored else fn)))
    return n


def r_bypass(ctx):
    ca = formula.get(ctx.repo)
    for c in ca.families:
        hook = ca.hooks[c.name]
        direct = [em for em in hook.emissions if em.kind == "scalar" and em.via == "direct"]
        if not direct:
            continue
        names = [e for e in hook.events if e[0] == "set-name"]
        tabs = [e for e in hook.events if e[0] == "table-append"]
        for em in direct:
            appended = getattr(em, "appended", None)
            var = dotted(appended) if appended is not None else None
            named = var is not None and any(e[1] == var for e in names)
            tabled = bool(tabs) or bool(hook.table_inits)
            ok = named and tabled
            ctx.ob("R-BYPASS", em.key, ok,
                   "class constraints emitted outside the generators are named and tabled" if ok else
                   "class constraints appended directly (%s) are %s%s%s: they carry no name identifying function / condition / pair and appear in no dual table"
                   % (src(appended)[:40] if appended is not None else "?", "" if named else "unnamed", "" if named or tabled else " and ", "" if tabled else "untabled"), em.where)
            if named:
                _hook_name_parts(ctx, c, hook, em, [e for e in names if e[1] == var][0])
                # the name mentions function id, the block / condition and both samples' ids
                ev = [e for e in names if e[1] == var][0]
                fmt = ev[2].value.args[0] if ev[2].value.args else None
                nargs = len(fmt.args) if isinstance(fmt, ast.Call) and call_name(fmt) == "format" else 0
                need = 1 + len(em.lists) + (1 if em.block else 0)
                ctx.ob("R-NAME", em.key, nargs >= need, "the name is built from %d identifying parts" % nargs if nargs >= need else
                       "the name is built from %d parts, %d are needed (function, block / condition, samples)" % (nargs, need), em.where)


def run(ctx):
    r_align(ctx)
    r_name(ctx)
    n = r_tabletype(ctx)
    r_bypass(ctx)
    ctx.floor("stores into the tables attribute", n, 3)


def _hook_name_parts(ctx, cls, hook, em, ev):
    """In a hook that names its constraints itself: the k-th sample id of the name derives from the k-th sample loop
    (its point's own name, or the fallback label built from that loop's own index)."""
    fn = hook.fn
    loops = [l for l in ev[3] if l["kind"] == "samples"]
    fmt = ev[2].value.args[0] if ev[2].value.args else None
    if not (isinstance(fmt, ast.Call) and call_name(fmt) == "format"):
        return
    ids = []
    for a in fmt.args:
        if not isinstance(a, ast.Name):
            continue
        defs = [s for s in flow.stmts_of(fn, ast.Assign) if dotted(s.targets[0]) == a.id]
        for k, l in enumerate(loops):
            # x<k> = component 0 of the loop element
            comp0 = None
            for s in flow.stmts_of(fn, ast.Assign):
                if isinstance(s.targets[0], ast.Tuple) and dotted(s.value) == l["element"] and len(s.targets[0].elts) == 3:
                    comp0 = dotted(s.targets[0].elts[0])
            if comp0 and any("%s.get_name()" % comp0 in src(d.value) for d in defs):
                fb = [d for d in defs if "format(" in src(d.value)]
                good = all(src(d.value).replace(" ", "").endswith(".format(%s)" % l["index"]) for d in fb)
                ids.append((k, a.id, good, [src(d.value) for d in fb]))
    seen = [k for k, _, _, _ in ids]
    ok = seen == list(range(len(loops))) and all(g for _, _, g, _ in ids)
    bad = [(nm, fb) for _, nm, g, fb in ids if not g]
    ctx.ob("R-NAME", em.key + "::sample ids", ok,
           "sample ids appear in loop order, each with the fallback label of its own loop index" if ok else
           ("the fallback label of `%s` is `%s`, not built from the index of its own loop" % (bad[0][0], bad[0][1][0]) if bad else
            "sample ids of the name appear in order %s, expected %s" % (seen, list(range(len(loops))))), em.where)
