"""C17 -- dual tables report each multiplier at the pair of points it belongs to."""
import ast
from ..model import AnalysisError, src, loc, call_name, dotted, params_of, norm_stmt, is_const, get_arg, qualname, anon_src
from .. import flow
from .. import classes as K
from . import formula, common

LEVEL = "other"
EXPLANATION = ("Writer / reader agreement on the tables attribute: both generators append exactly one cell per inner iteration on every path (the "
               "constraint that is also appended to the class-constraint list, or 0), one row per outer iteration, label rows by the first list and "
               "columns by the second, and store a DataFrame under the condition name; the reader maps each cell to its multiplier in place; names are "
               "built from (function, condition, outer sample, inner sample); every store into the tables attribute anywhere holds a DataFrame; a family "
               "that emits class constraints outside the generators still names and tables them."
               " R-HOOKTABLE: the hook of every family unrolled on its model: every stored table has a column (row) per sample of a recorded list of the "
               "function and a Constraint object of its own in every cell.")
TRUSTED = ["CPython ast", "pandas: DataFrame(rows, columns=..., index=...) keeps row / column order"]
ASSUMPTIONS = ["multiplier values themselves are C01's business"]


def r_align(ctx):
    ca = formula.get(ctx.repo)
    if formula._generators_by_program(ctx, ca, "table", "R-ALIGN"):
        return
    # ---- two-list generator
    g = ca.gens[K.GEN_TWO]
    fn = g.fn
    ctx.unit("Function.%s" % K.GEN_TWO)
    outer, inner = g.loops[0]["node"], g.loops[1]["node"]
    cons = g.cons_var
    # row variable: the local list appended to inside the inner loop (other than the class list)
    row_apps = [c for c in ast.walk(inner) if isinstance(c, ast.Call) and call_name(c) == "append" and isinstance(c.func.value, ast.Name)]
    rows = {c.func.value.id for c in row_apps}
    ok = len(rows) == 1
    msg = "no single row list"
    table = None
    if ok:
        row = rows.pop()
        problems = []
        for st in K.pair_states():
            for p in K.inner_paths(g, st):
                if p.kind == "raise":
                    continue
                cells = [ev.value.args[0] for ev in p.trace if isinstance(ev, ast.Expr) and isinstance(ev.value, ast.Call) and call_name(ev.value) == "append"
                         and dotted(ev.value.func.value) == row]
                cl = [ev.value.args[0] for ev in p.trace if isinstance(ev, ast.Expr) and isinstance(ev.value, ast.Call) and call_name(ev.value) == "append"
                      and dotted(ev.value.func.value) == "self.list_of_class_constraints"]
                emitted = any(ev is g.cb_stmt for ev in p.trace)
                if len(cells) != 1:
                    problems.append("%d cells for one pair (%s)" % (len(cells), st))
                elif emitted and not (dotted(cells[0]) == cons and len(cl) == 1 and dotted(cl[0]) == cons):
                    problems.append("an emitted pair puts `%s` in the table and %s in the class-constraint list (expected the constraint `%s` in both)"
                                    % (src(cells[0]), [src(x) for x in cl], cons))
                elif not emitted and not (src(cells[0]) == "0" and not cl):
                    problems.append("a skipped pair puts `%s` in the table%s (expected 0)" % (src(cells[0]), " and appends to the class list" if cl else ""))
        ok = not problems
        msg = "exactly one cell per pair on every path: the constraint (also appended to the class-constraint list) or 0" if ok else "; ".join(sorted(set(problems))[:3])
        if ok:
            tapp = [s0 for s0 in outer.body if isinstance(s0, ast.Expr) and isinstance(s0.value, ast.Call) and call_name(s0.value) == "append"
                    and dotted(s0.value.args[0]) == row and isinstance(s0.value.func.value, ast.Name)]
            rinit = [s0 for s0 in outer.body if isinstance(s0, ast.Assign) and dotted(s0.targets[0]) == row and src(s0.value) in ("list()", "[]")]
            ok = len(tapp) == 1 and len(rinit) == 1 and rinit[0].lineno < inner.lineno < tapp[0].lineno
            msg = "one fresh row per outer sample, appended once after its pairs; " + msg if ok else "rows are not (fresh row, inner loop, append row) per outer sample"
            if ok:
                table = tapp[0].value.func.value.id
    ctx.ob("R-ALIGN", "Function.%s::cells and rows" % K.GEN_TWO, ok, msg, loc(fn, inner))
    _dataframe(ctx, fn, g, table, two=True)
    # ---- one-list generator
    g1 = ca.gens[K.GEN_ONE]
    fn1 = g1.fn
    ctx.unit("Function.%s" % K.GEN_ONE)
    lp = g1.loops[0]["node"]
    cons = g1.cons_var
    apps = [c for c in ast.walk(lp) if isinstance(c, ast.Call) and call_name(c) == "append"]
    tnames = {c.func.value.id for c in apps if isinstance(c.func.value, ast.Name)}
    ok = len(tnames) == 1
    table1 = None
    msg = "no single table list"
    if ok:
        table1 = tnames.pop()
        pc = flow.path_counts(lp.body, lambda n: isinstance(n, ast.Call) and call_name(n) == "append" and dotted(n.func.value) in (table1, "self.list_of_class_constraints")
                              and dotted(n.args[0]) == cons)
        ok = set(pc) == {"next"} and pc["next"] == {2}
        msg = "each sample's constraint goes once to the table and once to the class-constraint list" if ok else "appends per sample: %s" % {k: sorted(v) for k, v in pc.items()}
    ctx.ob("R-ALIGN", "Function.%s::cells" % K.GEN_ONE, ok, msg, loc(fn1, lp))
    _dataframe(ctx, fn1, g1, table1, two=False)


def _names_list_source(fn, name):
    """list parameter a `point_names` comprehension ranges over"""
    for s in flow.stmts_of(fn, ast.Assign):
        if dotted(s.targets[0]) == name and isinstance(s.value, ast.ListComp) and len(s.value.generators) == 1:
            it = s.value.generators[0].iter
            base = it.args[0] if isinstance(it, ast.Call) and call_name(it) == "enumerate" and it.args else it
            return dotted(base)
    return None


def _dataframe(ctx, fn, g, table, two):
    dfs = [s for s in flow.stmts_of(fn, ast.Assign) if isinstance(s.value, ast.Call) and call_name(s.value) == "DataFrame"]
    key = "Function.%s::DataFrame" % fn.name
    if len(dfs) != 1 or table is None:
        ctx.ob("R-ALIGN", key, False, "no single DataFrame construction from the table", loc(fn, fn))
        return
    c = dfs[0].value
    data = dotted(c.args[0]) if c.args else None
    cols = dotted(get_arg(c, None, "columns"))
    idx = dotted(get_arg(c, None, "index")) if get_arg(c, None, "index") is not None else None
    lists = g.list_params
    ok = data == table
    if two:
        ok = ok and _names_list_source(fn, cols) == lists[1] and _names_list_source(fn, idx) == lists[0]
        what = "rows are labelled by the samples of the first list, columns by those of the second"
    else:
        ok = ok and _names_list_source(fn, cols) == lists[0] and idx is None
        what = "columns are labelled by the samples of the list"
    ctx.ob("R-ALIGN", key, ok, what if ok else "DataFrame(%s, columns from %s, index from %s): labels do not follow the loop order (rows = first list, columns = second list)"
           % (data, _names_list_source(fn, cols), _names_list_source(fn, idx) if idx else None), loc(fn, dfs[0]))
    df = dotted(dfs[0].targets[0])
    stores = [s for s in flow.stmts_of(fn, ast.Assign) if isinstance(s.targets[0], ast.Subscript) and dotted(s.targets[0].value) == "self.tables_of_constraints"]
    oks = len(stores) == 1 and dotted(stores[0].targets[0].slice) == g.name_param and dotted(stores[0].value) == df
    ctx.ob("R-ALIGN", "Function.%s::stored under the condition name" % fn.name, oks,
           "the table is (re)assigned under the condition name at every generation" if oks else
           "the table is not stored by `self.tables_of_constraints[<condition name>] = <DataFrame>` (e.g. setdefault keeps the table of an earlier solve)", loc(fn, stores[0] if stores else fn))
    if oks:
        # the only admissible guard of the store is "the table is not empty" (no sample, no table)
        badg = []
        for t, br, _ in flow.effective_guards(stores[0], stop=fn):
            txt = src(t).replace(" ", "")
            nonempty = None
            if isinstance(t, ast.Compare) and len(t.ops) == 1 and isinstance(t.left, ast.Attribute) and t.left.attr == "shape" and dotted(t.left.value) == table \
                    and txt.endswith("(0,)"):
                nonempty = isinstance(t.ops[0], ast.NotEq)
            elif isinstance(t, ast.Compare) and len(t.ops) == 1 and isinstance(t.left, ast.Call) and call_name(t.left) == "len" and is_const(t.comparators[0], 0):
                nonempty = isinstance(t.ops[0], (ast.Gt, ast.NotEq))
            elif isinstance(t, ast.Attribute) and t.attr == "size" and dotted(t.value) == table:
                nonempty = True
            elif isinstance(t, ast.Name):
                nonempty = True
            if nonempty is None or nonempty != br:
                badg.append("%s%s" % ("" if br else "not ", src(t)))
        ctx.ob("R-ALIGN", "Function.%s::table stored whenever there is a sample" % fn.name, not badg,
               "the table is stored unless it is empty" if not badg else
               "the table is stored only if %s: after a solve some condition has no table although constraints were generated" % " and ".join(badg), loc(fn, stores[0]))
    other = [c2 for c2 in ast.walk(fn) if isinstance(c2, ast.Call) and call_name(c2) in ("setdefault", "update") and dotted(c2.func.value) == "self.tables_of_constraints"]
    if other:
        ctx.ob("R-ALIGN", "Function.%s::no conditional store" % fn.name, False, "tables are stored through `%s`: an existing table (of an earlier solve) is kept" % call_name(other[0]), loc(fn, other[0]))


def r_name(ctx):
    ca = formula.get(ctx.repo)
    if formula._generators_by_program(ctx, ca, "table", "R-NAME"):
        return
    for name, g in ca.gens.items():
        fn = g.fn
        sets = [c for c in ast.walk(g.loops[-1]["node"]) if isinstance(c, ast.Call) and call_name(c) == "set_name" and dotted(c.func.value) == g.cons_var]
        args = _name_parts(sets[0].args[0]) if len(sets) == 1 and sets[0].args else None
        ok = args is not None
        msg = "class constraints are not named once from a format string"
        if ok:
            want_n = 2 + g.arity
            roles = []
            for a in args:
                roles.append(_id_role(fn, g, a))
            want = ["function", "name"] + ["sample%d" % k for k in range(g.arity)]
            ok = roles == want and len(args) == want_n
            msg = "name = (function id, condition name, %s)" % ", ".join("sample %d id" % (k + 1) for k in range(g.arity)) if ok else \
                "name is built from %s, expected %s" % (roles, want)
            if ok:
                # named exactly when emitted: the naming statement is dominated by the creation of the constraint
                ok = flow.dominates(g.cb_stmt, common.stmt_of(sets[0]))
                if not ok:
                    msg = "the name is not set on the paths that create the constraint"
        ctx.ob("R-NAME", "Function.%s" % name, ok, msg, loc(fn, sets[0] if sets else fn))


def _name_parts(e):
    """Placeholders of `"...{}...".format(a, b, ...)` or of an f-string, in order (None when the name is built another way)."""
    if isinstance(e, ast.Call) and call_name(e) == "format" and isinstance(e.func, ast.Attribute) and isinstance(e.func.value, ast.Constant):
        if e.func.value.value.count("{}") == len(e.args):
            return list(e.args)
        return None
    if isinstance(e, ast.JoinedStr):
        return [v.value for v in e.values if isinstance(v, ast.FormattedValue)]
    return None


def _defs_closure(fn, name, depth=0, seen=None):
    """Assignments defining `name`, followed through plain copies (x = y) -- helper inlining and hoisting introduce such copies."""
    seen = seen if seen is not None else set()
    if name in seen or depth > 4:
        return []
    seen.add(name)
    out = []
    for s in flow.stmts_of(fn, ast.Assign):
        if dotted(s.targets[0]) == name:
            if isinstance(s.value, ast.Name):
                out += _defs_closure(fn, s.value.id, depth + 1, seen)
            else:
                out.append(s)
    return out


def _id_role(fn, g, a):
    """'function' | 'name' | 'sample<k>' for an argument of the naming format call."""
    if not isinstance(a, ast.Name):
        return "?" + src(a)
    if a.id == g.name_param:
        return "name"
    defs = _defs_closure(fn, a.id)
    txt = " ".join(src(d.value) for d in defs)
    if "self.get_name()" in txt or "self.counter" in txt:
        return "function"
    for k, lp in enumerate(g.loops):
        comp0 = [n for n, (kk, c) in g.comp_of.items() if kk == k and c == 0]
        if comp0 and any("%s.get_name()" % comp0[0] in src(d.value) for d in defs):
            # the fallback label uses the index of the same loop
            idxs = [lp2["index"] for lp2 in g.loops]
            fb = [d for d in defs if "format(" in src(d.value)]
            if all(("format(%s)" % lp["index"]) in src(d.value) for d in fb):
                return "sample%d" % k
            return "sample%d-with-foreign-index" % k
    return "?" + a.id


def r_tabletype(ctx):
    repo = ctx.repo
    n = 0
    nth = {}
    fbase = repo.cls("Function")
    for c in [fbase] + repo.subclasses(fbase):
        for fn in c.methods.values():
            for s in flow.stmts_of(fn, ast.Assign):
                t = s.targets[0]
                if isinstance(t, ast.Subscript) and dotted(t.value) == "self.tables_of_constraints":
                    n += 1
                    v = s.value
                    is_df = False
                    if isinstance(v, ast.Name):
                        is_df = any(isinstance(d.value, ast.Call) and call_name(d.value) == "DataFrame" for d in flow.stmts_of(fn, ast.Assign) if dotted(d.targets[0]) == v.id)
                    elif isinstance(v, ast.Call) and call_name(v) == "DataFrame":
                        is_df = True
                    nth[(c.name, fn.name)] = nth.get((c.name, fn.name), 0) + 1
                    key = "%s.%s::store %d into tables_of_constraints" % (c.name, fn.name, nth[(c.name, fn.name)])
                    ctx.ob("R-TABLETYPE", key, is_df, "stores a DataFrame (what the reader iterates with iterrows / columns / index)" if is_df else
                           "stores `%s`, not a DataFrame: get_class_constraints_duals() calls .iterrows() on it and fails" % src(v)[:60], loc(fn, s))
                    alias = isinstance(v, ast.BinOp) and isinstance(v.op, ast.Mult) and any(isinstance(x, ast.List) and any(isinstance(e, (ast.List, ast.Dict)) for e in x.elts) for x in (v.left, v.right))
                    if alias:
                        ctx.ob("R-ALIAS", key, False, "`%s` repeats one mutable row object: every row of the table is the same list" % src(v)[:60], loc(fn, s))
    ctx.count("stores into the tables attribute", n)
    # reader
    fn = fbase.methods.get("get_class_constraints_duals")
    if fn is None:
        raise AnalysisError("Function.get_class_constraints_duals missing")
    ctx.unit("Function.get_class_constraints_duals")
    from ..absint import PathEval, bool_decider
    outer = [l for l in flow.stmts_of(fn, ast.For) if isinstance(l.iter, ast.Call) and call_name(l.iter) == "items" and dotted(l.iter.func.value) == "self.tables_of_constraints"]
    ok = len(outer) == 1 and isinstance(outer[0].target, ast.Tuple)
    msg = "the reader does not iterate all tables"
    if ok:
        k, t = [e.id for e in outer[0].target.elts]
        # (a) which function converts one cell: the one holding `isinstance(<cell>, Constraint)`
        conv_fn, cell = None, None
        cands = [fn] + [f2 for f2 in fbase.methods.values() if f2.name.startswith("_") and any(isinstance(c, ast.Call) and call_name(c) == f2.name for c in ast.walk(fn))]
        for c in ast.walk(fn):         # module-level helpers the reader calls
            if isinstance(c, ast.Call) and isinstance(c.func, ast.Name):
                r0 = repo.resolve_name(fn._module, c.func.id)
                if isinstance(r0, ast.FunctionDef) and r0 not in cands:
                    cands.append(r0)
        for f2 in cands:
            for c in ast.walk(f2):
                if isinstance(c, ast.Call) and call_name(c) == "isinstance" and len(c.args) == 2 and dotted(c.args[1]) == "Constraint" and isinstance(c.args[0], ast.Name):
                    conv_fn, cell = f2, c.args[0].id
        okc = conv_fn is not None
        kinds = {}
        if okc:
            # the smallest statement list containing the dispatch: the body of the innermost loop binding the cell, or the helper's body
            body = conv_fn.body
            for l in flow.stmts_of(conv_fn, ast.For):
                if isinstance(l.target, ast.Name) and l.target.id == cell:
                    body = l.body
            for kind in ("Constraint", "int", "float", "str"):
                def atom(tt, kind=kind):
                    if isinstance(tt, ast.Call) and call_name(tt) == "isinstance" and len(tt.args) == 2 and dotted(tt.args[0]) == cell:
                        ks = tt.args[1].elts if isinstance(tt.args[1], ast.Tuple) else [tt.args[1]]
                        return kind in {dotted(x) for x in ks}
                    return None
                fb = ast.FunctionDef(name="_cell", args=ast.arguments(posonlyargs=[], args=[], kwonlyargs=[], kw_defaults=[], defaults=[]), body=body, decorator_list=[])
                outs = set()
                for pth in PathEval(fb, bool_decider(atom), loop_mode="once").run():
                    if pth.kind == "raise":
                        outs.add("raise " + pth.exc)
                    elif pth.kind == "return":
                        outs.add("-> " + (pth.value_text or "None"))
                    else:
                        apps = [src(ev.value.args[0]) for ev in pth.trace if isinstance(ev, ast.Expr) and isinstance(ev.value, ast.Call) and call_name(ev.value) == "append"]
                        outs.add("-> " + (apps[0] if len(apps) == 1 else "%d appends" % len(apps)))
                kinds[kind] = outs
            want = {"Constraint": {"-> %s.eval_dual()" % cell}, "int": {"-> %s" % cell}, "float": {"-> %s" % cell}, "str": {"raise TypeError"}}
            okc = kinds == want
        ok = okc
        msg = "each cell becomes its multiplier (a constraint) or itself (a scalar), anything else raises" if ok else \
            "cell conversion per kind is %s" % {a: sorted(b) for a, b in kinds.items()}
        if ok:
            # (b) rows and cells are visited in table order: iterrows() outside, the row inside (loops or nested comprehension)
            rows_it = [n for n in ast.walk(outer[0]) if isinstance(n, ast.Call) and call_name(n) == "iterrows" and dotted(n.func.value) == t]
            ok = len(rows_it) == 1
            if ok:
                holder = rows_it[0]._parent
                rowvar = None
                if isinstance(holder, (ast.For, ast.comprehension)) and isinstance(holder.target, ast.Tuple) and len(holder.target.elts) == 2:
                    rowvar = holder.target.elts[1].id if isinstance(holder.target.elts[1], ast.Name) else None
                inner_ok = rowvar is not None and any((isinstance(n, (ast.For, ast.comprehension)) and dotted(n.iter) == rowvar) for n in ast.walk(outer[0]))
                ok = inner_ok
            if not ok:
                msg = "the table of multipliers is not built by visiting table.iterrows() and each row in order"
        df = [s0 for s0 in flow.stmts_of_block(outer[0]) if isinstance(s0, ast.Assign) and isinstance(s0.value, ast.Call) and call_name(s0.value) == "DataFrame"]
        okd = len(df) == 1 and src(get_arg(df[0].value, None, "columns")) == t + ".columns" and src(get_arg(df[0].value, None, "index")) == t + ".index"
        st = [s0 for s0 in flow.stmts_of_block(outer[0]) if isinstance(s0, ast.Assign) and isinstance(s0.targets[0], ast.Subscript) and dotted(s0.targets[0].slice) == k]
        okd = okd and len(st) == 1 and dotted(st[0].value) == dotted(df[0].targets[0])
        if ok and not okd:
            ok, msg = False, "the table of multipliers does not reuse the labels of the table of constraints / is not stored under the same key"
        if ok:
            # the data of the new table are the converted cells, untransformed: every definition of the name handed to DataFrame is the list of
            # converted rows, or a copy / array view of it
            data = df[0].value.args[0] if df[0].value.args else get_arg(df[0].value, 0, "data")
            seen_names = set()

            def plain_data(e, depth=0):
                if depth > 5:
                    return "too deep"
                if isinstance(e, ast.Name):
                    if e.id in seen_names:
                        return None
                    seen_names.add(e.id)
                    defs0 = [s0 for s0 in flow.stmts_of_block(outer[0]) if isinstance(s0, (ast.Assign, ast.AugAssign))
                             and any(dotted(t0) == e.id for t0 in (s0.targets if isinstance(s0, ast.Assign) else [s0.target]))]
                    for d0 in defs0:
                        if isinstance(d0, ast.AugAssign):
                            return "`%s`" % norm_stmt(d0)[:70]
                        r0 = plain_data(d0.value, depth + 1)
                        if r0:
                            return r0
                    return None
                if isinstance(e, ast.Call) and call_name(e) in ("array", "asarray", "list", "copy") and e.args:
                    return plain_data(e.args[0], depth + 1)
                if isinstance(e, (ast.List, ast.ListComp)) or (isinstance(e, ast.Call) and call_name(e) == "list" and not e.args):
                    return None
                return "`%s`" % src(e)[:70]
            why = plain_data(data) if data is not None else "no data argument"
            if why:
                ok, msg = False, "the table of multipliers is transformed after the cells were converted (%s): an entry (i, j) is no longer the multiplier of the constraint of the pair (i, j)" % why
        if ok:
            res = dotted(st[0].targets[0].value)
            rets = [r for r in ast.walk(fn) if isinstance(r, ast.Return)]
            if not rets or any(r.value is None or dotted(r.value) != res for r in rets) or flow.conditions_guarding(outer[0]):
                ok, msg = False, "the reader does not return the dictionary of tables it filled (`%s`) for every table" % res
    if not ok and getattr(ctx, "_reader_prog", None) is None:
        from . import genprog
        genprog.r_reader(ctx)
    if not ok and getattr(ctx, "_reader_prog", None) is True:
        # the reader was unrolled on two tables (and on a table with a cell of another kind): that decides what its cells become
        ctx.notes.append("R-READER: structural clauses not met (%s); decided by the unrolled reader (R-GENPROG)" % msg)
    else:
        ctx.ob("R-READER", "Function.get_class_constraints_duals", ok, msg, loc(fn, fn))
    # the reader computes from the current tables at every call: no write to self, no stored result returned
    from .. import effects
    ws = [w for w in effects.writes_of(repo, fn) if w.root in ("self", "alias:self") or w.root.startswith("class:")]
    stored = [r for r in ast.walk(fn) if isinstance(r, ast.Return) and (dotted(r.value) or "").startswith("self.")]
    pure = not ws and not stored
    ctx.ob("R-READER", "Function.get_class_constraints_duals::recomputed at every call", pure,
           "reads the tables of the latest generation and keeps nothing" if pure else
           "the reader %s: after a re-solve it can answer with the tables of an earlier solve"
           % ("writes `%s`" % ws[0].path if ws else "returns the stored `%s`" % src(stored[0].value)), loc(fn, ws[0].node if ws else (stored[0] if stored else fn)))
    return n


def r_bypass(ctx):
    ca = formula.get(ctx.repo)
    for c in ca.families:
        hook = ca.hooks[c.name]
        direct = [em for em in hook.emissions if em.kind == "scalar" and em.via == "direct"]
        if not direct:
            continue
        names = [e for e in hook.events if e[0] == "set-name"]
        tabs = [e for e in hook.events if e[0] == "table-append"]
        for em in direct:
            appended = getattr(em, "appended", None)
            var = dotted(appended) if appended is not None else None
            named = var is not None and any(e[1] == var for e in names)
            tabled = bool(tabs) or bool(hook.table_inits)
            ok = named and tabled
            ctx.ob("R-BYPASS", em.key, ok,
                   "class constraints emitted outside the generators are named and tabled" if ok else
                   "class constraints appended directly (%s) are %s%s%s: they carry no name identifying function / condition / pair and appear in no dual table"
                   % (src(appended)[:40] if appended is not None else "?", "" if named else "unnamed", "" if named or tabled else " and ", "" if tabled else "untabled"), em.where)
            if named:
                _hook_name_parts(ctx, c, hook, em, [e for e in names if e[1] == var][0])
                # the name mentions function id, the block / condition and both samples' ids
                ev = [e for e in names if e[1] == var][0]
                fmt = ev[2].value.args[0] if ev[2].value.args else None
                nargs = len(_name_parts(fmt) or []) if fmt is not None else 0
                need = 1 + len(em.lists) + (1 if em.block else 0)
                ctx.ob("R-NAME", em.key, nargs >= need, "the name is built from %d identifying parts" % nargs if nargs >= need else
                       "the name is built from %d parts, %d are needed (function, block / condition, samples)" % (nargs, need), em.where)


def r_nameunique(ctx):
    """Within one hook the condition names handed to the generators are pairwise distinct (a table is stored under its condition name)."""
    ca = formula.get(ctx.repo)
    for c in ca.families:
        names = [em.name for em in ca.hooks[c.name].emissions if em.via in ("two_lists", "one_list")]
        dup = sorted({n for n in names if n is not None and names.count(n) > 1})
        unnamed = [em for em in ca.hooks[c.name].emissions if em.via in ("two_lists", "one_list") and em.name is None]
        if names:
            ctx.ob("R-NAME", "%s::distinct condition names" % c.name, not dup and not unnamed,
                   "conditions %s have distinct names" % names if not dup and not unnamed else
                   ("condition name(s) %s used twice: the second table overwrites the first and the constraint names collide" % dup if dup else
                    "a generator call has no constant condition name"), "%s:%d" % (c.module.rel, ca.hooks[c.name].fn.lineno))


def r_hook_tables(ctx):
    """A hook that fills its own tables (instead of going through the generators): per pair of samples every block table receives exactly one
    cell in the row of the first sample -- 0 or the constraint that is also added to the class list -- on every path."""
    repo = ctx.repo
    fbase = repo.cls("Function")
    n = 0
    for c in repo.subclasses(fbase):
        fn = c.methods.get("add_class_constraints")
        if fn is None or not any(isinstance(s0.targets[0], ast.Subscript) and dotted(s0.targets[0].value) == "self.tables_of_constraints" for s0 in flow.stmts_of(fn, ast.Assign)):
            continue
        # the local that holds one table (list of rows) per block: built by a nested comprehension / list of lists before the sample loops
        tabs = [s0.targets[0].id for s0 in fn.body if isinstance(s0, ast.Assign) and isinstance(s0.targets[0], ast.Name)
                and isinstance(s0.value, (ast.ListComp, ast.List, ast.BinOp)) and any(isinstance(x, (ast.ListComp, ast.List)) for x in ast.walk(s0.value) if x is not s0.value)]

        def cell_append(a):
            """(block loop, row expression) when `a` appends a cell to the row of one block table, else None"""
            if not (isinstance(a, ast.Call) and call_name(a) == "append" and isinstance(a.func.value, ast.Subscript)):
                return None
            base, row = a.func.value.value, a.func.value.slice
            kl = flow.in_loop(common.stmt_of(a))
            if kl is None or not isinstance(kl, ast.For):
                return None
            it0 = iter_base_(kl.iter)
            tg = kl.target
            if isinstance(base, ast.Subscript) and isinstance(base.value, ast.Name) and base.value.id in tabs:
                kvar = tg.id if isinstance(tg, ast.Name) else (tg.elts[0].id if isinstance(tg, ast.Tuple) and isinstance(tg.elts[0], ast.Name) else None)
                rng = isinstance(it0, ast.Call) and call_name(it0) == "range" or (dotted(it0) in tabs and isinstance(tg, ast.Tuple))
                if rng and dotted(base.slice) == kvar:
                    return kl, row
                return None
            if isinstance(base, ast.Name) and dotted(it0) in tabs:
                rvar = tg.id if isinstance(tg, ast.Name) else (tg.elts[1].id if isinstance(tg, ast.Tuple) and len(tg.elts) == 2 and isinstance(tg.elts[1], ast.Name) else None)
                if base.id == rvar:
                    return kl, row
            return None
        apps = [(a, cell_append(a)) for a in ast.walk(fn)]
        apps = [(a, ca) for a, ca in apps if ca is not None]
        if not apps:
            continue
        n += 1
        key = "%s.add_class_constraints::own tables" % c.name
        msg = None
        sample_loops = [l for l in flow.stmts_of(fn, ast.For) if dotted(iter_base_(l.iter)) == "self.list_of_points"]
        outer = [l for l in sample_loops if flow.in_loop(l) is None]
        inner = [l for l in sample_loops if flow.in_loop(l) in outer]
        if len(outer) != 1 or len(inner) != 1:
            msg = "the tables are not filled inside two nested loops over the samples"
        else:
            i_var = outer[0].target.elts[0].id if isinstance(outer[0].target, ast.Tuple) and isinstance(outer[0].target.elts[0], ast.Name) else None
            kloops = []
            is_cell = lambda nd: cell_append(nd) is not None
            for a, (kl, row) in apps:
                if dotted(row) != i_var:
                    msg = "the cell `%s` goes to row `%s`, the row of the pair is that of the first sample (`%s`)" % (src(a)[:60], src(row), i_var)
                    break
                pc = flow.path_counts(kl.body, is_cell)
                counts = set()
                for kind0, cs0 in pc.items():
                    if kind0 in ("next", "continue"):
                        counts |= cs0
                if set(pc) - {"next", "continue"} or counts != {1}:
                    msg = "per block, %s cells are appended depending on the path: the row loses its alignment with the samples" % sorted(counts)
                    break
                v = a.args[0]
                if not is_const(v, 0):
                    blk0 = flow.block_of(common.stmt_of(a))[2]
                    from ..classes import _feeds_sink
                    together = [x for x in blk0 if isinstance(x, ast.Expr) and isinstance(x.value, ast.Call) and call_name(x.value) == "append"
                                and (dotted(x.value.func.value) == "self.list_of_class_constraints" or
                                     (isinstance(x.value.func.value, ast.Name) and _feeds_sink(fn, x.value.func.value.id)))       # or a local list poured into it later
                                and x.value.args and dotted(x.value.args[0]) == dotted(v)]
                    if not (isinstance(v, ast.Name) and len(together) == 1):
                        msg = "the cell `%s` is not the constraint that is added to the class list in the same iteration" % src(v)
                        break
                if kl not in kloops:
                    kloops.append(kl)
            if msg is None:
                pc = flow.path_counts(inner[0].body, lambda nd: False, lambda st: st in kloops)
                done = set()
                for kind0, cs0 in pc.items():
                    if kind0 in ("next", "continue"):
                        done |= cs0
                if set(pc) - {"next", "continue"} or done != {1}:
                    msg = "per pair of samples the block tables are extended %s times depending on the path (expected once on every path)" % sorted(done)
        ctx.ob_or_program(("hooktable", c.name), "R-ALIGN", key, msg is None,
                          "per pair of samples every block table receives exactly one cell in the row of the first sample" if msg is None else msg, loc(fn, fn))
    ctx.count("hooks filling their own tables", n)
    return n


def iter_base_(it):
    from ..model import iter_base
    return iter_base(it)[0]


def r_condition_names(ctx):
    """Where a family has two conditions on one domain, the table (and the constraint names) of each carries the name documented for that
    condition (spec/classes.py): exchanged names leave the model unchanged and attribute every multiplier to the wrong condition."""
    ca = formula.get(ctx.repo)
    n = 0
    for c in ca.families:
        for em, r in ca.matches[c.name]["pairs"]:
            if not r.get("name") or em.kind != "scalar" or getattr(em, "name", None) is None:
                continue
            n += 1
            ok = em.name == r["name"]
            ctx.ob("R-NAME", em.key + "::documented name", ok,
                   "the condition `%s` is named and tabled as '%s'" % (r.get("cond"), r["name"]) if ok else
                   "the condition `%s` is named and tabled as '%s'; that name belongs to another condition of %s (this one is '%s')"
                   % (r.get("cond"), em.name, c.name, r["name"]), em.where)
    ctx.count("named conditions on shared domains", n)


def run(ctx):
    from . import solveprog
    solveprog.r_solve_program(ctx, {"drain", "track"})    # every constraint that sits in a table is sent and tracked (trivial ones included): it gets a multiplier
    r_condition_names(ctx)
    r_nameunique(ctx)
    r_align(ctx)
    from . import hookprog
    nt = hookprog.r_hook_tables(ctx)   # the hooks unrolled: a column per recorded sample, a Constraint object of its own in every cell
    ctx.floor("tables of multipliers examined", nt, 30)
    r_hook_tables(ctx)           # the structural reading of a hook that fills its own tables; gives way to the unrolled hook
    r_name(ctx)
    n = r_tabletype(ctx)
    r_bypass(ctx)
    from . import genprog
    if getattr(ctx, "_reader_prog", "unset") == "unset":
        genprog.r_reader(ctx)
    genprog.r_generators(ctx, {"table"})   # the generators unrolled on lists with repeated points: rows / columns / cells / names of the stored tables
    ctx.floor("stores into the tables attribute", n, 3)


def _hook_name_parts(ctx, cls, hook, em, ev):
    """In a hook that names its constraints itself: the k-th sample id of the name derives from the k-th sample loop
    (its point's own name, or the fallback label built from that loop's own index)."""
    fn = hook.fn
    loops = [l for l in ev[3] if l["kind"] == "samples"]
    fmt = ev[2].value.args[0] if ev[2].value.args else None
    parts = _name_parts(fmt) if fmt is not None else None
    if parts is None:
        return
    ids = []
    for a in parts:
        if not isinstance(a, ast.Name):
            continue
        defs = _defs_closure(fn, a.id)
        for k, l in enumerate(loops):
            # x<k> = component 0 of the loop element
            comp0 = None
            for s in flow.stmts_of(fn, ast.Assign):
                if isinstance(s.targets[0], ast.Tuple) and dotted(s.value) == l["element"] and len(s.targets[0].elts) == 3:
                    comp0 = dotted(s.targets[0].elts[0])
            if comp0 and any("%s.get_name()" % comp0 in src(d.value) for d in defs):
                fb = [d for d in defs if "format(" in src(d.value)]
                good = all(src(d.value).replace(" ", "").endswith(".format(%s)" % l["index"]) for d in fb)
                ids.append((k, a.id, good, [src(d.value) for d in fb]))
    # the name starts with the function's own id, the sample ids come last
    first = parts[0] if parts else None
    fdefs = _defs_closure(fn, first.id) if isinstance(first, ast.Name) else []
    okf = isinstance(first, ast.Name) and any("self.get_name()" in src(d.value) for d in fdefs)
    id_names = [nm for _, nm, _, _ in ids]
    tail = [a.id for a in parts[-len(id_names):] if isinstance(a, ast.Name)] if id_names else []
    okf = okf and tail == id_names
    ctx.ob("R-NAME", em.key + "::function id first, sample ids last", okf,
           "the name is built from (function id, ..., first sample id, second sample id)" if okf else
           "the name parts are (%s): the function id is not first / the sample ids are not last" % ", ".join(src(a) for a in parts), em.where)
    seen = [k for k, _, _, _ in ids]
    ok = seen == list(range(len(loops))) and all(g for _, _, g, _ in ids)
    bad = [(nm, fb) for _, nm, g, fb in ids if not g]
    ctx.ob("R-NAME", em.key + "::sample ids", ok,
           "sample ids appear in loop order, each with the fallback label of its own loop index" if ok else
           ("the fallback label of `%s` is `%s`, not built from the index of its own loop" % (bad[0][0], bad[0][1][0]) if bad else
            "sample ids of the name appear in order %s, expected %s" % (seen, list(range(len(loops))))), em.where)
