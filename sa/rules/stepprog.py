"""Primitive steps unrolled by sa/miniint.py (the engine behind R-STEP).

A step function -- the implementation under PEPit/primitive_steps and its reference in spec/steps.py alike -- is run on abstract arguments: points are
vectors of the exact calculus of sa/nf.py, scalars are symbols, functions are opaque objects whose oracle / value / gradient queries, recorded
samples and side constraints are logged, the option (if any) is the concrete string under test, and a list of directions is a sequence of two
points that supports iteration only (so that arithmetic on the sequence itself -- which means something else for a list and for an array -- is
outside the fragment).  The result has the fields the comparison of sa/rules/c08.py works on: returned values, events, fresh atoms, option literals.
Helpers, module-level tables, lambdas, closures, comprehensions, try / except are followed by the interpreter, so the way a step is written does
not matter -- what it records and returns does."""
import ast
from ..model import AnalysisError, src, call_name, dotted, params_of, get_arg
from ..miniint import IndexInterp, SymObj, VecObj, ProgramRaise, is_token
from ..nf import Rat, PointV, ExprV, ConsV, TupleV, SortError, v_cmp


class OptStr(str):
    """the option under test: remembers every string it is compared with (the option literals the code dispatches on)"""
    seen = None

    def __eq__(self, other):
        if isinstance(other, str) and self.seen is not None:
            self.seen.add(str(other))
        return str.__eq__(self, other)

    def __ne__(self, other):
        r = self.__eq__(other)
        return not r

    __hash__ = str.__hash__


class Directions:
    """an iterable of points known only through iteration, and only once (a generator is an iterable too: what is left for a second pass is
    nothing); its two points are different objects that happen to carry the same name"""

    def __init__(self, items):
        self.items = list(items)
        self.used = False


class StepResult:
    def __init__(self):
        self.events = []
        self.fresh_atoms = []
        self.ret = None
        self.option_literals = set()


class _Interp(IndexInterp):
    def _iterate(self, v, node):
        if isinstance(v, Directions):
            if v.used:
                return []
            v.used = True
            return list(v.items)
        return super()._iterate(v, node)

    def _note_keys(self, opt, container):
        """the option is looked up in a table / tested for membership: the string keys are the literals the code dispatches on"""
        if isinstance(opt, OptStr) and opt.seen is not None and isinstance(container, (dict, list, tuple, set, frozenset)) and not is_token(container):
            opt.seen.update(str(k0) for k0 in container if isinstance(k0, str))

    def ev(self, e):
        if isinstance(e, ast.Subscript):
            try:
                self._note_keys(self.ev(e.slice), self.ev(e.value))
            except AnalysisError:
                pass
        if isinstance(e, ast.Call) and isinstance(e.func, ast.Attribute) and e.func.attr in ("get", "pop", "__getitem__", "__contains__", "index", "count") and e.args:
            try:
                self._note_keys(self.ev(e.args[0]), self.ev(e.func.value))
            except AnalysisError:
                pass
        if isinstance(e, ast.Compare) and len(e.ops) == 1 and isinstance(e.ops[0], (ast.In, ast.NotIn)):
            try:
                self._note_keys(self.ev(e.left), self.ev(e.comparators[0]))
            except AnalysisError:
                pass
        if isinstance(e, ast.Compare) and len(e.ops) == 1 and isinstance(e.ops[0], (ast.LtE, ast.GtE, ast.Lt, ast.Gt, ast.Eq)):
            a, b = self.ev(e.left), self.ev(e.comparators[0])
            if isinstance(a, VecObj) or isinstance(b, VecObj):
                un = lambda x: x.val if isinstance(x, VecObj) else (Rat(x) if isinstance(x, int) and not isinstance(x, bool) else
                                                                   (Rat(__import__("fractions").Fraction(repr(x))) if isinstance(x, float) else x))
                try:
                    return SymObj("Constraint", label="constraint", cons=v_cmp(e.ops[0], un(a), un(b)))
                except SortError as ex:
                    raise ProgramRaise("TypeError", "`%s`: %s" % (src(e)[:60], ex))
            # re-evaluation of the operands is avoided: compare the values already computed
            self.env["__cmp_a"], self.env["__cmp_b"] = a, b
            try:
                return super().ev(ast.Compare(left=ast.Name(id="__cmp_a", ctx=ast.Load()), ops=e.ops, comparators=[ast.Name(id="__cmp_b", ctx=ast.Load())]))
            finally:
                self.env.pop("__cmp_a", None)
                self.env.pop("__cmp_b", None)
        return super().ev(e)


def interpret(fn, sorts, option, repo=None, zeros=()):
    """-> (StepResult, outcome) with outcome 'returns' / 'falls through' / 'raises <Exception>'; zeros: positions of scalar parameters given the
    value 0 instead of a symbol (a symbol is generic: equal to nothing but itself)"""
    res = StepResult()
    ps = params_of(fn)
    if len(ps) != len(sorts):
        raise AnalysisError("%s takes %d parameters, the reference %d" % (fn.name, len(ps), len(sorts)))
    env = {"Point": ("type", "Point"), "Expression": ("type", "Expression"), "list": ("type", "list"), "tuple": ("type", "tuple"),
           "int": ("type", "int"), "float": ("type", "float"), "str": ("type", "str")}
    for k, (p, s) in enumerate(zip(ps, sorts)):
        if s == "point":
            env[p] = VecObj("Point", PointV.atom("arg%d" % k))
        elif s == "scalar":
            env[p] = Rat(0) if k in zeros else Rat.sym("arg%d" % k)
        elif s == "function":
            env[p] = SymObj("Function", label="F%d" % k, name=None)
        elif s == "points":
            env[p] = Directions([VecObj("Point", PointV.atom("arg%d[%d]" % (k, j)), name="d") for j in range(2)])
        elif s == "option":
            o = OptStr(option)
            o.seen = res.option_literals
            env[p] = o
        else:
            raise AnalysisError("unknown parameter sort %s" % s)

    def new(sort):
        a = "new%d" % (len(res.fresh_atoms) + 1)
        res.fresh_atoms.append((a, sort))
        return VecObj("Point", PointV.atom(a), name=None) if sort == "point" else VecObj("Expression", ExprV.atom(a), name=None)

    def val(x):
        return x.val if isinstance(x, VecObj) else x

    def on_call(node, it):
        nm = call_name(node)
        f = node.func
        if isinstance(f, ast.Name) and nm in ("Point", "Expression") and not (nm in it.env and not is_token(it.env[nm])):
            leaf = get_arg(node, 0, "is_leaf")
            if leaf is None or it.ev(leaf) is True:
                return new("point" if nm == "Point" else "expr")
            raise AnalysisError("%s: derived object built by hand in a step (%s)" % (fn.name, src(node)))
        if isinstance(f, ast.Name) and nm == "isinstance" and len(node.args) == 2:
            v = it.ev(node.args[0])
            t = it.ev(node.args[1])
            ts = t if isinstance(t, tuple) and not is_token(t) else (t,)
            kinds = set()
            if isinstance(v, SymObj):
                kinds.add(("type", v.kind))
            elif isinstance(v, Directions):
                kinds |= {("type", "list")}
            else:
                kinds.add(("type", type(v).__name__ if not isinstance(v, OptStr) else "str"))
            return any(k0 in kinds for k0 in ts)
        if isinstance(f, ast.Attribute):
            try:
                recv = it.ev(f.value)
            except AnalysisError:
                return NotImplemented
            if isinstance(recv, SymObj) and recv.kind == "Function":
                F = recv.attrs["label"]
                if nm in ("oracle", "value", "gradient", "subgradient", "__call__"):
                    arg = get_arg(node, 0, "point")
                    x = it.ev(arg) if arg is not None else None
                    if not (isinstance(x, VecObj) and isinstance(x.val, PointV)):
                        raise ProgramRaise("TypeError", "%s queried at a non-point" % nm)
                    res.events.append((nm if nm != "subgradient" else "gradient", F, x.val, None))
                    if nm == "oracle":
                        return (new("point"), new("expr"))
                    return new("expr") if nm in ("value", "__call__") else new("point")
                if nm == "add_point":
                    t = it.ev(get_arg(node, 0, "triplet"))
                    ok = isinstance(t, tuple) and len(t) == 3 and all(isinstance(x, VecObj) for x in t) and isinstance(t[0].val, PointV) \
                        and isinstance(t[1].val, PointV) and isinstance(t[2].val, ExprV)
                    if not ok:
                        raise ProgramRaise("TypeError", "add_point receives %r, not (point, point, expression)" % (t,))
                    res.events.append(("rec", F, TupleV([x.val for x in t]), None))
                    return None
                if nm == "add_constraint":
                    c = it.ev(get_arg(node, 0, "constraint"))
                    if not (isinstance(c, SymObj) and c.kind == "Constraint" and isinstance(c.attrs.get("cons"), ConsV)):
                        raise ProgramRaise("TypeError", "add_constraint receives %r" % (c,))
                    res.events.append(("con", F, c.attrs["cons"], None))
                    return None
                if nm == "get_name":
                    return recv.attrs.get("name")
            if isinstance(recv, SymObj) and nm == "set_name":
                return None
            if isinstance(recv, SymObj) and nm == "get_name":
                return recv.attrs.get("name")
        return NotImplemented
    it = _Interp(env, on_call=on_call, check_asserts=True)
    if repo is not None and getattr(fn, "_module", None) is not None:
        it.home = (repo, fn._module, None)
    try:
        ret = it.run(fn.body)
    except ProgramRaise as ex:
        return res, "raises " + ex.exc
    if ret is None:
        return res, "falls through"
    vals = list(ret) if isinstance(ret, (tuple, list)) and not is_token(ret) else [ret]
    out = []
    for v in vals:
        v = val(v)
        if not isinstance(v, (PointV, ExprV, Rat)):
            raise AnalysisError("%s returns `%r`, not points / expressions" % (fn.name, v))
        out.append(v)
    res.ret = out
    return res, "returns"
