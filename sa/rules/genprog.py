"""The two constraint generators of Function as programs (R-GENPROG).

(The first list of the model has four samples: an unnamed point, two evaluations at one named point, and a sample that shares its gradient
object with the first one.)

`add_constraints_from_one_list_of_points` and `add_constraints_from_two_lists_of_points` are unrolled by sa/miniint.py on small sample lists that
contain what ordinary models do not: two samples recorded at the *same* point object (a multi-valued operator evaluated twice), which therefore
carry the same label, next to an unnamed point; the same list on both sides (with and without the symmetry flag) and two different lists.  The
callback is an opaque function returning a new constraint that remembers its arguments; pandas / numpy are kept as terms.

  emit  (C04)  the class-constraint list gains exactly one condition per sample (one list), resp. per ordered pair of samples that is not a sample
               with itself and not in the half that the symmetry flag skips -- whatever the labels of the points;
  table (C17)  the table stored under the condition name has one row per sample of the first list and one column per sample of the second,
               labelled by the points' names (or Point_<index>), cell (i, j) is the condition built from (sample i, sample j) or 0 where none was
               built, and that condition is named IC_<function>_<condition>(<label i>, <label j>)."""
import ast
from ..model import AnalysisError, src, loc, call_name, dotted, qualname, params_of
from ..miniint import IndexInterp, SymObj, is_token


class _Interp(IndexInterp):
    def ev(self, e):
        if isinstance(e, ast.Attribute) and e.attr == "shape":
            b = self.ev(e.value)
            if isinstance(b, list):
                return _shape(b)
        return super().ev(e)


def _shape(b):
    if not b:
        return (0,)
    if all(isinstance(r, list) for r in b):
        inner = {_shape(r) for r in b}
        if len(inner) == 1:
            return (len(b),) + inner.pop()
    return (len(b),)


def _model(fname):
    x0 = SymObj("Point", label="x0", name=None)
    x1 = SymObj("Point", label="x1", name="x1")
    u0 = SymObj("Point", label="u0", name="u0")
    u1 = SymObj("Point", label="u1", name=None)
    mk = lambda x, k: (x, SymObj("Point", label="g%d" % k, name=None), SymObj("Expression", label="f%d" % k, name=None))
    list1 = [mk(x0, 0), mk(x1, 1), mk(x1, 2)]            # the operator was evaluated twice at x1
    list1[2] = (list1[2][0], list1[2][1], list1[1][2])   # ... as a function that is not differentiable is: same point, same value, another subgradient
    x3 = SymObj("Point", label="x3", name="x3")
    list1.append((x3, list1[0][1], SymObj("Expression", label="f3", name=None)))       # another sample with the very same gradient object (two
    #                                                                                    stationary points recorded with one shared zero point)
    list2 = [mk(u0, 3), mk(u1, 4)]
    me = SymObj("Function", label="self", name=fname, counter=7, list_of_class_constraints=[], tables_of_constraints={})
    return me, list1, list2


def _label(sample, k):
    return sample[0].attrs["name"] or "Point_%d" % k


def _run(fn, me, bindings):
    made = []

    def on_call(node, it):
        nm = call_name(node)
        f = node.func
        if isinstance(f, ast.Name) and it.env.get(f.id) == ("callback",):
            c = SymObj("Constraint", label="c%d" % len(made), args=tuple(it.call_args(node)), name=None)
            made.append(c)
            return c
        if isinstance(f, ast.Attribute):
            if nm in ("get_name", "set_name", "reshape", "flatten", "ravel", "tolist"):
                try:
                    recv = it.ev(f.value)
                except AnalysisError:
                    return NotImplemented
                if isinstance(recv, SymObj) and nm == "get_name" and not node.args:
                    return recv.attrs.get("name")
                if isinstance(recv, SymObj) and nm == "set_name":
                    v = it.ev(node.args[0]) if node.args else it.ev(node.keywords[0].value)
                    recv.attrs["name"] = v
                    return None
                if isinstance(recv, list) and nm == "reshape":
                    a = it.call_args(node)
                    a = list(a[0]) if len(a) == 1 and isinstance(a[0], (tuple, list)) else a
                    if a == [1, -1] and not any(isinstance(r, list) for r in recv):
                        return [list(recv)]
                    raise AnalysisError("reshape%s of a table" % (tuple(a),))
                if isinstance(recv, list) and nm == "tolist":
                    return recv
            if nm == "DataFrame":
                kw = {k.arg: it.ev(k.value) for k in node.keywords if k.arg}
                args = it.call_args(node)
                data = args[0] if args else kw.get("data")
                return SymObj("DataFrame", label="df", data=data, columns=kw.get("columns", args[2] if len(args) > 2 else None),
                              index=kw.get("index", args[1] if len(args) > 1 else None))
        return NotImplemented
    # class-level state: the counter has moved on since this function was created (it is the number of functions, not this function's own number)
    env = {params_of(fn)[0]: me, "str": ("type", "str"), "Function.counter": 9, "Point.counter": 12, "Expression.counter": 14}
    env.update(bindings)
    it = _Interp(env, on_call=on_call)
    it.home = (fn._module.repo, fn._module, "Function")
    it.run(fn.body)
    return made


def r_generators(ctx, clauses):
    repo = ctx.repo
    base = repo.cls("Function")
    one = base.methods.get("add_constraints_from_one_list_of_points")
    two = base.methods.get("add_constraints_from_two_lists_of_points")
    if one is None or two is None:
        raise AnalysisError("the constraint generators of Function were not found")
    n = 0
    for gen, arity in ((one, 1), (two, 2)):
        ctx.unit(qualname(gen))
        ps = params_of(gen)[1:]
        lists = [p for p in ps if "list" in p]
        cb = [p for p in ps if p.startswith("set_") or "callback" in p]
        nm = [p for p in ps if "name" in p]
        symp = [p for p in ps if "sym" in p]
        if len(lists) != arity or len(cb) != 1 or len(nm) != 1 or (arity == 2 and len(symp) != 1):
            ctx.notes.append("R-GENPROG skipped for %s: parameters %s not recognised" % (gen.name, ps))
            continue
        configs = [("one list", None, None)] if arity == 1 else [("same list", "same", False), ("same list, symmetry", "same", True), ("two lists", "other", False)]
        for fname in ("f", None):
            for label, second, sym in configs:
                me, list1, list2 = _model(fname)
                b = {lists[0]: list1, cb[0]: ("callback",), nm[0]: "cond"}
                l2 = list1
                if arity == 2:
                    l2 = list1 if second == "same" else list2
                    b[lists[1]] = l2
                    b[symp[0]] = sym
                key = "Function.%s::%s%s" % (gen.name, label, "" if fname else ", unnamed function")
                try:
                    made = _run(gen, me, b)
                except AnalysisError as ex:
                    if "the index program raises" in str(ex):
                        ctx.ob("R-GENPROG", key, False, "the generator raises on a well-formed call: %s" % ex, loc(gen, gen))
                    else:
                        ctx.notes.append("R-GENPROG skipped for %s (%s): %s" % (gen.name, label, ex))
                    continue
                n += 1
                fid = fname or "Function_7"
                if arity == 1:
                    want = [((i,), s) for i, s in enumerate(list1)]
                else:
                    want = [((i, j), si + sj) for i, si in enumerate(list1) for j, sj in enumerate(l2) if si is not sj and not (sym and i > j)]
                got = me.attrs.get("list_of_class_constraints")
                if arity == 2 and sym and isinstance(got, list):
                    # a symmetric condition may be written for either orientation of a pair: the orientation actually emitted is the expected one
                    emitted = [c.attrs.get("args") for c in got if isinstance(c, SymObj)]
                    flipped = []
                    for (i, j), a in want:
                        mirror = list1[j] + list1[i]
                        if not any(_same(g0, a) for g0 in emitted) and any(_same(g0, mirror) for g0 in emitted):
                            flipped.append(((j, i), mirror))
                        else:
                            flipped.append(((i, j), a))
                    want = flipped
                if "emit" in clauses:
                    msg = None
                    if not isinstance(got, list) or any(not isinstance(c, SymObj) or c.kind != "Constraint" for c in got):
                        msg = "the class-constraint list ends up as `%r`" % (got,)
                    else:
                        gargs = [c.attrs["args"] for c in got]
                        missing = [idx for idx, a in want if sum(1 for g0 in gargs if _same(g0, a)) == 0]
                        twice = [idx for idx, a in want if sum(1 for g0 in gargs if _same(g0, a)) > 1]
                        extra = [g0 for g0 in gargs if not any(_same(g0, a) for _, a in want)]
                        if missing:
                            msg = "no condition is emitted for %s %s (samples 1 and 2 are two evaluations at the same named point)" % (
                                "sample" if arity == 1 else "the pair of samples", missing[0] if arity == 2 else missing[0][0])
                        elif twice:
                            msg = "the condition of %s is emitted more than once" % (twice[0],)
                        elif extra:
                            msg = "a condition is emitted with the arguments %s, which is none of the expected samples / pairs" % (_names(extra[0]),)
                    ctx.ob("R-GENPROG", key + "::emit", msg is None,
                           "one condition per %s, each once" % ("sample" if arity == 1 else "admissible ordered pair") if msg is None else msg, loc(gen, gen))
                if "table" in clauses:
                    msg = None
                    tabs = me.attrs.get("tables_of_constraints")
                    df = tabs.get("cond") if isinstance(tabs, dict) else None
                    rows = [_label(s, k) for k, s in enumerate(list1)]
                    cols = [_label(s, k) for k, s in enumerate(l2)]
                    if not (isinstance(df, SymObj) and df.kind == "DataFrame"):
                        msg = "no table is stored under the condition name (tables: `%r`)" % (tabs,)
                    else:
                        data = df.attrs["data"]
                        if arity == 1:
                            okshape = isinstance(data, list) and len(data) == 1 and isinstance(data[0], list) and len(data[0]) == len(list1)
                            if not okshape:
                                msg = "the table is `%r`: expected one row with one cell per sample" % (data,)
                            elif df.attrs["columns"] != rows:
                                msg = "the columns are labelled %s, expected %s" % (df.attrs["columns"], rows)
                            else:
                                for i, s in enumerate(list1):
                                    c = data[0][i]
                                    if not (isinstance(c, SymObj) and _same(c.attrs.get("args"), s)):
                                        msg = "cell %d holds `%r`, not the condition built from sample %d" % (i, c, i)
                                        break
                                    if c.attrs.get("name") != "IC_%s_cond(%s)" % (fid, rows[i]):
                                        msg = "the condition of sample %d is named `%s`, expected `IC_%s_cond(%s)`" % (i, c.attrs.get("name"), fid, rows[i])
                                        break
                        else:
                            okshape = isinstance(data, list) and len(data) == len(list1) and all(isinstance(r, list) and len(r) == len(l2) for r in data)
                            if not okshape:
                                msg = "the table is not a %d x %d grid" % (len(list1), len(l2))
                            elif df.attrs["index"] != rows or df.attrs["columns"] != cols:
                                msg = "rows / columns are labelled %s / %s, expected %s / %s" % (df.attrs["index"], df.attrs["columns"], rows, cols)
                            else:
                                wd = dict(want)
                                for i in range(len(list1)):
                                    for j in range(len(l2)):
                                        c = data[i][j]
                                        if (i, j) in wd:
                                            if not (isinstance(c, SymObj) and _same(c.attrs.get("args"), wd[(i, j)])):
                                                msg = "cell (%d, %d) holds `%r`, not the condition built from (sample %d, sample %d)" % (i, j, c, i, j)
                                            elif c.attrs.get("name") != "IC_%s_cond(%s, %s)" % (fid, rows[i], cols[j]):
                                                msg = "the condition of the pair (%d, %d) is named `%s`, expected `IC_%s_cond(%s, %s)`" % (
                                                    i, j, c.attrs.get("name"), fid, rows[i], cols[j])
                                        elif c != 0 or isinstance(c, SymObj):
                                            msg = "cell (%d, %d), for which no condition is built, holds `%r` instead of 0" % (i, j, c)
                                        if msg:
                                            break
                                    if msg:
                                        break
                    ctx.ob("R-GENPROG", key + "::table", msg is None,
                           "rows / columns by sample, labelled by point name or Point_<index>, cell = named condition of the pair or 0" if msg is None else msg, loc(gen, gen))
    ctx.count("generator programs unrolled", n)
    for cl in clauses:
        obs = [o for o in ctx.obligations if o.rule == "R-GENPROG" and o.key.endswith("::" + cl)]
        if n >= 8 and obs and all(o.ok for o in obs):
            ctx.program_ok[("generators", cl)] = True
    return n


def _same(a, b):
    return isinstance(a, tuple) and isinstance(b, tuple) and len(a) == len(b) and all(x is y for x, y in zip(a, b))


def _names(t):
    return tuple(getattr(x, "attrs", {}).get("label", x) for x in t) if isinstance(t, tuple) else t


def r_reader(ctx):
    """`get_class_constraints_duals` unrolled on a function holding two tables (a 2 x 3 grid with cells that hold no constraint, and a single
    row): the table returned under each name has the multiplier of the constraint of cell (i, j) at (i, j), the scalar where the cell holds none,
    and the row / column labels of the table it was made from."""
    from ..nf import Rat
    repo = ctx.repo
    fn = repo.cls("Function").methods.get("get_class_constraints_duals")
    if fn is None:
        return 0
    ctx.unit(qualname(fn))
    mkc = lambda i, j: SymObj("Constraint", label="c%d%d" % (i, j), _dual_variable_value=Rat.sym("lam%d%d" % (i, j)))
    grid = [[mkc(0, 0), 0, mkc(0, 2)], [mkc(1, 0), mkc(1, 1), 0]]
    row = [[mkc(5, 0), mkc(5, 1)]]
    mkdf = lambda data, cols, idx: SymObj("DataFrame", label="table", data=data, columns=SymObj("Index", label="columns", labels=cols, name="IC_f"),
                                          index=SymObj("Index", label="index", labels=idx, name=None))
    t1 = mkdf(grid, ["a", "b", "c"], ["r0", "r1"])
    t2 = mkdf(row, ["u", "v"], [0])
    me = SymObj("Function", label="self", tables_of_constraints={"grid": t1, "row": t2})

    def on_call(node, it):
        nm = call_name(node)
        f = node.func
        if isinstance(f, ast.Attribute):
            try:
                recv = it.ev(f.value) if (dotted(f.value) or "") not in ("np", "pd", "numpy", "pandas") else None
            except AnalysisError:
                recv = None
            if isinstance(recv, SymObj) and recv.kind == "Constraint" and nm == "eval_dual" and not node.args:
                return recv.attrs["_dual_variable_value"]
            if isinstance(recv, SymObj) and recv.kind == "DataFrame":
                if nm == "iterrows" and not node.args:
                    return [(lab, list(r)) for lab, r in zip(recv.attrs["index"].attrs["labels"], recv.attrs["data"])]
                if nm in ("to_numpy", "copy") and not node.args:
                    return [list(r) for r in recv.attrs["data"]] if nm == "to_numpy" else recv
                if nm == "itertuples":
                    kw = {k.arg: it.ev(k.value) for k in node.keywords if k.arg}
                    if kw.get("index") is False:
                        return [tuple(r) for r in recv.attrs["data"]]
            if nm == "DataFrame":
                kw = {k.arg: it.ev(k.value) for k in node.keywords if k.arg}
                args = it.call_args(node)
                return SymObj("DataFrame", label="out", data=args[0] if args else kw.get("data"), columns=kw.get("columns", args[2] if len(args) > 2 else None),
                              index=kw.get("index", args[1] if len(args) > 1 else None))
            if nm in ("array", "asarray") and len(node.args) == 1:
                v = it.ev(node.args[0])
                if isinstance(v, list):
                    return v
            if isinstance(recv, list) and nm == "tolist":
                return recv
        return NotImplemented

    class _I(_Interp):
        def ev(self, e):
            if isinstance(e, ast.Attribute) and e.attr in ("values", "shape"):
                b = self.ev(e.value)
                if isinstance(b, SymObj) and b.kind == "DataFrame":
                    return [list(r) for r in b.attrs["data"]] if e.attr == "values" else _shape(b.attrs["data"])
            return super().ev(e)
    base_env = {"Constraint": ("type", "Constraint"), "float": ("type", "float"), "int": ("type", "int"), "Expression": ("type", "Expression")}
    env = dict(base_env)
    env[params_of(fn)[0]] = me
    it = _I(env, on_call=on_call)
    it.home = (repo, fn._module, "Function")
    try:
        ret = it.run(fn.body)
    except AnalysisError as ex:
        if "the index program raises" in str(ex):
            ctx.ob("R-GENPROG", "Function.get_class_constraints_duals (unrolled)", False, "the reader raises on well-formed tables: %s" % ex, loc(fn, fn))
            return 1
        ctx.notes.append("R-GENPROG reader skipped: %s" % ex)
        return 0
    msg = None
    if not (isinstance(ret, dict) and set(ret) == {"grid", "row"}):
        msg = "returns `%r`, expected one table per stored table, under the same names" % (ret,)
    else:
        for name, src_t in (("grid", t1), ("row", t2)):
            out = ret[name]
            if not (isinstance(out, SymObj) and out.kind == "DataFrame"):
                msg = "the entry `%s` is `%r`, not a table" % (name, out)
                break
            data, sdata = out.attrs["data"], src_t.attrs["data"]
            if not (isinstance(data, list) and len(data) == len(sdata) and all(isinstance(r, list) and len(r) == len(sr) for r, sr in zip(data, sdata))):
                msg = "table `%s` has not the shape of the table of constraints" % name
                break
            for i, sr in enumerate(sdata):
                for j, c in enumerate(sr):
                    want = c.attrs["_dual_variable_value"] if isinstance(c, SymObj) else c
                    got = data[i][j]
                    same = (got - want).is_zero() if type(got).__name__ == "Rat" and type(want).__name__ == "Rat" else (got == want and type(got) is type(want))
                    if not same:
                        msg = "table `%s`, cell (%d, %d): `%s`, expected `%s` (%s)" % (name, i, j, got, want, "the multiplier of the constraint of that cell"
                                                                                       if isinstance(c, SymObj) else "the scalar stored there")
                        break
                if msg:
                    break
            if msg:
                break
            for side in ("columns", "index"):
                lab = out.attrs[side]
                labs = lab.attrs["labels"] if isinstance(lab, SymObj) else lab
                if labs != src_t.attrs[side].attrs["labels"]:
                    msg = "table `%s`: the %s are labelled %s, the table of constraints has %s" % (name, side, labs, src_t.attrs[side].attrs["labels"])
                    break
            if msg:
                break
    ctx.ob("R-GENPROG", "Function.get_class_constraints_duals (unrolled)", msg is None,
           "cell (i, j) of every returned table is the multiplier of the constraint of cell (i, j), labels kept" if msg is None else msg, loc(fn, fn))
    # a cell that is neither a constraint nor a number is rejected
    me2 = SymObj("Function", label="self", tables_of_constraints={"odd": mkdf([[mkc(7, 0), "not a constraint"]], ["a", "b"], [0])})
    env2 = dict(base_env)
    env2[params_of(fn)[0]] = me2
    it2 = _I(env2, on_call=on_call)
    it2.home = (repo, fn._module, "Function")
    raised = False
    try:
        it2.run(fn.body)
    except AnalysisError as ex:
        raised = "the index program raises" in str(ex)
    ctx.ob("R-GENPROG", "Function.get_class_constraints_duals::a cell of another kind (unrolled)", raised,
           "a cell that is neither a constraint nor a number raises" if raised else "a cell of another kind (a string) is accepted into the table of multipliers", loc(fn, fn))
    ctx._reader_prog = msg is None and raised
    return 1
