"""C14 -- dimension-reduction post-processing keeps the guarantee it started from."""
from . import wrappers, pepsolve, common, mosekprog, solveprog
from . import c16

LEVEL = "other"
EXPLANATION = ("Order rules on the solve root: the multipliers are captured exactly once, after exactly one solve and before every dimension-reduction "
               "call on every path, the residual is written from that capture only and the reconstruction reads stored multipliers only (R-ORDER); dual "
               "mode returns the reconstructed constant, primal mode the solver value (R-RET); both back-ends add `objective >= optimum - tolerance`, "
               "untracked, then minimise a linear function of the Gram matrix over the stored constraints (R-HEUR); heuristic names are dispatched by a "
               "closed chain (R-OPTIONS)."
               " Also: the published Gram matrix / function values are the solver's last solution (never an eigenvalue-thresholded matrix), the heuristic receives the first optimum, the user's tolerance, the identity ('trace') or the regularised inverse ('logdet'); every argument of the call of the solve root that is spelled like one of its parameters is bound to that parameter (R-ARGBIND).")
TRUSTED = ["CPython ast"]
ASSUMPTIONS = ["'trace does not increase', 'within tolerance' and feasibility of the returned instance are numeric facts, not decided"]


def run(ctx):
    n = pepsolve.r_order(ctx)
    pepsolve.r_ret(ctx)
    pepsolve.r_primalflow(ctx)
    pepsolve.r_heurcall(ctx)
    solveprog.r_solve_program(ctx, {"duals", "heur", "primal", "return"})
    wrappers.r_heur(ctx)
    mosekprog.r_heur_objective(ctx)
    wrappers.r_mainvars(ctx)
    from . import translate
    translate.r_leafreg(ctx)     # the instance handed back after a heuristic is the one the post-solve assignment builds: a factor of (the projection of) the last Gram matrix, whatever extra argument the routine takes
    c16.r_options(ctx)
    root = common.solve_root(ctx.repo)
    na, nb = common.r_argbind(ctx, {root.name}, why=" (tolerance, regularisation, heuristic and verbosity reach the solve root under their own names)")
    ctx.floor("name-matched arguments of the solve root", nb, 3)
    ctx.floor("heuristic call sites", n, 3)
