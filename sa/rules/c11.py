"""C11 -- both solver back-ends solve the same problem and report duals in one convention."""
from . import wrappers, pepsolve, translate, state, common, mosekprog, translprog

LEVEL = "other"
EXPLANATION = ("Sibling cross-checking of the two subclasses of the wrapper base class -- the only way to examine the MOSEK back-end in this sandbox "
               "(MOSEK is not installed, the test-suite never executes it): same interface with compatible arities and initialised attributes (R-IFACE), "
               "same tracked-list discipline and alignment (R-TRACK), same sense mapping (R-SENSE), one dual sign transformation (R-SIGN), row-index "
               "bookkeeping (R-ROWIDX), provenance of matrix-variable indices (R-BARIDX) and of the objective slot (R-OBJSLOT), same heuristic constraint "
               "and objective (R-HEUR), LMI encodings (R-LMIENC), sparse translator (R-TRANSL), objective sense (R-OBJSENSE)."
               " R-ENTRY: the back-end asked for is the back-end used. R-LMIORDER: while matrix variables are numbered by creation counter, the order in "
               "which the unrolled solve root sends declared and generated LMIs."
               ' Also: MOSEK row data (Gram matrix with weight 1 on bar-variable 0, F weights on their columns), variable counts consistent with generate_problem, packed-triangle unpacking unrolled for sizes 1..4, row-index arrays not narrowed to int8; the objective leaf both back-ends are generated with is a new leaf created by every solve before anything is sent (R-FRESH: the position-based objective slot of the MOSEK back-end has no other chance of being right), and the arguments of the wrapper calls travel to the parameters of their own names (R-ARGBIND). The MOSEK methods are also unrolled as task programs against a model of the Task API (rules/mosekprog.py): rows of a scalar constraint and of every entry of 1x1..3x3 LMIs (R-MOSEKPROG), multipliers read back for every sequence of tracked kinds up to length 3 (R-MOSEKDUAL), optimiser called exactly once per solve (R-SOLVECALL), heuristic objective <W, G> from the lower triangle of the weight (R-HEUROBJ).')
TRUSTED = ["CPython ast", "MOSEK Task API facts: bar-variables and rows are numbered in append order; sparse symmetric matrices are lower-triangular; "
           "gety / getbarsj return the multipliers of rows / matrix variables"]
ASSUMPTIONS = ["equality of optimal values / instances as numbers is not decided"]


def run(ctx):
    from . import entryprog
    entryprog.r_entry(ctx)       # the back-end asked for is the back-end used (or cvxpy when it cannot run), recorded under its own name
    wrappers.r_iface(ctx)
    wrappers.r_track(ctx)
    wrappers.r_sense(ctx)
    wrappers.r_sign(ctx)
    wrappers.r_rowidx(ctx)
    nb = wrappers.r_baridx(ctx)
    wrappers.r_lmiorder(ctx)     # ... and, as long as matrix variables are numbered by creation, in which order the solve root may send LMIs
    no = wrappers.r_objslot(ctx)
    wrappers.r_heur(ctx)
    wrappers.r_lmienc(ctx)
    wrappers.r_mainvars(ctx)
    wrappers.r_trilorder(ctx)
    wrappers.r_mosekrow(ctx)
    translate.r_transl(ctx)
    translprog.r_translators(ctx)   # both translators give the expression's meaning on the same abstract expressions: they agree
    pepsolve.r_objsense(ctx)
    state.r_objective_fresh(ctx)
    nd = mosekprog.r_mosek_duals(ctx)
    mosekprog.r_solve_call(ctx)
    mosekprog.r_heur_objective(ctx)
    ctx.floor("MOSEK recovery sequences unrolled", nd, 15)
    common.r_argbind(ctx, {"prepare_heuristic", "heuristic", "generate_problem", "send_constraint_to_solver", "send_lmi_constraint_to_solver", "assign_dual_values", "expression_to_sparse_matrices", "expression_to_matrices"})
    ctx.floor("bar-variable index sites", nb, 4)
    ctx.floor("objective-slot sites", no, 2)
