"""The proof reconstruction as a program (R-SIGN, program-based part).

PEP.check_feasibility is unrolled by sa/miniint.py on an abstract solved model -- two tracked scalar constraints (one inequality, one equality)
with multipliers l0, l1 and expressions e0, e1, two tracked LMIs with dual matrices D0, D1 and expression matrices M0, M1, a residual R, the
objective leaf -- with verbosity 0.  Expression-valued quantities live in the exact vector-space calculus of sa/nf.py, so that whatever way the
combination is accumulated (in place, term by term, through helpers, with the signs distributed differently), its value can be compared with

    objective - ( sum_k l_k e_k  -  <R, Gram>  -  sum_m <D_m, M_m> )

which is the expression whose constant term certifies the bound for a maximisation with constraints e_k <= 0 (= 0), Gram >= 0, M_m >= 0.
Also decided here: every tracked object contributes exactly once, each multiplier is paired with the expression / matrix of its own object, and
the value returned is the constant term (key 1) of the pruned, symmetrised decomposition of that expression (0 when absent)."""
import ast
from ..model import AnalysisError, src, loc, call_name, dotted, qualname, params_of
from ..miniint import IndexInterp, SymObj, VecObj, is_token
from ..nf import Rat, ExprV
from . import common


def r_sign_program(ctx):
    if getattr(ctx, "_feasprog_done", False):
        return 1
    ctx._feasprog_done = True
    repo = ctx.repo
    rec = common.reconstruction_fn(repo)
    root = common.solve_root(repo)
    ctx.unit(qualname(rec))
    from .state import tracked_lists
    tracked = sorted(tracked_lists(root, repo))
    ps = params_of(rec)[1:]
    cons = [SymObj("Constraint", label="c0", equality_or_inequality="inequality", expression=VecObj("Expression", ExprV.atom("e0")), idx=0),
            SymObj("Constraint", label="c1", equality_or_inequality="equality", expression=VecObj("Expression", ExprV.atom("e1")), idx=1)]
    psds = [SymObj("PSDMatrix", label="P0", matrix_of_expressions=("matrix", 0), idx=0), SymObj("PSDMatrix", label="P1", matrix_of_expressions=("matrix", 1), idx=1)]
    holder = {}

    def on_call(node, it):
        nm = call_name(node)
        f = node.func
        if isinstance(f, ast.Attribute):
            try:
                recv = it.ev(f.value) if dotted(f.value) not in ("self", "np", "np.linalg") else None
            except AnalysisError:
                recv = None
            if isinstance(recv, SymObj) and recv.kind == "Constraint":
                if nm == "eval_dual":
                    return Rat.sym("l%d" % recv.attrs["idx"])
                if nm == "eval":
                    return ("value-of", recv.attrs["label"])
            if isinstance(recv, SymObj) and recv.kind == "PSDMatrix":
                if nm == "eval_dual":
                    return ("dual-matrix", recv.attrs["idx"])
                if nm == "eval":
                    return ("value-of", recv.attrs["label"])
            if isinstance(recv, VecObj) and nm == "eval":
                return ("value-of", "objective")
        args = None
        if nm == "dot" and len(node.args) == 2:
            a, b = it.ev(node.args[0]), it.ev(node.args[1])
            P, R = ("leaf-points",), ("residual",)
            if (a == P and b == ("R.x",)) or (a == ("x.R",) and b == P):
                return VecObj("Expression", ExprV.atom("<R,G>"))
            if a == R and b == P:
                return ("R.x",)
            if a == P and b == R:
                return ("x.R",)
            return ("call", "np.dot", (a, b), ())
        if nm in ("sum", "trace", "tensordot", "vdot", "inner") and node.args:
            vals = [it.ev(a0) for a0 in node.args]
            pair = None
            v0 = vals[0]
            if nm == "sum" and is_token(v0) and v0[0] == "op" and v0[1] == "Mult":
                pair = (v0[2], v0[3])
            elif nm in ("tensordot", "vdot", "inner") and len(vals) >= 2:
                pair = (vals[0], vals[1])
            if pair:
                kinds = {p0[0]: p0[1] for p0 in pair if isinstance(p0, tuple) and len(p0) == 2 and p0[0] in ("dual-matrix", "matrix")}
                if set(kinds) == {"dual-matrix", "matrix"}:
                    if kinds["dual-matrix"] == kinds["matrix"]:
                        return VecObj("Expression", ExprV.atom("<D%d,M%d>" % (kinds["dual-matrix"], kinds["matrix"])))
                    return VecObj("Expression", ExprV.atom("MISPAIRED <D%d,M%d>" % (kinds["dual-matrix"], kinds["matrix"])))
        if nm in ("prune_dict", "symmetrize_dict") and len(node.args) == 1:
            v = it.ev(node.args[0])
            if isinstance(v, dict):
                holder.setdefault("helpers", []).append(nm)
                return v
        if isinstance(f, ast.Name) and nm == "Expression":
            kw = {k.arg: it.ev(k.value) for k in node.keywords if k.arg}
            dd = kw.get("decomposition_dict", None)
            if kw.get("is_leaf") is False and (dd == {} or dd is None):
                return VecObj("Expression", ExprV())
        if isinstance(f, ast.Name) and nm == "isinstance":
            return True
        return NotImplemented
    obj = VecObj("Expression", ExprV.atom("objective"))

    class _DD(dict):
        pass
    env = {"self.objective": obj, "self.residual": ("residual",), "self.G_value": ("G",), "self.F_value": ("F",),
           "Point.list_of_leaf_points": ("leaf-points",), "Expression.list_of_leaf_expressions": ("leaf-expressions",),
           "Point.counter": 3, "Expression.counter": 4}
    for p0 in ps:
        env[p0] = 0 if p0 == "verbose" else ("wc-value",)
    for t in tracked:
        env["self." + t] = None
    # which tracked list holds the LMIs: the one the solve root fills next to its send_lmi_constraint_to_solver calls
    from .. import flow
    lst_p = None
    for c0 in ast.walk(root):
        if isinstance(c0, ast.Call) and call_name(c0) == "send_lmi_constraint_to_solver" and c0.args:
            blk = flow.block_of(common.stmt_of(c0))[2]
            for x in blk:
                for a0 in ast.walk(x):
                    if isinstance(a0, ast.Call) and call_name(a0) == "append" and a0.args and src(a0.args[0]) == src(c0.args[-1]) \
                            and (dotted(a0.func.value) or "").startswith("self.") and dotted(a0.func.value)[5:] in tracked:
                        lst_p = dotted(a0.func.value)[5:]
    if lst_p is None:
        cands = [t for t in tracked if "psd" in t.lower() or "lmi" in t.lower()]
        lst_p = cands[0] if len(cands) == 1 else None
    if lst_p is None:
        raise AnalysisError("the tracking list of the LMIs could not be identified")
    for t in tracked:
        env["self." + t] = (list(psds) + [psds[0]]) if t == lst_p else (list(cons) + [cons[0]])
    # the same object may be tracked twice (a constraint registered on two owners): it then counts twice, like in the solver
    env.setdefault("self.list_of_psd", [psds[0]])              # the PEP-level LMIs are only some of the tracked ones
    env.setdefault("self.list_of_constraints", [cons[1]])
    it = IndexInterp(env, on_call=on_call)
    it.home = (repo, rec._module, "PEP")
    it.symbolic_truth = False          # numeric diagnostics (is the gap large? is an eigenvalue negative?) are not followed

    # `.decomposition_dict` of the final expression: a dict whose constant entry stands for "the constant term of <that expression>"
    orig_ev = it.ev

    def ev(e):
        if isinstance(e, ast.Attribute) and e.attr == "decomposition_dict":
            base = orig_ev(e.value)
            if isinstance(base, VecObj):
                holder["final"] = base.val
                return _DD({1: ("constant-of-final",), ("other", "terms"): Rat.sym("rest")})
        return orig_ev(e)
    it.ev = ev
    msg = None
    try:
        ret = it.run(rec.body)
    except AnalysisError as e:
        raise AnalysisError("proof reconstruction not interpretable: %s" % e)
    # same run with a reconstructed expression that has no constant term: the value is 0
    env2 = dict(env)
    for t in tracked:
        env2["self." + t] = list(env["self." + t])
    it2 = IndexInterp(env2, on_call=on_call)
    it2.home = (repo, rec._module, "PEP")
    it2.symbolic_truth = False
    orig2 = it2.ev

    def ev2(e):
        if isinstance(e, ast.Attribute) and e.attr == "decomposition_dict":
            base = orig2(e.value)
            if isinstance(base, VecObj):
                return _DD({("other", "terms"): Rat.sym("rest")})
        return orig2(e)
    it2.ev = ev2
    try:
        ret0 = it2.run(rec.body)
    except AnalysisError as e:
        ret0 = "error: %s" % e
    final = holder.get("final")
    want = ExprV.atom("objective") + ExprV.atom("<R,G>") + ExprV.atom("<D0,M0>").scale(Rat(2)) + ExprV.atom("<D1,M1>") \
        - ExprV.atom("e0").scale(Rat.sym("l0") * Rat(2)) - ExprV.atom("e1").scale(Rat.sym("l1"))
    if final is None:
        msg = "the reconstruction never takes the decomposition of an expression built from the objective and the multipliers"
    elif not final.equals(want):
        msg = ("the reconstructed expression is `%s`; a maximisation with constraints e <= 0 (= 0), Gram >= 0 and LMIs >= 0 needs "
               "`objective + <R, G> + sum <D, M> - sum l * e` = `%s` (every tracked entry once -- an object tracked twice counts twice --, each multiplier with its own object)" % (final, want))
    elif ret != ("constant-of-final",):
        msg = "the value returned is `%r`, not the constant term (key 1) of the reconstructed expression" % (ret,)
    elif not (ret0 == 0 or (isinstance(ret0, float) and ret0 == 0.0)):
        msg = "when the reconstructed expression has no constant term the value returned is `%r`, expected 0" % (ret0,)
    elif sorted(set(holder.get("helpers", []))) != ["prune_dict", "symmetrize_dict"]:
        msg = "the decomposition is read through %s, expected prune(symmetrize(...))" % holder.get("helpers")
    if msg is None:
        ctx.program_ok[("reconstruction",)] = True
    ctx.ob("R-SIGN", "PEP.%s::Lagrangian (unrolled)" % rec.name, msg is None,
           "objective - (sum l_k e_k - <R, Gram> - sum <D_m, M_m>), every tracked object once, its constant term returned" if msg is None else msg, loc(rec, rec))
    # the constant is absent: 0
    return 1
