"""C06 -- point / expression algebra is a faithful vector-space and inner-product calculus."""
import ast
from ..model import AnalysisError, src, loc, call_name, dotted, params_of, norm_stmt, is_const, get_arg, qualname
from ..nf import Evaluator, Rat, PointV, ExprV, ConsV, TupleV, Opaque, SortError, v_add, v_neg, v_mul, v_div
from .. import flow, effects
from . import wrappers, common, dictops

LEVEL = "other"
EXPLANATION = ("No operator of the three DSL classes nor any dictionary helper writes to an operand or creates a leaf (effect summaries over the call "
               "graph rooted at the 33 operator methods, with constant-argument refinement of the constructors); every binary operator accepts exactly "
               "the documented operand kinds and rejects the others, directly or through its delegation chain; base operators have the documented "
               "shape (merge / scale / multiply of decompositions into a new non-leaf object) and derived operators are definitional when rewritten to "
               "normal form; comparisons yield left-minus-right with the sense written; the four dictionary helpers are interpreted abstractly per key "
               "class and compared with their specification.")
TRUSTED = ["CPython ast", "effect summaries of sa/effects.py", "python semantics of dict / operator dispatch"]
ASSUMPTIONS = ["floating-point arithmetic on coefficients is not analysed"]

DSL = ("Point", "Expression", "Function")
OPS = ("__add__", "__radd__", "__sub__", "__rsub__", "__neg__", "__mul__", "__rmul__", "__truediv__", "__pow__",
       "__le__", "__lt__", "__ge__", "__gt__", "__eq__")


NOMUT_EXCEPTIONS = {
    "Function.__init__::Function.list_of_functions": (
        "Function.list_of_functions.append(self)",
        "every function, leaf or composite, registers itself: the registry is how the constraints a user attaches to a composite reach the "
        "solver (C05 R-DRAIN); no operand is touched and no leaf index is taken"),
}


def operator_methods(repo):
    out = []
    for c in DSL:
        cls = repo.cls(c)
        for o in OPS:
            if o in cls.methods:
                out.append(cls.methods[o])
    return out


# ---------------------------------------------------------------------------------------------------
def r_nomut(ctx):
    repo = ctx.repo
    roots = operator_methods(repo)
    dmod = repo.module("PEPit/tools/dict_operations.py")
    helpers = list(dmod.functions.values())
    ctx.count("operator methods", len(roots))
    ctx.count("dictionary helpers", len(helpers))
    seen = set()
    bad = {}

    def visit(fn, leaf_arg, trail):
        k = (id(fn), leaf_arg)
        if k in seen or len(trail) > 10:
            return
        seen.add(k)
        ctx.unit(qualname(fn))
        is_init = fn.name == "__init__"
        for w in effects.writes_of(repo, fn):
            conds = flow.conditions_guarding(common.stmt_of(w.node))
            under_leaf = any(isinstance(t, ast.Name) and t.id == "is_leaf" and br for t, br, _ in conds)
            if under_leaf and leaf_arg is False:
                continue
            root = w.root
            if root == "fresh" or root.startswith("unknown"):
                continue
            if is_init and root == "self" and w.kind == "rebind":
                continue            # the constructor initialises the new object
            if root.startswith("class:") or root.startswith("global:"):
                why = "changes class-level / global state `%s` (a leaf or a counter is created by an operator)" % w.path
            else:
                why = "writes `%s` of %s" % (w.path, "an operand" if root in ("self",) or root.startswith("param:") or root.startswith("alias:") else root)
            bad.setdefault("%s::%s" % (qualname(fn), w.path), (fn, w, why, trail + [qualname(fn)]))
        for call in [n for n in ast.walk(fn) if isinstance(n, ast.Call)]:
            targets, note = effects.resolve_call(repo, fn, call)
            if note != "resolved":
                continue
            la = None
            if call_name(call) in DSL + ("Constraint", "PSDMatrix"):
                a = get_arg(call, 0, "is_leaf")
                if call_name(call) in DSL:
                    la = True if a is None else (a.value if isinstance(a, ast.Constant) else None)
            for t in targets:
                visit(t, la if t.name == "__init__" else None, trail + [qualname(fn)])

    for r in roots + helpers:
        visit(r, None, [])
    ctx.count("functions reachable from the operators", len({k[0] for k in seen}))
    real = 0
    for key, (fn, w, why, trail) in sorted(bad.items()):
        if fn.name == "__init__" and w.root.startswith("class:") and isinstance(w.node, ast.AugAssign) and getattr(fn, "_cls", None) is not None \
                and fn._cls.name in ("Constraint", "PSDMatrix"):
            ctx.ob("R-NOMUT", key, True, "identifier counter of the new constraint object (no operand touched)", loc(fn, w.node))
            continue
        if key in NOMUT_EXCEPTIONS and norm_stmt(common.stmt_of(w.node)) == NOMUT_EXCEPTIONS[key][0]:
            ctx.ob("R-NOMUT", key, True, "recorded exception: " + NOMUT_EXCEPTIONS[key][1], loc(fn, w.node))
            continue
        real += 1
        ctx.ob("R-NOMUT", key, False, "%s (reached through %s)" % (why, " -> ".join(trail)), loc(fn, w.node))
    ctx.ob("R-NOMUT", "operators and dictionary helpers", real == 0,
           "no write reaches an operand, a registry or a leaf counter from any operator or helper" if real == 0 else "%d write(s) reported above" % real, "PEPit/")


# ---------------------------------------------------------------------------------------------------
KIND_TABLE = {
    ("Point", "__add__"): {"Point"}, ("Point", "__sub__"): {"Point"},
    ("Point", "__rmul__"): {"Point", "int", "float"}, ("Point", "__mul__"): {"Point", "int", "float"},
    ("Point", "__truediv__"): {"int", "float"},
    ("Expression", "__add__"): {"Expression", "int", "float"}, ("Expression", "__radd__"): {"Expression", "int", "float"},
    ("Expression", "__sub__"): {"Expression", "int", "float"}, ("Expression", "__rsub__"): {"Expression", "int", "float"},
    ("Expression", "__rmul__"): {"int", "float"}, ("Expression", "__mul__"): {"int", "float"}, ("Expression", "__truediv__"): {"int", "float"},
    ("Expression", "__le__"): {"Expression", "int", "float"}, ("Expression", "__lt__"): {"Expression", "int", "float"},
    ("Expression", "__ge__"): {"Expression", "int", "float"}, ("Expression", "__gt__"): {"Expression", "int", "float"},
    ("Expression", "__eq__"): {"Expression", "int", "float"},
    ("Function", "__add__"): {"Function"}, ("Function", "__sub__"): {"Function"},
    ("Function", "__rmul__"): {"int", "float"}, ("Function", "__mul__"): {"int", "float"}, ("Function", "__truediv__"): {"int", "float"},
}
ALL_KINDS = {"Point", "Expression", "Function", "int", "float"}
NEG_DOMAIN = ALL_KINDS           # every kind has a unary minus that keeps the kind
RECIP_DOMAIN = {"int", "float"}  # 1 / x is a scalar only for scalars (anything else raises TypeError in python)


def _isinstance_kinds(test, var):
    """kinds K such that the test is `isinstance(var, K1) or isinstance(var, K2) ...` (None when another shape)"""
    terms = test.values if isinstance(test, ast.BoolOp) and isinstance(test.op, ast.Or) else [test]
    out = set()
    for t in terms:
        if isinstance(t, ast.Call) and call_name(t) == "isinstance" and len(t.args) == 2 and dotted(t.args[0]) == var:
            k = t.args[1]
            ks = k.elts if isinstance(k, ast.Tuple) else [k]
            for x in ks:
                out.add(dotted(x))
        else:
            return None
    return out


def accepted_kinds(cls, fn, depth=0):
    """Kinds of the second operand for which the operator does not raise (None = unrestricted)."""
    ps = params_of(fn)
    if len(ps) < 2 or depth > 5:
        return None
    var = ps[1]
    acc = None
    for s in fn.body:
        if isinstance(s, ast.Assert):
            k = _isinstance_kinds(s.test, var)
            if k is not None:
                acc = k if acc is None else acc & k
            continue
        if isinstance(s, ast.If):
            arms, orelse = flow.closed_chain(s)
            ks = [_isinstance_kinds(t, var) for t, _ in arms]
            if all(k is not None for k in ks):
                if orelse and flow.always_raises(orelse):
                    k = set().union(*ks)
                    acc = k if acc is None else acc & k
                    return acc
                return None if acc is None else acc
            continue
        if isinstance(s, ast.Return):
            d = _delegation(cls, s.value, var, depth)
            if d is not None:
                return d if acc is None else acc & d
            return acc
        if isinstance(s, ast.Expr):
            continue
    return acc


def _delegation(cls, expr, var, depth):
    """self.__op__(f(other)) / -self.__op__(...) / (-self <= -other) / Constraint(self - other, ...)"""
    e = expr
    while isinstance(e, ast.UnaryOp):
        e = e.operand
    if isinstance(e, ast.Call) and isinstance(e.func, ast.Attribute) and dotted(e.func.value) == "self" and e.func.attr.startswith("__"):
        target = cls.find_method(e.func.attr)
        if target is None:
            return None
        a = e.args[0] if e.args else (e.keywords[0].value if e.keywords else None)
        inner = accepted_kinds(cls, target, depth + 1)
        dom = _transform_domain(a, var)
        if dom is None:
            return inner
        return dom if inner is None else inner & dom
    if isinstance(e, ast.Compare):
        # -self <= -other   : Expression comparison of the negated operands
        sides = [e.left] + list(e.comparators)
        for sd in sides:
            x = sd
            while isinstance(x, ast.UnaryOp):
                x = x.operand
            if dotted(x) == var:
                m = cls.find_method({ast.LtE: "__le__", ast.GtE: "__ge__", ast.Lt: "__lt__", ast.Gt: "__gt__", ast.Eq: "__eq__"}[type(e.ops[0])])
                return accepted_kinds(cls, m, depth + 1) if m is not None else None
    if isinstance(e, ast.Call) and call_name(e) == "Constraint":
        a = get_arg(e, 0, "expression")
        if isinstance(a, ast.BinOp) and dotted(a.left) == "self" and dotted(a.right) == var:
            m = cls.find_method({ast.Sub: "__sub__", ast.Add: "__add__"}.get(type(a.op), ""))
            return accepted_kinds(cls, m, depth + 1) if m is not None else None
    return None


def _transform_domain(a, var):
    if a is None:
        return None
    if dotted(a) == var:
        return set(ALL_KINDS)
    if isinstance(a, ast.UnaryOp) and isinstance(a.op, ast.USub) and dotted(a.operand) == var:
        return set(NEG_DOMAIN)
    if isinstance(a, ast.BinOp) and isinstance(a.op, ast.Div) and dotted(a.right) == var:
        return set(RECIP_DOMAIN)
    if dotted(a) == "self":
        return None
    return None


def r_closed(ctx):
    repo = ctx.repo
    n = 0
    for (cname, op), want in sorted(KIND_TABLE.items()):
        cls = repo.cls(cname)
        fn = cls.methods.get(op)
        if fn is None:
            ctx.ob("R-CLOSED", "%s.%s" % (cname, op), False, "documented operator is not defined", cls.module.rel)
            continue
        n += 1
        got = accepted_kinds(cls, fn)
        ok = got is not None and got == want
        ctx.ob("R-CLOSED", "%s.%s" % (cname, op), ok,
               "accepts exactly %s and raises otherwise" % sorted(want) if ok else
               "accepts %s; documented operand kinds are %s (another kind must raise instead of producing an object with another meaning)"
               % ("any operand" if got is None else sorted(got), sorted(want)), loc(fn, fn))
    # Point ** power accepts power == 2 only
    fn = repo.cls("Point").methods.get("__pow__")
    ok = fn is not None and any(isinstance(s, ast.Assert) and src(s.test).replace(" ", "") in ("power==2", "2==power") for s in fn.body)
    ctx.ob("R-CLOSED", "Point.__pow__", ok, "only the square of a point is defined" if ok else "the exponent is not restricted to 2", loc(fn, fn) if fn else "PEPit/point.py")
    ctx.count("operators with documented operand kinds", n)
    return n


# ---------------------------------------------------------------------------------------------------
class _OpEval(Evaluator):
    """Normal form of what a derived operator returns, base operators taken with their intended meaning."""

    def __init__(self, cls, env, base, depth=0):
        super().__init__(env)
        self.cls, self.base, self.depth = cls, base, depth

    def name(self, node):
        raise AnalysisError("unbound name %s" % node.id)

    def call(self, node):
        nm = call_name(node)
        if isinstance(node.func, ast.Attribute) and dotted(node.func.value) == "self" and nm.startswith("__"):
            a = node.args[0] if node.args else (node.keywords[0].value if node.keywords else None)
            arg = self.ev(a) if a is not None else None
            me = self.env["self"]
            if nm in self.base:
                return self.base[nm](me, arg)
            m = self.cls.find_method(nm)
            if m is not None and self.depth < 4:
                return eval_operator(self.cls, m, me, arg, self.base, self.depth + 1)
        raise AnalysisError("call %s" % src(node))


def eval_operator(cls, fn, a, b, base, depth=0):
    ps = params_of(fn)
    env = {"self": a}
    if len(ps) > 1:
        env[ps[1]] = b
    ev = _OpEval(cls, env, base, depth)
    for s in fn.body:
        if isinstance(s, ast.Return):
            return ev.ev(s.value)
        if isinstance(s, (ast.Assert, ast.Expr)):
            continue
        raise AnalysisError("%s.%s: statement `%s` outside the analysed fragment" % (cls.name, fn.name, norm_stmt(s)[:50]))
    raise AnalysisError("%s.%s returns nothing" % (cls.name, fn.name))


def r_reflect(ctx):
    repo = ctx.repo
    for cname in ("Point", "Expression"):
        cls = repo.cls(cname)
        if cname == "Point":
            a, b, c = PointV.atom("a"), PointV.atom("b"), Rat.sym("c")
            base = {"__add__": lambda x, y: v_add(x, y), "__rmul__": lambda x, y: v_mul(y, x)}
            table = {"__sub__": (b, a - b), "__neg__": (None, -a), "__mul__": (c, a.scale(c)), "__truediv__": (c, a.scale(Rat(1) / c)),
                     "__pow__": (Rat(2), a.dot(a))}
        else:
            a, b, c = ExprV.atom("a"), ExprV.atom("b"), Rat.sym("c")
            base = {"__add__": lambda x, y: v_add(x, y), "__rmul__": lambda x, y: v_mul(y, x)}
            table = {"__sub__": (b, a - b), "__neg__": (None, -a), "__mul__": (c, a.scale(c)), "__truediv__": (c, a.scale(Rat(1) / c)),
                     "__radd__": (c, a + c), "__rsub__": (c, ExprV.const(c) - a)}
        for op, (arg, want) in table.items():
            fn = cls.methods.get(op)
            if fn is None:
                ctx.ob("R-REFLECT", "%s.%s" % (cname, op), False, "operator not defined", cls.module.rel)
                continue
            try:
                got = eval_operator(cls, fn, a, arg, base)
                ok = type(got) is type(want) and got.equals(want)
                msg = "denotes `%s`" % want if ok else "denotes `%s`, expected `%s`" % (got, want)
            except (AnalysisError, SortError) as e:
                ok, msg = False, "not definitional: %s" % e
            ctx.ob("R-REFLECT", "%s.%s" % (cname, op), ok, msg, loc(fn, fn))
    # Function: same delegation shape
    cls = repo.cls("Function")
    for op, target, argshape in (("__sub__", "__add__", "neg"), ("__neg__", "__rmul__", "-1"), ("__mul__", "__rmul__", "same"), ("__truediv__", "__rmul__", "recip")):
        fn = cls.methods.get(op)
        ok = False
        if fn is not None:
            rets = [s for s in fn.body if isinstance(s, ast.Return)]
            if len(rets) == 1 and isinstance(rets[0].value, ast.Call) and dotted(rets[0].value.func) == "self." + target:
                c = rets[0].value
                a = c.args[0] if c.args else c.keywords[0].value
                p = params_of(fn)[1] if len(params_of(fn)) > 1 else None
                ok = {"neg": isinstance(a, ast.UnaryOp) and isinstance(a.op, ast.USub) and dotted(a.operand) == p,
                      "-1": isinstance(a, ast.UnaryOp) and isinstance(a.op, ast.USub) and is_const(a.operand, 1) or is_const(a, -1),
                      "same": dotted(a) == p,
                      "recip": isinstance(a, ast.BinOp) and isinstance(a.op, ast.Div) and is_const(a.left, 1) and dotted(a.right) == p}[argshape]
        ctx.ob("R-REFLECT", "Function.%s" % op, ok, "defined through %s" % target if ok else "not the documented delegation to %s" % target, loc(fn, fn) if fn else cls.module.rel)


# ---------------------------------------------------------------------------------------------------
def r_baseops(ctx):
    """Shape of the base operators: merge / scale / multiply of decompositions into a NEW non-leaf object."""
    repo = ctx.repo
    for cname in DSL:
        cls = repo.cls(cname)
        add = cls.methods.get("__add__")
        other = params_of(add)[1]
        merges = [c for c in ast.walk(add) if isinstance(c, ast.Call) and call_name(c) == "merge_dict"]
        want = [{"self.decomposition_dict", "%s.decomposition_dict" % other}]
        if cname == "Expression":
            want.append({"self.decomposition_dict", "{1: %s}" % other})
        got = [{src(a) for a in m.args} for m in merges]
        ok = sorted(map(sorted, got)) == sorted(map(sorted, want))
        rets = [r for r in ast.walk(add) if isinstance(r, ast.Return)]
        okr = len(rets) == 1 and _new_nonleaf(rets[0].value, cname, add, merges)
        ctx.ob("R-BASEOPS", "%s.__add__" % cname, ok and okr,
               "returns a new non-leaf %s whose decomposition is the merge of both decompositions" % cname if ok and okr else
               "merges %s (expected %s); new non-leaf object from the merge: %s" % (got, want, okr), loc(add, add))
        rm = cls.methods.get("__rmul__")
        other = params_of(rm)[1]
        loops = [l for l in flow.stmts_of(rm, ast.For) if isinstance(l.iter, ast.Call) and call_name(l.iter) == "items" and dotted(l.iter.func.value) == "self.decomposition_dict"]
        oks = False
        if len(loops) == 1 and isinstance(loops[0].target, ast.Tuple):
            k, v = [e.id for e in loops[0].target.elts]
            body = loops[0].body
            oks = len(body) == 1 and isinstance(body[0], ast.Assign) and isinstance(body[0].targets[0], ast.Subscript) and dotted(body[0].targets[0].slice) == k \
                and isinstance(body[0].value, ast.BinOp) and isinstance(body[0].value.op, ast.Mult) and {src(body[0].value.left), src(body[0].value.right)} == {v, other}
            if oks:
                newd = dotted(body[0].targets[0].value)
                ini = [s for s in flow.stmts_of(rm, ast.Assign) if any(isinstance(t, ast.Name) and t.id == newd for t in s.targets)]
                oks = len(ini) == 1 and src(ini[0].value) in ("dict()", "{}") and any(
                    isinstance(r, ast.Return) and isinstance(r.value, ast.Call) and call_name(r.value) == cname and dotted(get_arg(r.value, 1, "decomposition_dict")) == newd
                    and is_const(get_arg(r.value, 0, "is_leaf"), False) for r in ast.walk(rm))
        ctx.ob("R-BASEOPS", "%s.__rmul__::scalar" % cname, oks,
               "returns a new non-leaf %s with every coefficient multiplied by the scalar" % cname if oks else "the scalar arm is not `new[key] = value * scalar` into a fresh dict of a new non-leaf object", loc(rm, rm))
    pt = repo.cls("Point").methods["__rmul__"]
    other = params_of(pt)[1]
    mult = [c for c in ast.walk(pt) if isinstance(c, ast.Call) and call_name(c) == "multiply_dicts"]
    ok = len(mult) == 1 and {src(a) for a in mult[0].args} == {"self.decomposition_dict", "%s.decomposition_dict" % other}
    if ok:
        st = common.stmt_of(mult[0])
        nm = st.targets[0].id if isinstance(st, ast.Assign) else None
        ok = any(isinstance(r, ast.Return) and isinstance(r.value, ast.Call) and call_name(r.value) == "Expression" and is_const(get_arg(r.value, 0, "is_leaf"), False)
                 and (dotted(get_arg(r.value, 1, "decomposition_dict")) == nm or get_arg(r.value, 1, "decomposition_dict") is mult[0]) for r in ast.walk(pt))
    ctx.ob("R-BASEOPS", "Point.__rmul__::point", ok, "point * point is a new non-leaf Expression over the products of the two decompositions" if ok else
           "the inner product is not built from multiply_dicts of both decompositions into a new non-leaf Expression", loc(pt, pt))
    pw = repo.cls("Point").methods.get("__pow__")
    okp = pw is not None and any(isinstance(r, ast.Return) and src(r.value).replace(" ", "") in ("self.__rmul__(self)", "self.__rmul__(other=self)", "self*self", "self.__mul__(self)") for r in ast.walk(pw))
    ctx.ob("R-BASEOPS", "Point.__pow__", okp, "x ** 2 is x * x" if okp else "x ** 2 is not defined as x * x", loc(pw, pw) if pw else "PEPit/point.py")


def r_hash(ctx):
    repo = ctx.repo
    # hash kept by a class that overrides __eq__
    ex = repo.cls("Expression")
    okh = "__eq__" not in ex.methods or "__hash__" in ex.methods
    ctx.ob("R-HASH", "Expression.__hash__", okh, "Expression overrides __eq__ and keeps __hash__ (it is a dictionary key)" if okh else
           "Expression overrides __eq__ without __hash__: expressions cannot be dictionary keys any more", ex.module.rel)
    for cname in ("Point", "Function"):
        c = repo.cls(cname)
        okh = "__eq__" not in c.methods
        ctx.ob("R-HASH", "%s.__eq__" % cname, okh, "%s objects compare by identity (they are dictionary keys)" % cname if okh else "%s overrides __eq__" % cname, c.module.rel)


def _new_nonleaf(expr, cname, fn, merges):
    if not (isinstance(expr, ast.Call) and call_name(expr) == cname and is_const(get_arg(expr, 0, "is_leaf"), False)):
        return False
    d = get_arg(expr, 1, "decomposition_dict")
    # d derives from a merge (possibly pruned)
    names = set()
    for s in flow.stmts_of(fn, ast.Assign):
        if isinstance(s.value, ast.Call) and (s.value in merges or (call_name(s.value) == "prune_dict" and s.value.args and dotted(s.value.args[0]) in names)):
            for t in s.targets:
                if isinstance(t, ast.Name):
                    names.add(t.id)
    return dotted(d) in names or d in merges


# ---------------------------------------------------------------------------------------------------
# R-OPSEM: every operator on every operand kind, by abstract interpretation of the method bodies
# ---------------------------------------------------------------------------------------------------
def _d_add(a, b):
    out = dict(a)
    for k, v in b.items():
        out[k] = out[k] + v if k in out else v
    return out


def _d_scale(a, c):
    return {k: v * c for k, v in a.items()}


def _d_mul(a, b):
    out = {}
    for k1, v1 in a.items():
        for k2, v2 in b.items():
            k = (k1, k2)
            out[k] = out[k] + v1 * v2 if k in out else v1 * v2
    return out


def r_opsem(ctx, only=None):
    from .. import opsem
    from ..opsem import AObj, AScalar, ACons, Raised, LeafCreated, OpInterp, dicts_equal, show_dict
    repo = ctx.repo
    S = Rat.sym

    def operands():
        return {
            "Point": AObj("Point", {"A": S("a1"), "B": S("a2")}),
            "Point2": AObj("Point", {"B": S("b1"), "C": S("b2")}),
            "Expression": AObj("Expression", {"E": S("e1"), ("A", "B"): S("e2"), 1: S("e3")}),
            "Expression2": AObj("Expression", {"E": S("g1"), "F": S("g2"), 1: S("g3")}),
            "Function": AObj("Function", {"f1": S("u1"), "f2": S("u2")}, frozenset({"rs"})),
            "Function2": AObj("Function", {"f2": S("v1"), "f3": S("v2")}, frozenset({"ro"})),
            "int": AScalar(S("c"), "int"),
            "float": AScalar(S("c"), "float"),
        }

    c = S("c")
    n_cases = 0
    for cname in DSL:
        if only and cname not in only:
            continue
        cls = repo.cls(cname)
        for op in OPS:
            fn = cls.methods.get(op)
            if fn is None:
                continue
            ctx.unit("%s.%s" % (cname, op))
            unary = len(params_of(fn)) == 1
            kinds = [None] if unary else ["Point", "Expression", "Function", "int", "float", "self"]
            for kind in kinds:
                n_cases += 1
                ops_ = operands()
                me = ops_[cname]
                arg = None
                same_object = kind == "self"
                if same_object:
                    kind = cname          # the operand is the receiver itself:  x + x, x - x, x * x, e <= e
                    arg = me
                elif kind is not None:
                    arg = ops_[kind + "2"] if kind == cname else ops_[kind]
                if op == "__pow__":
                    arg = AScalar(Rat(2), "int") if kind == "int" else arg
                before_me = dict(me.dd)
                before_arg = dict(arg.dd) if isinstance(arg, AObj) else None
                key = "%s.%s(%s)" % (cname, op, ("itself" if same_object else kind) or "")
                want = _expected(cname, op, me, kind, arg, c)
                it = OpInterp(repo, cls.module)
                try:
                    got = it.invoke(me, op, [] if unary else [arg])
                    outcome = ("value", got)
                except Raised as r:
                    outcome = ("raise", r.kind)
                except LeafCreated as e:
                    ctx.ob("R-OPSEM", key, False, str(e), loc(fn, fn))
                    continue
                except Exception as e:
                    if type(e).__name__ in ("_Unknown", "AnalysisError"):
                        raise AnalysisError("%s: operator body outside the analysed fragment: %s" % (key, e))
                    raise
                if want is None:
                    ok = outcome[0] == "raise"
                    msg = "an operand of kind %s is rejected (%s)" % (kind, outcome[1]) if ok else \
                        "an operand of kind %s is accepted and yields `%r`; only the documented kinds %s have a meaning here" % (
                            kind, outcome[1], sorted(KIND_TABLE.get((cname, op), [])))
                elif outcome[0] == "raise":
                    ok, msg = False, "raises %s on a documented operand kind (%s)" % (outcome[1], kind)
                else:
                    got = outcome[1]
                    if want[0] == "obj":
                        ok = isinstance(got, AObj) and got.cls == want[1] and dicts_equal(got.dd, want[2]) and (want[3] is None or got.flag == want[3])
                        msg = "denotes %s%s" % (want[1], show_dict(want[2])) if ok else "yields `%r`%s, the calculus gives %s%s%s" % (
                            got, " flag %s" % sorted(got.flag) if isinstance(got, AObj) and got.flag is not None else "", want[1], show_dict(want[2]),
                            " flag %s" % sorted(want[3]) if want[3] is not None else "")
                    else:
                        ok = isinstance(got, ACons) and got.sense == want[2] and dicts_equal(got.expr.dd, want[1])
                        msg = "yields the constraint %s %s 0" % (show_dict(want[1]), want[2]) if ok else "yields `%r`, expected Constraint(%s, %s)" % (got, show_dict(want[1]), want[2])
                    if ok:
                        # operands untouched, result is a new object
                        same = dicts_equal(me.dd, before_me) and len(me.dd) == len(before_me) and (before_arg is None or (dicts_equal(arg.dd, before_arg) and len(arg.dd) == len(before_arg)))
                        fresh = not isinstance(got, AObj) or (got is not me and got is not arg and got.dd is not me.dd and (not isinstance(arg, AObj) or got.dd is not arg.dd))
                        if isinstance(got, ACons):
                            fresh = got.expr.dd is not me.dd
                        if not same:
                            ok, msg = False, "an operand is modified: %s -> %s" % (show_dict(before_me), show_dict(me.dd))
                        elif not fresh:
                            ok, msg = False, "the result shares its decomposition dictionary with an operand (later operations on either would alter both)"
                ctx.ob("R-OPSEM", key, ok, msg, loc(fn, fn))
                if len(ctx.samples) < 12 and want is not None:
                    ctx.sample({"rule": "R-OPSEM", "case": key, "result": msg})
    ctx.count("operator x operand-kind cases", n_cases)
    return n_cases


def _expected(cname, op, me, kind, arg, c):
    """('obj', class, dict, flag) | ('cons', dict, sense) | None (must raise)"""
    from ..opsem import AObj
    a = me.dd
    scalar = kind in ("int", "float")
    same = kind == cname
    flag = me.flag
    if op == "__neg__":
        return ("obj", cname, _d_scale(a, Rat(-1)), flag)
    if op == "__pow__":
        if cname == "Point" and kind == "int":
            return ("obj", "Expression", _d_mul(a, a), None)
        return None
    if op in ("__add__", "__radd__", "__sub__", "__rsub__"):
        if cname == "Expression" and scalar:
            b = {1: c}
        elif same and op not in ("__radd__", "__rsub__") or (same and cname == "Expression"):
            b = arg.dd
        else:
            return None
        if op == "__radd__" and cname != "Expression":
            return None
        f2 = (flag | arg.flag) if (flag is not None and isinstance(arg, AObj) and arg.flag is not None) else flag
        if op in ("__add__", "__radd__"):
            return ("obj", cname, _d_add(a, b), f2)
        if op == "__sub__":
            return ("obj", cname, _d_add(a, _d_scale(b, Rat(-1))), f2)
        return ("obj", cname, _d_add(b, _d_scale(a, Rat(-1))), f2)
    if op in ("__mul__", "__rmul__"):
        if scalar:
            return ("obj", cname, _d_scale(a, c), flag)
        if cname == "Point" and kind == "Point":
            return ("obj", "Expression", _d_mul(a, arg.dd), None)
        return None
    if op == "__truediv__":
        if scalar:
            return ("obj", cname, _d_scale(a, Rat(1) / c), flag)
        return None
    if op in ("__le__", "__lt__", "__ge__", "__gt__", "__eq__") and cname == "Expression":
        if scalar:
            b = {1: c}
        elif same:
            b = arg.dd
        else:
            return None
        diff = _d_add(a, _d_scale(b, Rat(-1)))
        if op in ("__ge__", "__gt__"):
            diff = _d_scale(diff, Rat(-1))
        return ("cons", diff, "equality" if op == "__eq__" else "inequality")
    return None


def run(ctx):
    r_nomut(ctx)
    dictops.r_dictops(ctx)
    r_hash(ctx)
    n = r_opsem(ctx)
    ctx.floor("operator methods", ctx.analysed.get("operator methods", 0), 26)
    ctx.floor("operator x operand-kind cases", n, 100)
