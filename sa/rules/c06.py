"""C06 -- point / expression algebra is a faithful vector-space and inner-product calculus."""
import ast
from ..model import AnalysisError, src, loc, call_name, dotted, params_of, norm_stmt, is_const, get_arg, qualname
from ..nf import Evaluator, Rat, PointV, ExprV, ConsV, TupleV, Opaque, SortError, v_add, v_neg, v_mul, v_div
from .. import flow, effects
from . import wrappers, common, dictops

LEVEL = "other"
EXPLANATION = ("No operator of the three DSL classes nor any dictionary helper writes to an operand or creates a leaf (effect summaries over the call "
               "graph rooted at the 33 operator methods, with constant-argument refinement of the constructors); every binary operator accepts exactly "
               "the documented operand kinds and rejects the others, directly or through its delegation chain; base operators have the documented "
               "shape (merge / scale / multiply of decompositions into a new non-leaf object) and derived operators are definitional when rewritten to "
               "normal form; comparisons yield left-minus-right with the sense written; the four dictionary helpers are interpreted abstractly per key "
               "class and compared with their specification.")
TRUSTED = ["CPython ast", "effect summaries of sa/effects.py", "python semantics of dict / operator dispatch"]
ASSUMPTIONS = ["floating-point arithmetic on coefficients is not analysed"]

DSL = ("Point", "Expression", "Function")
OPS = ("__add__", "__radd__", "__sub__", "__rsub__", "__neg__", "__mul__", "__rmul__", "__truediv__", "__pow__",
       "__le__", "__lt__", "__ge__", "__gt__", "__eq__")


NOMUT_EXCEPTIONS = {
    "Function.__init__::Function.list_of_functions": (
        "Function.list_of_functions.append(self)",
        "every function, leaf or composite, registers itself: the registry is how the constraints a user attaches to a composite reach the "
        "solver (C05 R-DRAIN); no operand is touched and no leaf index is taken"),
}


_BIN = ("add", "sub", "mul", "matmul", "truediv", "floordiv", "mod", "divmod", "pow", "lshift", "rshift", "and", "xor", "or")
ALL_OPERATOR_DUNDERS = tuple("__%s%s__" % (p, b) for b in _BIN for p in ("", "r", "i")) + \
    ("__neg__", "__pos__", "__abs__", "__invert__", "__le__", "__lt__", "__ge__", "__gt__", "__eq__", "__ne__")


def operator_methods(repo, every=False):
    """Operator methods of the DSL classes: the documented ones, or (every=True) every arithmetic / in-place / comparison special method defined."""
    out = []
    for c in DSL:
        cls = repo.cls(c)
        for o in (ALL_OPERATOR_DUNDERS if every else OPS):
            if o in cls.methods and cls.methods[o] not in out:
                out.append(cls.methods[o])
    return out


# ---------------------------------------------------------------------------------------------------
def r_nomut(ctx, operands_only=False):
    """operands_only: report only writes that reach an operand (self / a parameter / an alias of one) -- the part of the rule the module-level
    null objects shared by all models depend on."""
    repo = ctx.repo
    roots = operator_methods(repo, every=True)
    dmod = repo.module("PEPit/tools/dict_operations.py")
    helpers = list(dmod.functions.values())
    ctx.count("operator methods", len(roots))
    ctx.count("dictionary helpers", len(helpers))
    seen = set()
    bad = {}

    def visit(fn, leaf_arg, trail):
        k = (id(fn), leaf_arg)
        if k in seen or len(trail) > 10:
            return
        seen.add(k)
        ctx.unit(qualname(fn))
        is_init = fn.name == "__init__"
        for w in effects.writes_of(repo, fn):
            conds = flow.conditions_guarding(common.stmt_of(w.node))
            under_leaf = any(isinstance(t, ast.Name) and t.id == "is_leaf" and br for t, br, _ in conds)
            if under_leaf and leaf_arg is False:
                continue
            root = w.root
            if root == "fresh" or root.startswith("unknown"):
                continue
            if is_init and root == "self" and w.kind == "rebind":
                continue            # the constructor initialises the new object
            if root.startswith("class:") or root.startswith("global:"):
                why = "changes class-level / global state `%s` (a leaf or a counter is created by an operator)" % w.path
            else:
                why = "writes `%s` of %s" % (w.path, "an operand" if root in ("self",) or root.startswith("param:") or root.startswith("alias:") else root)
            bad.setdefault("%s::%s" % (qualname(fn), w.path), (fn, w, why, trail + [qualname(fn)]))
        for call in [n for n in ast.walk(fn) if isinstance(n, ast.Call)]:
            targets, note = effects.resolve_call(repo, fn, call)
            if note != "resolved":
                continue
            la = None
            if call_name(call) in DSL + ("Constraint", "PSDMatrix"):
                a = get_arg(call, 0, "is_leaf")
                if call_name(call) in DSL:
                    la = True if a is None else (a.value if isinstance(a, ast.Constant) else None)
            for t in targets:
                visit(t, la if t.name == "__init__" else None, trail + [qualname(fn)])

    for r in roots + helpers:
        visit(r, None, [])
    ctx.count("functions reachable from the operators", len({k[0] for k in seen}))
    real = 0
    for key, (fn, w, why, trail) in sorted(bad.items()):
        if fn.name == "__init__" and w.root.startswith("class:") and isinstance(w.node, ast.AugAssign) and getattr(fn, "_cls", None) is not None \
                and fn._cls.name in ("Constraint", "PSDMatrix"):
            ctx.ob("R-NOMUT", key, True, "identifier counter of the new constraint object (no operand touched)", loc(fn, w.node))
            continue
        if key in NOMUT_EXCEPTIONS and norm_stmt(common.stmt_of(w.node)) == NOMUT_EXCEPTIONS[key][0]:
            ctx.ob("R-NOMUT", key, True, "recorded exception: " + NOMUT_EXCEPTIONS[key][1], loc(fn, w.node))
            continue
        if operands_only and (w.root.startswith("class:") or w.root.startswith("global:")):
            continue
        real += 1
        ctx.ob("R-NOMUT", key, False, "%s (reached through %s)" % (why, " -> ".join(trail)), loc(fn, w.node))
    ctx.ob("R-NOMUT", "operators and dictionary helpers", real == 0,
           "no write reaches an operand, a registry or a leaf counter from any operator or helper" if real == 0 else "%d write(s) reported above" % real, "PEPit/")


# ---------------------------------------------------------------------------------------------------
KIND_TABLE = {
    ("Point", "__add__"): {"Point"}, ("Point", "__sub__"): {"Point"},
    ("Point", "__rmul__"): {"Point", "int", "float"}, ("Point", "__mul__"): {"Point", "int", "float"},
    ("Point", "__truediv__"): {"int", "float"},
    ("Expression", "__add__"): {"Expression", "int", "float"}, ("Expression", "__radd__"): {"Expression", "int", "float"},
    ("Expression", "__sub__"): {"Expression", "int", "float"}, ("Expression", "__rsub__"): {"Expression", "int", "float"},
    ("Expression", "__rmul__"): {"int", "float"}, ("Expression", "__mul__"): {"int", "float"}, ("Expression", "__truediv__"): {"int", "float"},
    ("Expression", "__le__"): {"Expression", "int", "float"}, ("Expression", "__lt__"): {"Expression", "int", "float"},
    ("Expression", "__ge__"): {"Expression", "int", "float"}, ("Expression", "__gt__"): {"Expression", "int", "float"},
    ("Expression", "__eq__"): {"Expression", "int", "float"},
    ("Function", "__add__"): {"Function"}, ("Function", "__sub__"): {"Function"},
    ("Function", "__rmul__"): {"int", "float"}, ("Function", "__mul__"): {"int", "float"}, ("Function", "__truediv__"): {"int", "float"},
}


def r_hash(ctx):
    repo = ctx.repo
    # hash kept by a class that overrides __eq__
    ex = repo.cls("Expression")
    okh = "__eq__" not in ex.methods or "__hash__" in ex.methods
    ctx.ob("R-HASH", "Expression.__hash__", okh, "Expression overrides __eq__ and keeps __hash__ (it is a dictionary key)" if okh else
           "Expression overrides __eq__ without __hash__: expressions cannot be dictionary keys any more", ex.module.rel)
    for cname in ("Point", "Function"):
        c = repo.cls(cname)
        okh = "__eq__" not in c.methods
        ctx.ob("R-HASH", "%s.__eq__" % cname, okh, "%s objects compare by identity (they are dictionary keys)" % cname if okh else "%s overrides __eq__" % cname, c.module.rel)


def _new_nonleaf(expr, cname, fn, merges):
    if not (isinstance(expr, ast.Call) and call_name(expr) == cname and is_const(get_arg(expr, 0, "is_leaf"), False)):
        return False
    d = get_arg(expr, 1, "decomposition_dict")
    # d derives from a merge (possibly pruned)
    names = set()
    for s in flow.stmts_of(fn, ast.Assign):
        if isinstance(s.value, ast.Call) and (s.value in merges or (call_name(s.value) == "prune_dict" and s.value.args and dotted(s.value.args[0]) in names)):
            for t in s.targets:
                if isinstance(t, ast.Name):
                    names.add(t.id)
    return dotted(d) in names or d in merges


# ---------------------------------------------------------------------------------------------------
# R-OPSEM: every operator on every operand kind, by abstract interpretation of the method bodies
# ---------------------------------------------------------------------------------------------------
def _d_add(a, b):
    out = dict(a)
    for k, v in b.items():
        out[k] = out[k] + v if k in out else v
    return out


def _d_scale(a, c):
    return {k: v * c for k, v in a.items()}


def _d_mul(a, b):
    out = {}
    for k1, v1 in a.items():
        for k2, v2 in b.items():
            k = (k1, k2)
            out[k] = out[k] + v1 * v2 if k in out else v1 * v2
    return out


def r_opsem(ctx, only=None):
    from .. import opsem
    from ..opsem import AObj, AScalar, ACons, Raised, LeafCreated, OpInterp, dicts_equal, show_dict, binary as opsem_binary
    repo = ctx.repo
    S = Rat.sym

    def operands():
        return {
            "Point": AObj("Point", {"A": S("a1"), "B": S("a2")}),
            "Point2": AObj("Point", {"B": S("b1"), "C": S("b2")}),
            "Expression": AObj("Expression", {"E": S("e1"), ("A", "B"): S("e2"), 1: S("e3")}),
            "Expression2": AObj("Expression", {"E": S("g1"), "F": S("g2"), 1: S("g3")}),
            "Function": AObj("Function", {"f1": S("u1"), "f2": S("u2")}, frozenset({"rs"})),
            "Function2": AObj("Function", {"f2": S("v1"), "f3": S("v2")}, frozenset({"ro"})),
            "int": AScalar(S("c"), "int"),
            "float": AScalar(S("c"), "float"),
            "str": AScalar(S("c"), "str"),          # a scalar that is not a number (np.isscalar('ab') is true): never a documented operand
            "complex": AScalar(S("c"), "complex"),
        }

    c = S("c")
    n_cases = 0
    for cname in DSL:
        if only and cname not in only:
            continue
        cls = repo.cls(cname)
        for op in OPS:
            fn = cls.methods.get(op)
            if fn is None:
                continue
            ctx.unit("%s.%s" % (cname, op))
            unary = len(params_of(fn)) == 1
            kinds = [None] if unary else ["Point", "Expression", "Function", "int", "float", "str", "complex", "self", "leaf", "leaf-self"]
            for kind in kinds:
                n_cases += 1
                ops_ = operands()
                me = ops_[cname]
                arg = None
                same_object = kind in ("self", "leaf-self")
                leaves = kind in ("leaf", "leaf-self")
                if leaves:
                    # leaves: objects whose decomposition is themselves with weight 1 (two different ones, or the same one twice: f + f)
                    me = AObj(cname, {"L1": Rat(1)}, ops_[cname].flag, leaf=True)
                    arg = me if same_object else AObj(cname, {"L2": Rat(1)}, ops_[cname + "2"].flag, leaf=True)
                    kind = cname
                elif same_object:
                    kind = cname          # the operand is the receiver itself:  x + x, x - x, x * x, e <= e
                    arg = me
                elif kind is not None:
                    arg = ops_[kind + "2"] if kind == cname else ops_[kind]
                if op == "__pow__":
                    arg = AScalar(Rat(2), "int") if kind == "int" else arg
                before_me = dict(me.dd)
                before_arg = dict(arg.dd) if isinstance(arg, AObj) else None
                key = "%s.%s(%s)" % (cname, op, (("a leaf, itself" if leaves else "itself") if same_object else ("another leaf" if leaves else kind)) or "")
                want = _expected(cname, op, me, kind, arg, c)
                it = OpInterp(repo, cls.module)
                try:
                    got = it.invoke(me, op, []) if unary else opsem_binary(it, me, op, arg)
                    outcome = ("value", got)
                except Raised as r:
                    outcome = ("raise", r.kind)
                except LeafCreated as e:
                    ctx.ob("R-OPSEM", key, False, str(e), loc(fn, fn))
                    continue
                except Exception as e:
                    if type(e).__name__ in ("_Unknown", "AnalysisError"):
                        raise AnalysisError("%s: operator body outside the analysed fragment: %s" % (key, e))
                    raise
                if want is None and outcome[0] == "raise":
                    # the rejection must not depend on what the receiver happens to contain: try again with a receiver of another shape
                    # (no constant term / other leaves), for which no arithmetic on the coefficients is attempted
                    alt = {"Point": AObj("Point", {"Z": S("z1")}), "Expression": AObj("Expression", {"Z": S("z1")}),
                           "Function": AObj("Function", {"fz": S("z1")}, frozenset({"rs"}))}[cname]
                    it2 = OpInterp(repo, cls.module)
                    try:
                        got2 = it2.invoke(alt, op, []) if unary else opsem_binary(it2, alt, op, arg)
                        outcome = ("value", got2)
                    except Raised:
                        pass
                    except LeafCreated as e:
                        ctx.ob("R-OPSEM", key, False, str(e), loc(fn, fn))
                        continue
                    except Exception as e:
                        if type(e).__name__ in ("_Unknown", "AnalysisError"):
                            raise AnalysisError("%s: operator body outside the analysed fragment: %s" % (key, e))
                        raise
                if want is None:
                    ok = outcome[0] == "raise"
                    msg = "an operand of kind %s is rejected (%s)" % (kind, outcome[1]) if ok else \
                        "an operand of kind %s is accepted and yields `%r`; only the documented kinds %s have a meaning here" % (
                            kind, outcome[1], sorted(KIND_TABLE.get((cname, op), [])))
                elif outcome[0] == "raise":
                    ok, msg = False, "raises %s on a documented operand kind (%s)" % (outcome[1], kind)
                else:
                    got = outcome[1]
                    if want[0] == "obj":
                        ok = isinstance(got, AObj) and got.cls == want[1] and dicts_equal(got.dd, want[2]) and (want[3] is None or got.flag == want[3])
                        msg = "denotes %s%s" % (want[1], show_dict(want[2])) if ok else "yields `%r`%s, the calculus gives %s%s%s" % (
                            got, " flag %s" % sorted(got.flag) if isinstance(got, AObj) and got.flag is not None else "", want[1], show_dict(want[2]),
                            " flag %s" % sorted(want[3]) if want[3] is not None else "")
                    else:
                        ok = isinstance(got, ACons) and got.sense == want[2] and dicts_equal(got.expr.dd, want[1])
                        msg = "yields the constraint %s %s 0" % (show_dict(want[1]), want[2]) if ok else "yields `%r`, expected Constraint(%s, %s)" % (got, show_dict(want[1]), want[2])
                    if ok:
                        # operands untouched, result is a new object
                        same = dicts_equal(me.dd, before_me) and len(me.dd) == len(before_me) and (before_arg is None or (dicts_equal(arg.dd, before_arg) and len(arg.dd) == len(before_arg)))
                        fresh = not isinstance(got, AObj) or (got is not me and got is not arg and got.dd is not me.dd and (not isinstance(arg, AObj) or got.dd is not arg.dd))
                        if isinstance(got, ACons):
                            fresh = got.expr.dd is not me.dd
                        if not same:
                            ok, msg = False, "an operand is modified: %s -> %s" % (show_dict(before_me), show_dict(me.dd))
                        elif not fresh:
                            ok, msg = False, "the result shares its decomposition dictionary with an operand (later operations on either would alter both)"
                ctx.ob("R-OPSEM", key, ok, msg, loc(fn, fn))
                if len(ctx.samples) < 12 and want is not None:
                    ctx.sample({"rule": "R-OPSEM", "case": key, "result": msg})
    ctx.count("operator x operand-kind cases", n_cases)
    return n_cases


def _expected(cname, op, me, kind, arg, c):
    """('obj', class, dict, flag) | ('cons', dict, sense) | None (must raise)"""
    from ..opsem import AObj
    a = me.dd
    scalar = kind in ("int", "float")
    same = kind == cname
    flag = me.flag
    if op == "__neg__":
        return ("obj", cname, _d_scale(a, Rat(-1)), flag)
    if op == "__pow__":
        if cname == "Point" and kind == "int":
            return ("obj", "Expression", _d_mul(a, a), None)
        return None
    if op in ("__add__", "__radd__", "__sub__", "__rsub__"):
        if cname == "Expression" and scalar:
            b = {1: c}
        elif same and op not in ("__radd__", "__rsub__") or (same and cname == "Expression"):
            b = arg.dd
        else:
            return None
        if op == "__radd__" and cname != "Expression":
            return None
        f2 = (flag | arg.flag) if (flag is not None and isinstance(arg, AObj) and arg.flag is not None) else flag
        if op in ("__add__", "__radd__"):
            return ("obj", cname, _d_add(a, b), f2)
        if op == "__sub__":
            return ("obj", cname, _d_add(a, _d_scale(b, Rat(-1))), f2)
        return ("obj", cname, _d_add(b, _d_scale(a, Rat(-1))), f2)
    if op in ("__mul__", "__rmul__"):
        if scalar:
            return ("obj", cname, _d_scale(a, c), flag)
        if cname == "Point" and kind == "Point":
            return ("obj", "Expression", _d_mul(a, arg.dd), None)
        return None
    if op == "__truediv__":
        if scalar:
            return ("obj", cname, _d_scale(a, Rat(1) / c), flag)
        return None
    if op in ("__le__", "__lt__", "__ge__", "__gt__", "__eq__") and cname == "Expression":
        if scalar:
            b = {1: c}
        elif same:
            b = arg.dd
        else:
            return None
        diff = _d_add(a, _d_scale(b, Rat(-1)))
        if op in ("__ge__", "__gt__"):
            diff = _d_scale(diff, Rat(-1))
        return ("cons", diff, "equality" if op == "__eq__" else "inequality")
    return None


def r_constraint_ctor(ctx):
    """A comparison builds `Constraint(left - right, sense)`: the constructor keeps exactly the expression and the sense it is given -- whatever the
    expression looks like (a positive, a negative or no constant term) -- so that the constraint is the one written.  Unrolled by sa/miniint.py."""
    from ..miniint import IndexInterp, SymObj, ProgramRaise
    repo = ctx.repo
    init = repo.method("Constraint", "__init__")
    ctx.unit("Constraint.__init__ (unrolled)")
    ps = params_of(init)
    bad = None
    n = 0
    leaf = SymObj("Expression", label="leaf", _is_leaf=True)
    for const in (3.0, -2.0, None):
        for sense in ("inequality", "equality"):
            dd = {leaf: 1.0}
            if const is not None:
                dd[1] = const
            ex = SymObj("Expression", label="left - right", _is_leaf=False, decomposition_dict=dd)
            me = SymObj("Constraint", label="self")
            env = {ps[0]: me, ps[1]: ex, ps[2]: sense, "Constraint.counter": 5}
            it = IndexInterp(env, check_asserts=True)
            it.home = (repo, init._module, "Constraint")
            label = "constant term %s, %s" % (const, sense)
            try:
                it.run(init.body)
            except ProgramRaise as e:
                bad = "%s: the constructor raises %s" % (label, e.exc)
                break
            except AnalysisError as e:
                ctx.notes.append("R-CONSCTOR: Constraint.__init__ not interpretable (%s): %s; the structural clause of R-SENSE decides" % (label, e))
                return None
            n += 1
            if me.attrs.get("expression") is not ex:
                bad = "%s: the constraint keeps `%r`, not the expression it was built from: the comparison written by the user is not the one stored" % (
                    label, me.attrs.get("expression"))
                break
            if me.attrs.get("equality_or_inequality") != sense:
                bad = "%s: the constraint keeps the sense %r" % (label, me.attrs.get("equality_or_inequality"))
                break
        if bad:
            break
    ctx.ob("R-CONSCTOR", "Constraint.__init__::keeps the expression and the sense it is given (unrolled)", bad is None,
           "for a positive, a negative and no constant term, for both senses" if bad is None else bad, loc(init, init))
    ctx.count("constraint constructions unrolled", n)
    return n


def run(ctx):
    r_constraint_ctor(ctx)
    wrappers.r_psdstore(ctx)    # the LMI constructor is an operation of the DSL too: it copies what it is given and never writes into the caller's array
    r_nomut(ctx)
    dictops.r_dictops(ctx)
    r_hash(ctx)
    n = r_opsem(ctx)
    from . import leafprog
    try:
        if getattr(ctx, "_evalprog_done", None) is None:
            leafprog.r_expression_eval_program(ctx)   # what a combination denotes is what its accessor computes from the leaves
            ctx._evalprog_done = True
    except AnalysisError as ex:
        ctx.notes.append("R-EVALSHAPE program skipped: %s" % ex)
    ctx.floor("operator methods", ctx.analysed.get("operator methods", 0), 20)
    ctx.floor("operator x operand-kind cases", n, 80)
