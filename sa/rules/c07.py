"""C07 -- oracle bookkeeping is coherent for leaf and composite functions."""
import ast
import itertools
from ..model import AnalysisError, src, loc, call_name, dotted, params_of, norm_stmt, is_const, get_arg, qualname
from ..nf import Evaluator, Rat, PointV, ExprV, TupleV, Opaque, SortError
from .. import flow
from . import common, formula
from ..miniint import ProgramRaise as ProgramRaiseT

LEVEL = "other"
EXPLANATION = ("Abstract path enumeration of Function.oracle over the finite domain (already evaluated?, differentiable?, some term needs a value?, some "
               "term needs a gradient?) against the decision table of the documented bookkeeping; shape rules for value, the point lookup, the need "
               "classification, add_point (pruning of all three members, registration, stationary list) and the weighted-sum remainder (normal form, "
               "unrolled for 1..3 terms); differentiability flag of sums, multiples and of the 24 families; stationary / fixed points; every consumer of "
               "a composite's weights works on pruned weights."
               ' Also: the operators of Function (sum, difference, multiples) by abstract interpretation, including an operand that is the receiver itself.'
               " R-FUNCSYS: the methods of Function unrolled on an object graph (two or three leaf functions, their weighted sum with symbolic weights, "
               "a term of weight 0, a flag of the sum that disagrees with its terms) along every bounded history of queries (oracle / value / gradient of "
               "the sum or a term, stationary and fixed points, user-made samples); after every query: one value per function and point, one gradient "
               "for a differentiable function, a new part in every further subgradient, returned = recorded, every sample of the sum is the weighted sum "
               "of samples of its terms, stationary list = samples with gradient zero.  The per-method rules give way to it where they cannot read a method."
               " R-ROUTE: a primitive step records a sample of its own only at a point made from something it created.")
TRUSTED = ["CPython ast", "sa/nf.py arithmetic"]
ASSUMPTIONS = ["query histories are explored up to two queries (three in the thorough tier, and selected ones of three in the quick tier) on sums of two or three terms"]

LOOKUP = "_is_already_evaluated_on_point"
SEPARATE = "_separate_leaf_functions_regarding_their_need_on_point"


def _fn(ctx, name):
    f = ctx.repo.cls("Function").methods.get(name)
    if f is None:
        raise AnalysisError("Function.%s not found" % name)
    ctx.unit("Function.%s" % name)
    return f


# ---------------------------------------------------------------------------------------------------
# oracle decision table
# ---------------------------------------------------------------------------------------------------
class _OracleModel:
    def __init__(self, fn):
        self.fn = fn
        self.lookup = None
        self.lists = None
        for s in flow.stmts_of(fn, ast.Assign):
            if isinstance(s.value, ast.Call) and call_name(s.value) == LOOKUP and isinstance(s.targets[0], ast.Name):
                self.lookup = s.targets[0].id
            if isinstance(s.value, ast.Call) and call_name(s.value) == SEPARATE and isinstance(s.targets[0], ast.Tuple) and len(s.targets[0].elts) == 3:
                self.lists = [e.id for e in s.targets[0].elts]
        if self.lookup is None or self.lists is None:
            raise AnalysisError("oracle: lookup result / need lists not found")
        rets = [r for r in ast.walk(fn) if isinstance(r, ast.Return)]
        last = [r for r in rets if isinstance(r.value, ast.Tuple) and len(r.value.elts) == 2]
        if len(last) != 1:
            raise AnalysisError("oracle: final `return g, f` not found")
        self.g, self.f = [e.id for e in last[0].value.elts]

    def atom(self, t, st):
        A, R, NV, NG = st
        if isinstance(t, ast.Name) and t.id == self.lookup:
            return A
        if dotted(t) == "self.reuse_gradient":
            return R
        if isinstance(t, ast.Name) and t.id in self.lists:
            empty = {self.lists[1]: NG, self.lists[2]: NV, self.lists[0]: None}[t.id]
            if empty is None:
                raise AnalysisError("oracle branches on the 'need nothing' list")
            return not empty          # truthiness of a list = non-empty
        if isinstance(t, ast.Compare) and len(t.ops) == 1 and isinstance(t.left, ast.Call) and call_name(t.left) == "len" and t.left.args \
                and isinstance(t.left.args[0], ast.Name) and t.left.args[0].id in self.lists and is_const(t.comparators[0], 0):
            empty = {self.lists[1]: NG, self.lists[2]: NV, self.lists[0]: None}[t.left.args[0].id]
            if empty is not None and isinstance(t.ops[0], (ast.Eq, ast.Gt, ast.NotEq)):
                return empty if isinstance(t.ops[0], ast.Eq) else not empty
        if isinstance(t, ast.Compare) and len(t.ops) == 1:
            l, op, r = t.left, t.ops[0], t.comparators[0]
            if isinstance(l, ast.Name) and l.id == self.lookup and isinstance(r, ast.Constant) and r.value is None:
                if isinstance(op, ast.Is):
                    return not A
                if isinstance(op, ast.IsNot):
                    return A
            if isinstance(l, ast.Name) and l.id in self.lists and isinstance(op, (ast.Eq, ast.NotEq)) and src(r) in ("list()", "[]"):
                empty = {self.lists[1]: NG, self.lists[2]: NV, self.lists[0]: None}[l.id]
                if empty is None:
                    raise AnalysisError("oracle branches on the 'need nothing' list")
                return empty if isinstance(op, ast.Eq) else not empty
        return None

    def kind(self, value, var):
        """'fresh' | 'zero' | 'stored-value' | 'stored-gradient' for an assignment of the gradient / value variable"""
        if isinstance(value, ast.Call) and call_name(value) in ("Point", "Expression"):
            leaf = get_arg(value, 0, "is_leaf")
            if leaf is None or is_const(leaf, True):
                return "fresh"
            dd = get_arg(value, 1, "decomposition_dict")
            if dd is not None and src(dd) in ("dict()", "{}"):
                return "zero"
        if isinstance(value, ast.Subscript) and dotted(value.value) == self.lookup:
            i = value.slice
            idx = i.value if isinstance(i, ast.Constant) else (-i.operand.value if isinstance(i, ast.UnaryOp) and isinstance(i.operand, ast.Constant) else None)
            if idx in (-1, 1):
                return "stored-value"
            if idx in (0, -2):
                return "stored-gradient"
        return "other:" + src(value)[:40]

    def run(self, st):
        """-> dict(outcome, f, g, recorded) for abstract state st = (evaluated, differentiable, no term needs a value, no term needs a gradient only)"""
        from ..absint import PathEval, bool_decider
        decide = bool_decider(lambda t: self.atom(t, st))

        def strict(t):
            v = decide(t)
            if v is None and isinstance(t, ast.Call) and call_name(t) == "isinstance":
                return None          # argument checks (assert isinstance(...)): both outcomes explored, the failing one is not a bookkeeping path
            if v is None:
                raise AnalysisError("oracle: test `%s` outside the analysed fragment" % src(t))
            return v
        paths = PathEval(self.fn, strict, loop_mode="once").run()
        paths = [p for p in paths if not (p.kind == "raise" and p.exc == "AssertionError")]
        results = []
        for p in paths:
            state = {"f": None, "g": None, "recorded": None, "outcome": None}
            vals = {}          # every local that holds a gradient / value candidate: name -> kind

            def final(v):
                k = vals.get(self.f if v == "f" else self.g)
                if k in ("combination-f", "combination-g"):
                    return "combination" if k == "combination-" + v else "bad-combination: the %s is built from the terms' %s" % (
                        "value" if v == "f" else "gradient", "gradients" if v == "f" else "values")
                return k
            for ev in p.trace:
                if isinstance(ev, ast.Assign) and len(ev.targets) == 1 and isinstance(ev.targets[0], ast.Name):
                    nm = ev.targets[0].id
                    if isinstance(ev.value, ast.Name) and ev.value.id in vals:
                        vals[nm] = vals[ev.value.id]
                    elif nm in (self.f, self.g) or (isinstance(ev.value, ast.Call) and call_name(ev.value) in ("Point", "Expression")):
                        vals[nm] = self.kind(ev.value, nm)
                elif isinstance(ev, ast.AugAssign) and isinstance(ev.target, ast.Name) and ev.target.id in vals and isinstance(ev.op, ast.Add):
                    nm = ev.target.id
                    lp = flow.in_loop(ev)
                    ok = None
                    if lp is not None and isinstance(lp, ast.For) and isinstance(lp.iter, ast.Call) and call_name(lp.iter) == "items" \
                            and dotted(lp.iter.func.value) == "self.decomposition_dict" and isinstance(lp.target, ast.Tuple) and vals[nm] == "zero":
                        fnv, w = [e.id for e in lp.target.elts]
                        val = ev.value
                        if isinstance(val, ast.BinOp) and isinstance(val.op, ast.Mult):
                            parts = [val.left, val.right]
                            calls = [q for q in parts if isinstance(q, ast.Call) and isinstance(q.func, ast.Attribute) and dotted(q.func.value) == fnv]
                            ws = [q for q in parts if dotted(q) == w]
                            if len(calls) == 1 and len(ws) == 1 and call_name(calls[0]) == "value":
                                ok = "combination-f"
                            elif len(calls) == 1 and len(ws) == 1 and call_name(calls[0]) in ("gradient", "subgradient"):
                                ok = "combination-g"
                    vals[nm] = ok if ok else "bad-combination:" + norm_stmt(ev)[:50]
                elif isinstance(ev, ast.Expr) and isinstance(ev.value, ast.Call) and call_name(ev.value) == "add_point":
                    a = get_arg(ev.value, 0, "triplet")
                    state["recorded"] = [src(e) for e in a.elts] if isinstance(a, ast.Tuple) else src(a)
            state["f"], state["g"] = final("f"), final("g")
            if p.kind == "return":
                last = p.trace[-1]
                rv = last.value if isinstance(last, ast.Return) else None
                if rv is not None and dotted(rv) == self.lookup or p.value_text == self.lookup:
                    state["outcome"] = "return-stored-pair"
                elif isinstance(rv, ast.Tuple) and [dotted(e) for e in rv.elts] == [self.g, self.f]:
                    state["outcome"] = "return-g-f"
                else:
                    state["outcome"] = "return " + (p.value_text or "None")
            else:
                state["outcome"] = p.kind + (" " + p.exc if p.exc else "")
            results.append(state)
        # all paths of one abstract state must agree
        if not results:
            raise AnalysisError("oracle: no path for state %s" % (st,))
        first = results[0]
        for r in results[1:]:
            if r != first:
                return {"outcome": "paths disagree: %s / %s" % (first, r), "f": None, "g": None, "recorded": None}
        return first


def r_onevalue(ctx):
    fn = _fn(ctx, "oracle")
    point = params_of(fn)[1]
    m = _OracleModel(fn)
    n = 0
    for st in itertools.product((True, False), repeat=4):
        A, R, NV, NG = st
        n += 1
        label = "evaluated=%s differentiable=%s no-term-needs-value=%s no-term-needs-gradient-only=%s" % st
        try:
            got = m.run(st)
        except AnalysisError as e:
            ctx.ob_or_program(("funcsys",), "R-ONEVALUE", "Function.oracle::" + label, False, str(e), loc(fn, fn))
            continue
        if A and R:
            want = {"outcome": "return-stored-pair"}
        else:
            want = {"outcome": "return-g-f",
                    "f": "stored-value" if A else ("combination" if NV else "fresh"),
                    "g": "combination" if (NV and NG) else "fresh",
                    "recorded": [point, m.g, m.f]}
        ok = all(got.get(k) == v for k, v in want.items())
        ctx.ob_or_program(("funcsys",), "R-ONEVALUE", "Function.oracle::" + label, ok,
               "as documented: %s" % want if ok else "oracle gives %s, the documented bookkeeping is %s" % ({k: got.get(k) for k in want}, want), loc(fn, fn))
    ctx.count("oracle states", n)
    ctx.sample({"rule": "R-ONEVALUE", "states": 16, "variables": {"lookup": m.lookup, "need lists": m.lists, "g": m.g, "f": m.f}})
    # value(): stored value when evaluated, oracle's value otherwise
    vf = _fn(ctx, "value")
    lk = [s for s in flow.stmts_of(vf, ast.Assign) if isinstance(s.value, ast.Call) and call_name(s.value) == LOOKUP]
    ok = False
    msg = "lookup not found in value()"
    if len(lk) == 1:
        name = lk[0].targets[0].id
        ifs = [s for s in flow.stmts_of(vf, ast.If) if dotted(s.test) == name or src(s.test) == "%s is not None" % name]
        rets = [r for r in ast.walk(vf) if isinstance(r, ast.Return)]
        if len(ifs) == 1 and len(rets) == 1 and isinstance(rets[0].value, ast.Name):
            f = rets[0].value.id
            t = [s for s in ifs[0].body if isinstance(s, ast.Assign) and dotted(s.targets[0]) == f]
            e = [s for s in ifs[0].orelse if isinstance(s, ast.Assign)]
            ok_t = len(t) == 1 and src(t[0].value).replace(" ", "") in ("%s[-1]" % name, "%s[1]" % name)
            ok_e = len(e) == 1 and ((isinstance(e[0].value, ast.Call) and call_name(e[0].value) == "oracle" and isinstance(e[0].targets[0], ast.Tuple)
                                      and dotted(e[0].targets[0].elts[1]) == f)
                                     or (dotted(e[0].targets[0]) == f and isinstance(e[0].value, ast.Subscript) and isinstance(e[0].value.value, ast.Call)
                                         and call_name(e[0].value.value) == "oracle" and src(e[0].value.slice) in ("-1", "1")))
            ok = ok_t and ok_e
            msg = "value() returns the stored value when there is one, the oracle's value otherwise" if ok else \
                "value(): stored branch ok=%s, oracle branch ok=%s" % (ok_t, ok_e)
    ctx.ob_or_program(("funcsys",), "R-ONEVALUE", "Function.value", ok, msg, loc(vf, vf))
    # gradient/subgradient return the oracle's gradient
    sg = _fn(ctx, "subgradient")
    okg = any(isinstance(s, ast.Assign) and isinstance(s.value, ast.Call) and call_name(s.value) == "oracle" and isinstance(s.targets[0], ast.Tuple)
              and any(isinstance(r, ast.Return) and dotted(r.value) == dotted(s.targets[0].elts[0]) for r in ast.walk(sg)) for s in flow.stmts_of(sg, ast.Assign))
    ctx.ob_or_program(("funcsys",), "R-ONEVALUE", "Function.subgradient", okg, "returns the first component of oracle" if okg else "does not return the oracle's gradient", loc(sg, sg))
    gr = _fn(ctx, "gradient")
    okg = any(isinstance(r, ast.Return) and isinstance(r.value, ast.Call) and call_name(r.value) == "subgradient" for r in ast.walk(gr))
    ctx.ob_or_program(("funcsys",), "R-ONEVALUE", "Function.gradient", okg, "delegates to subgradient" if okg else "does not delegate to subgradient", loc(gr, gr))


# ---------------------------------------------------------------------------------------------------
def r_lookup_and_separate(ctx):
    """The two private routines of the oracle, as programs (sa/miniint.py).

    lookup  -- on a function with recorded samples at x, at 2x + y and again at x: a query returns the (gradient, value) of the FIRST sample recorded
               at a point with the same pruned decomposition (the same object, another object with equal weights, the same weights plus explicit
               zeros), and None for any other point -- in particular for a point whose decomposition is only contained in a recorded one.
    need classification -- for a composite with three terms and each combination of (already evaluated?, differentiable?) per term: the three
               lists returned are (need nothing, need a gradient only, need gradient and value), each holding (term, weight), decided on the
               TERM's own evaluation and the TERM's own differentiability."""
    from ..miniint import IndexInterp, SymObj
    import itertools as _it
    fn = _fn(ctx, LOOKUP)
    pname = params_of(fn)[1]
    X, Y = SymObj("Point", label="leaf x"), SymObj("Point", label="leaf y")
    a = Rat.sym("a")

    def prune(d):
        return {k: v for k, v in d.items() if not (isinstance(v, Rat) and v.is_zero()) and v != 0}

    def on_call(node, it):
        if call_name(node) == "prune_dict" and len(node.args) == 1:
            v = it.ev(node.args[0])
            if isinstance(v, dict):
                return prune(v)
        if call_name(node) == "isinstance":
            return True
        return NotImplemented
    mk = lambda label, dd: SymObj("Point", label=label, decomposition_dict=dd)
    p1, p2, p3 = mk("p1", {X: Rat(1)}), mk("p2", {X: Rat(2), Y: Rat(1)}), mk("p3", {X: Rat(1)})
    samples = [(p1, SymObj("g", label="g1"), SymObj("f", label="f1")), (p2, SymObj("g", label="g2"), SymObj("f", label="f2")),
               (p3, SymObj("g", label="g3"), SymObj("f", label="f3"))]
    queries = [("the recorded point object", p1, 0), ("another object with the same decomposition", mk("q", {X: Rat(1)}), 0),
               ("the same decomposition plus an explicit zero weight", mk("q", {X: Rat(1), Y: Rat(0)}), 0),
               ("the second recorded point", mk("q", {Y: Rat(1), X: Rat(2)}), 1),
               ("a point never recorded", mk("q", {Y: Rat(1)}), None),
               ("a point whose decomposition is contained in a recorded one (x vs 2x + y, weights differ)", mk("q", {X: Rat(2)}), None),
               ("a point that shares a leaf but not its weight", mk("q", {X: a}), None)]
    bad = None
    for what, q, want in queries:
        it = IndexInterp({pname: q, "self.list_of_points": list(samples)}, on_call=on_call)
        try:
            ret = it.run(fn.body)
        except AnalysisError as e:
            bad = "lookup not interpretable (%s): %s" % (what, e)
            break
        if want is None:
            if ret is not None:
                bad = "query = %s: the lookup returns `%r`, expected None (a different point must get its own gradient and value)" % (what, ret)
                break
        else:
            g, f = samples[want][1], samples[want][2]
            if not (isinstance(ret, (tuple, list)) and len(ret) == 2 and ret[0] is g and ret[1] is f):
                bad = "query = %s: the lookup returns `%r`, expected the (gradient, value) of the first sample recorded at that point (%s, %s)" % (
                    what, ret, g.attrs["label"], f.attrs["label"])
                break
    ctx.ob("R-LOOKUP", "Function.%s" % LOOKUP, bad is None,
           "a query finds the first sample recorded at a point with the same pruned decomposition, and nothing else" if bad is None else bad, loc(fn, fn))
    # ---- need classification
    fn = _fn(ctx, SEPARATE)
    pname = params_of(fn)[1]
    bad = None
    n = 0
    for combo in _it.product(((True, True), (True, False), (False, True), (False, False)), repeat=2):
        n += 1
        terms = []
        for k, (ev0, red0) in enumerate(combo + ((False, True),)):
            terms.append(SymObj("Function", label="t%d" % k, evaluated=ev0, reuse_gradient=red0))
        ws = [Rat.sym("w%d" % k) for k in range(len(terms))]
        dd = dict(zip(terms, ws))

        def on_call2(node, it):
            if call_name(node) == LOOKUP and isinstance(node.func, ast.Attribute):
                recv = it.ev(node.func.value)
                if isinstance(recv, SymObj) and recv.kind == "Function":
                    return (SymObj("g"), SymObj("f")) if recv.attrs["evaluated"] else None
                if dotted(node.func.value) == "self":
                    return None
            return NotImplemented
        it = IndexInterp({pname: SymObj("Point", label="x"), "self.decomposition_dict": dd, "self.reuse_gradient": False}, on_call=on_call2)
        try:
            ret = it.run(fn.body)
        except AnalysisError as e:
            bad = "need classification not interpretable: %s" % e
            break
        if not (isinstance(ret, (tuple, list)) and len(ret) == 3 and all(isinstance(l0, list) for l0 in ret)):
            bad = "the need classification returns `%r`, expected three lists" % (ret,)
            break
        want = ([], [], [])
        for t0, w0 in zip(terms, ws):
            k = 0 if (t0.attrs["evaluated"] and t0.attrs["reuse_gradient"]) else (1 if t0.attrs["evaluated"] else 2)
            want[k].append((t0, w0))
        for k in range(3):
            got = ret[k]
            if len(got) != len(want[k]) or any(not (isinstance(x, tuple) and len(x) == 2 and x[0] is y[0] and x[1] is y[1]) for x, y in zip(got, want[k])):
                bad = ("terms (evaluated, differentiable) = %s: list %d (%s) is %s, expected %s -- the tests must be on the term itself, not on the sum"
                       % ([(t0.attrs["evaluated"], t0.attrs["reuse_gradient"]) for t0 in terms], k, ("need nothing", "need a gradient", "need both")[k],
                          [getattr(x[0], "attrs", {}).get("label") if isinstance(x, tuple) else x for x in got], [x[0].attrs["label"] for x in want[k]]))
                break
        if bad:
            break
    ctx.ob_or_program(("funcsys",), "R-SEPARATE", "Function.%s" % SEPARATE, bad is None,
           "terms are sorted by (already evaluated, the TERM's own differentiability) into need-nothing / need-gradient / need-both, with their weights" if bad is None else bad,
           loc(fn, fn))
    ctx.count("need classifications unrolled", n)


def r_stationary_list(ctx):
    """Every recorded sample whose (pruned) gradient is zero joins the stationary list, whichever way it reached the function
    (stationary_point, a step, a composite handing a zero remainder to a term): the test sits in add_point."""
    fn = _fn(ctx, "add_point")
    trip = params_of(fn)[1]
    un = [s for s in fn.body if isinstance(s, ast.Assign) and isinstance(s.targets[0], ast.Tuple) and dotted(s.value) == trip and len(s.targets[0].elts) == 3]
    if len(un) != 1:
        ctx.ob_or_program(("funcsys",), "R-STAT", "Function.add_point::stationary list", False, "the triplet is not unpacked into (point, gradient, value)", loc(fn, fn))
        return
    p, g, f = [e.id for e in un[0].targets[0].elts]
    st = [c for c in ast.walk(fn) if isinstance(c, ast.Call) and call_name(c) == "append" and dotted(c.func.value) == "self.list_of_stationary_points"]
    oks = False
    if len(st) == 1:
        conds = flow.conditions_guarding(common.stmt_of(st[0]))
        oks = len(conds) == 1 and conds[0][1] and src(conds[0][0]).replace(" ", "") in ("%s.decomposition_dict==dict()" % g, "%s.decomposition_dict=={}" % g, "not%s.decomposition_dict" % g, "len(%s.decomposition_dict)==0" % g, "notlen(%s.decomposition_dict)" % g) \
            and dotted(st[0].args[0]) == trip
    ctx.ob_or_program(("funcsys",), "R-STAT", "Function.add_point::stationary list", oks,
           "a sample joins the stationary list exactly when its pruned gradient is zero" if oks else "the stationary list is not fed by `gradient decomposition == {}`", loc(fn, fn))


def r_sample_registered(ctx):
    """Every sample handed to add_point is appended to list_of_points, on every completing path (a sample recorded by a step, by the oracle or by the
    user is never dropped, whatever was recorded before it)."""
    fn = _fn(ctx, "add_point")
    trip = params_of(fn)[1]
    reg = [s for s in fn.body if isinstance(s, ast.Expr) and isinstance(s.value, ast.Call) and call_name(s.value) == "append" and dotted(s.value.func.value) == "self.list_of_points"]
    pc = flow.path_counts(fn.body, lambda n: isinstance(n, ast.Call) and call_name(n) == "append" and dotted(n.func.value) == "self.list_of_points")
    normal = pc.get("next", set()) | pc.get("return", set())
    okr = len(reg) == 1 and dotted(reg[0].value.args[0]) == trip and normal == {1}
    ctx.ob_or_program(("funcsys",), "R-ADDPOINT", "Function.add_point::registered", okr,
           "every sample handed to add_point is appended to list_of_points, on every path" if okr else
           "on some path add_point completes without registering the sample (appends per completing path: %s): whether a sample constrains the function "
           "then depends on what was recorded before it" % sorted(normal), loc(fn, fn))


def r_addpoint_program(ctx):
    """add_point of a composite, unrolled by sa/miniint.py for 1..3 terms and every way the terms can be classified (need nothing / a gradient /
    both) with at least one term in need: the sample is registered once; every term is visited exactly once -- through its oracle or by receiving
    the remainder; the remainder goes to a term that needs a value if there is one (else to one that needs a gradient); and
    sum_k weight_k * (gradient, value of term k) == (gradient, value) of the composite.  With no term in need nothing is asked of any term."""
    from ..miniint import IndexInterp, SymObj, VecObj
    import itertools as _it
    fn = _fn(ctx, "add_point")
    trip = params_of(fn)[1]
    n_runs = 0
    bad = None
    for n, zero in [(n0, z0) for n0 in (1, 2, 3) for z0 in (False, True)]:
        for classes in _it.product((0, 1, 2), repeat=n):
            n_runs += 1
            fobjs = [SymObj("Function", label="f%d" % (k + 1)) for k in range(n)]
            ws = [Rat.sym("w%d" % (k + 1)) for k in range(n)]
            dd = dict(zip(fobjs, ws))
            if zero:
                # a term whose weight is (or has cancelled to) zero is still a key of the decomposition until it is pruned: it takes part in nothing
                dd = dict([(SymObj("Function", label="f0 (weight 0)"), Rat(0))] + list(dd.items()))
            lists = ([], [], [])
            for k, c0 in enumerate(classes):
                lists[c0].append((fobjs[k], ws[k]))
            x = VecObj("Point", PointV.atom("x"), decomposition_dict={SymObj("Point", label="x"): Rat(1)})
            G = VecObj("Point", PointV.atom("G"), decomposition_dict={SymObj("Point", label="G"): Rat(1)})
            F = VecObj("Expression", ExprV.atom("F"), decomposition_dict={SymObj("Expression", label="F"): Rat(1)})
            log = []

            def on_call(node, it, lists=lists, log=log, dd=dd):
                nm = call_name(node)
                if nm == "prune_dict" and len(node.args) == 1:
                    v0 = it.ev(node.args[0])
                    if v0 is dd:
                        log.append(("prune", None))
                    if isinstance(v0, dict):
                        return {k0: w0 for k0, w0 in v0.items() if not (isinstance(w0, Rat) and w0.is_zero())}
                    return v0
                if nm == SEPARATE:
                    log.append(("separate", None))
                    return tuple(list(l0) for l0 in lists)
                if nm in ("oracle", "add_point") and isinstance(node.func, ast.Attribute):
                    recv = it.ev(node.func.value)
                    if isinstance(recv, SymObj) and recv.kind == "Function":
                        if nm == "oracle":
                            k = int(recv.attrs["label"][1:])
                            log.append(("oracle", recv))
                            return (VecObj("Point", PointV.atom("g%d" % k)), VecObj("Expression", ExprV.atom("v%d" % k)))
                        arg = it.ev(node.args[0]) if node.args else None
                        log.append(("add_point", recv, arg))
                        return None
                if nm == "isinstance":
                    return True
                return NotImplemented
            env = {trip: (x, G, F), "self._is_leaf": False, "self.decomposition_dict": dd, "self.list_of_points": [], "self.list_of_stationary_points": []}
            it = IndexInterp(env, on_call=on_call)
            label = "%d term(s) classified %s%s" % (n, list(classes), " and one more term of weight 0" if zero else "")
            try:
                it.run(fn.body)
            except AnalysisError as e:
                bad = "%s: add_point not interpretable: %s" % (label, e)
                break
            reg = it.env.get("self.list_of_points")
            if not (isinstance(reg, list) and len(reg) == 1 and reg[0] == (x, G, F)):
                bad = "%s: the sample is registered %s time(s)" % (label, len(reg) if isinstance(reg, list) else "?")
                break
            order = [e0[0] for e0 in log if e0[0] in ("prune", "separate")]
            if order[:2] != ["prune", "separate"]:
                bad = "%s: the weights of the composite are not pruned before the terms are classified (calls: %s)" % (label, order)
                break
            log[:] = [e0 for e0 in log if e0[0] in ("oracle", "add_point")]
            need = [k for k, c0 in enumerate(classes) if c0 > 0]
            if not need:
                if log:
                    bad = "%s: no term needs anything, yet %s is called" % (label, log[0][0])
                    break
                continue
            visited = [e0[1] for e0 in log]
            if sorted(id(v) for v in visited) != sorted(id(f0) for f0 in fobjs):
                bad = "%s: the terms are visited %s, expected each of the %d terms exactly once (oracle, or add_point for the last one)" % (
                    label, [v.attrs["label"] for v in visited], n)
                break
            adds = [e0 for e0 in log if e0[0] == "add_point"]
            if len(adds) != 1:
                bad = "%s: %d terms receive a remainder" % (label, len(adds))
                break
            last = adds[0]
            kl = fobjs.index(last[1])
            want_class = 2 if 2 in classes else 1
            if classes[kl] != want_class:
                bad = "%s: the remainder (gradient and value) is handed to %s, which %s; a term that %s exists" % (
                    label, last[1].attrs["label"], ("needs nothing at this point" if classes[kl] == 0 else "only needs a gradient (it already has a value)"),
                    "needs a value" if want_class == 2 else "needs a gradient")
                break
            arg = last[2]
            if not (isinstance(arg, tuple) and len(arg) == 3 and arg[0] is x and isinstance(arg[1], VecObj) and isinstance(arg[2], VecObj)):
                bad = "%s: the last term is given `%r`, not (point, gradient, value)" % (label, arg)
                break
            totg, totf = PointV(), ExprV()
            for k in range(n):
                gk, vk = (arg[1].val, arg[2].val) if k == kl else (PointV.atom("g%d" % (k + 1)), ExprV.atom("v%d" % (k + 1)))
                totg = totg + gk.scale(ws[k])
                totf = totf + vk.scale(ws[k])
            if not (totg.equals(PointV.atom("G")) and totf.equals(ExprV.atom("F"))):
                bad = "%s: sum of weight * gradient = `%s` (expected G), sum of weight * value = `%s` (expected F)" % (label, totg, totf)
                break
        if bad:
            break
    if bad is None:
        # a leaf function only registers the sample: nothing is asked of anybody
        me = SymObj("Function", label="f1")
        log = []
        x = VecObj("Point", PointV.atom("x"), decomposition_dict={SymObj("Point", label="x"): Rat(1)})
        G = VecObj("Point", PointV.atom("G"), decomposition_dict={SymObj("Point", label="G"): Rat(1)})
        F = VecObj("Expression", ExprV.atom("F"), decomposition_dict={SymObj("Expression", label="F"): Rat(1)})

        def on_leaf(node, it):
            nm = call_name(node)
            if nm == "prune_dict" and len(node.args) == 1:
                return it.ev(node.args[0])
            if nm in ("oracle", "add_point", SEPARATE):
                log.append(nm)
                return ([], [], []) if nm == SEPARATE else None
            if nm == "isinstance":
                return True
            return NotImplemented
        it = IndexInterp({trip: (x, G, F), "self._is_leaf": True, "self.decomposition_dict": {me: Rat(1)}, "self.list_of_points": [],
                          "self.list_of_stationary_points": []}, on_call=on_leaf)
        try:
            it.run(fn.body)
            reg = it.env.get("self.list_of_points")
            if log:
                bad = "a leaf function: recording a sample calls %s" % log[0]
            elif not (isinstance(reg, list) and len(reg) == 1):
                bad = "a leaf function: the sample is registered %s time(s)" % (len(reg) if isinstance(reg, list) else "?")
        except AnalysisError as e:
            bad = "a leaf function: add_point not interpretable: %s" % e
    ctx.ob_or_program(("funcsys",), "R-WSUM", "Function.add_point::weighted sum (unrolled, 1..3 terms, every classification)", bad is None,
           "the sample is registered once, every term is visited once, the remainder goes to a term in need and the weighted samples of the terms sum to the sample of the composite"
           if bad is None else bad, loc(fn, fn))
    ctx.count("add_point programs unrolled", n_runs)
    return n_runs


def r_addpoint(ctx):
    fn = _fn(ctx, "add_point")
    trip = params_of(fn)[1]
    un = [s for s in fn.body if isinstance(s, ast.Assign) and isinstance(s.targets[0], ast.Tuple) and dotted(s.value) == trip and len(s.targets[0].elts) == 3]
    if len(un) != 1:
        ctx.ob_or_program(("funcsys",), "R-ADDPOINT", "Function.add_point::unpack", False, "the triplet is not unpacked into (point, gradient, value)", loc(fn, fn))
        return
    p, g, f = [e.id for e in un[0].targets[0].elts]
    # 1. all three members pruned
    loops = [l for l in fn.body if isinstance(l, ast.For) and dotted(l.iter) == trip and isinstance(l.target, ast.Name)]
    ok = False
    if len(loops) == 1:
        e = loops[0].target.id
        b = loops[0].body
        ok = len(b) == 1 and isinstance(b[0], ast.Assign) and dotted(b[0].targets[0]) == e + ".decomposition_dict" and isinstance(b[0].value, ast.Call) \
            and call_name(b[0].value) == "prune_dict" and dotted(b[0].value.args[0]) == e + ".decomposition_dict"
    else:
        pr = set()
        for s in fn.body:
            if isinstance(s, ast.Assign) and isinstance(s.value, ast.Call) and call_name(s.value) == "prune_dict":
                d = dotted(s.targets[0])
                if d and d.endswith(".decomposition_dict") and dotted(s.value.args[0]) == d:
                    pr.add(d.split(".")[0])
        ok = {p, g, f} <= pr
    reg = [s for s in fn.body if isinstance(s, ast.Expr) and isinstance(s.value, ast.Call) and call_name(s.value) == "append" and dotted(s.value.func.value) == "self.list_of_points"]
    ok_order = ok and len(reg) == 1 and (loops[0].lineno if loops else 0) < reg[0].lineno
    ctx.ob("R-ADDPOINT", "Function.add_point::members pruned before registration", ok_order,
           "point, gradient and value are pruned before the sample is registered (the lookup compares pruned decompositions)" if ok_order else
           "not all three members of the sample are pruned before registration: a point with an explicit zero weight is never recognised again", loc(fn, fn))
    pc = flow.path_counts(fn.body, lambda n: isinstance(n, ast.Call) and call_name(n) == "append" and dotted(n.func.value) == "self.list_of_points")
    normal = pc.get("next", set()) | pc.get("return", set())
    okr = len(reg) == 1 and dotted(reg[0].value.args[0]) == trip and normal == {1}
    ctx.ob_or_program(("funcsys",), "R-ADDPOINT", "Function.add_point::registered", okr,
           "every sample handed to add_point is appended to list_of_points, on every path" if okr else
           "on some path add_point completes without registering the sample (appends per completing path: %s): a step that records a sample on the "
           "function (e.g. a proximal step at an already evaluated point) silently loses it" % sorted(normal), loc(fn, fn))
    r_stationary_list(ctx)
    # 2. composite branch: decided on the unrolled program
    r_addpoint_program(ctx)


# ---------------------------------------------------------------------------------------------------
FLAG_DEVIANTS = {"NegativelyComonotoneOperator": "documented as possibly multi-valued for rho > 0 in the literature: default True but the user's choice is passed through"}


def r_flag(ctx):
    repo = ctx.repo
    cls = repo.cls("Function")
    add = cls.methods["__add__"]
    other = params_of(add)[1]
    ok = False
    for r in ast.walk(add):
        if isinstance(r, ast.Return) and isinstance(r.value, ast.Call) and call_name(r.value) == "Function":
            a = get_arg(r.value, 2, "reuse_gradient")
            ok = isinstance(a, ast.BoolOp) and isinstance(a.op, ast.And) and {src(v) for v in a.values} == {"self.reuse_gradient", "%s.reuse_gradient" % other}
    ctx.ob("R-FLAG", "Function.__add__", ok, "a sum is differentiable iff both terms are" if ok else "the flag of a sum is not the conjunction of both flags", loc(add, add))
    rm = cls.methods["__rmul__"]
    ok = any(isinstance(r, ast.Return) and isinstance(r.value, ast.Call) and call_name(r.value) == "Function" and dotted(get_arg(r.value, 2, "reuse_gradient")) == "self.reuse_gradient"
             for r in ast.walk(rm))
    ctx.ob("R-FLAG", "Function.__rmul__", ok, "a multiple keeps the flag" if ok else "a scalar multiple does not keep the flag", loc(rm, rm))
    ini = cls.methods["__init__"]
    ok = any(isinstance(s, ast.Assign) and dotted(s.targets[0]) == "self.reuse_gradient" and dotted(s.value) == "reuse_gradient" for s in ini.body)
    ctx.ob("R-FLAG", "Function.__init__", ok, "stores the flag it is given" if ok else "does not store the given flag", loc(ini, ini))
    n = 0
    ca = formula.get(repo)
    for c in ca.families:
        init = c.methods.get("__init__")
        if init is None:
            continue
        n += 1
        ps = params_of(init)
        default = None
        if "reuse_gradient" in ps:
            k = ps.index("reuse_gradient") - (len(ps) - len(init.args.defaults))
            if k >= 0:
                default = init.args.defaults[k]
        sup = [cc for cc in ast.walk(init) if isinstance(cc, ast.Call) and call_name(cc) == "__init__" and isinstance(cc.func.value, ast.Call) and call_name(cc.func.value) == "super"]
        passed = get_arg(sup[0], None, "reuse_gradient") if sup else None
        if default is not None and is_const(default, True):
            ok = passed is not None and (is_const(passed, True) or (c.name in FLAG_DEVIANTS and dotted(passed) == "reuse_gradient"))
            msg = "differentiable class: the base constructor receives True" if ok else \
                "documented as differentiable (default True) but passes `%s`: a user flag can make it return several gradients at one point" % (src(passed) if passed is not None else None)
        else:
            ok = passed is not None and dotted(passed) == "reuse_gradient"
            msg = "non-differentiable class: the user's flag is passed through" if ok else "passes `%s` instead of the user's flag" % (src(passed) if passed is not None else None)
        ctx.ob("R-FLAG", "%s.__init__" % c.name, ok, msg, loc(init, init))
    ctx.count("family constructors", n)
    return n


def r_stat(ctx):
    fn = _fn(ctx, "stationary_point")
    adds = [c for c in ast.walk(fn) if isinstance(c, ast.Call) and call_name(c) == "add_point" and dotted(c.func.value) == "self"]
    ok = False
    msg = "stationary_point does not register one sample"
    if len(adds) == 1 and isinstance(adds[0].args[0], ast.Tuple) and len(adds[0].args[0].elts) == 3:
        x, g, f = [dotted(e) for e in adds[0].args[0].elts]
        alldefs = {}
        for s in flow.stmts_of(fn, ast.Assign):
            for t in s.targets:
                if isinstance(t, ast.Name):
                    alldefs.setdefault(t.id, []).append(s.value)
                elif isinstance(t, ast.Tuple) and isinstance(s.value, ast.Tuple) and len(t.elts) == len(s.value.elts):
                    for te, ve in zip(t.elts, s.value.elts):
                        if isinstance(te, ast.Name):
                            alldefs.setdefault(te.id, []).append(ve)
        # the member that breaks the rule is the one reported: every definition of each member must have the required form
        defs = {}

        def leaf(v, cls):
            return isinstance(v, ast.Call) and call_name(v) == cls and (get_arg(v, 0, "is_leaf") is None or is_const(get_arg(v, 0, "is_leaf"), True))

        def is_zero(v):
            return isinstance(v, ast.Call) and call_name(v) == "Point" and is_const(get_arg(v, 0, "is_leaf"), False) and \
                get_arg(v, 1, "decomposition_dict") is not None and src(get_arg(v, 1, "decomposition_dict")) in ("dict()", "{}")
        for nm, pred in ((x, lambda v: leaf(v, "Point")), (g, is_zero), (f, lambda v: leaf(v, "Expression"))):
            ds = alldefs.get(nm, [])
            badd = [v for v in ds if not pred(v)]
            defs[nm] = badd[0] if badd else (ds[0] if ds else None)
        zero = defs.get(g)
        okz = is_zero(zero)
        ok = leaf(defs.get(x), "Point") and okz and leaf(defs.get(f), "Expression")
        msg = "registers (fresh point, zero gradient, fresh value)" if ok else "registers (%s, %s, %s) which is not (fresh point, zero gradient, fresh value)" % (
            src(defs.get(x)) if defs.get(x) is not None else x, src(zero) if zero is not None else g, src(defs.get(f)) if defs.get(f) is not None else f)
        if ok:
            rets = [r for r in ast.walk(fn) if isinstance(r, ast.Return)]
            ok = all(src(r.value).replace(" ", "") in (x, "(%s,%s,%s)" % (x, g, f)) for r in rets) and len(rets) == 2
            if not ok:
                msg = "returns %s" % [src(r.value) for r in rets]
    ctx.ob_or_program(("funcsys",), "R-STAT", "Function.stationary_point", ok, msg, loc(fn, fn))
    fp = _fn(ctx, "fixed_point")
    adds = [c for c in ast.walk(fp) if isinstance(c, ast.Call) and call_name(c) == "add_point"]
    ok = len(adds) == 1 and isinstance(adds[0].args[0], ast.Tuple) and len(adds[0].args[0].elts) == 3 and \
        dotted(adds[0].args[0].elts[0]) == dotted(adds[0].args[0].elts[1]) and \
        any(isinstance(r, ast.Return) and isinstance(r.value, ast.Tuple) and [dotted(e) for e in r.value.elts] == [dotted(e) for e in adds[0].args[0].elts] for r in ast.walk(fp))
    ctx.ob_or_program(("funcsys",), "R-STAT", "Function.fixed_point", ok, "registers and returns (x, x, fx)" if ok else "does not register (x, x, fx)", loc(fp, fp))


def r_pruned_consumers(ctx):
    """Every loop over a composite's weights is preceded by the pruning of these weights (in the function or in all its callers)."""
    cls = ctx.repo.cls("Function")
    consumers = []
    for fn in cls.methods.values():
        for l in flow.stmts_of(fn, ast.For):
            if isinstance(l.iter, ast.Call) and call_name(l.iter) in ("items", "keys") and dotted(l.iter.func.value) == "self.decomposition_dict":
                consumers.append((fn, l))
    ctx.count("consumers of composite weights", len(consumers))

    def prune_stmt(fn):
        return [s for s in flow.stmts_of(fn, ast.Assign) if dotted(s.targets[0]) == "self.decomposition_dict" and isinstance(s.value, ast.Call)
                and call_name(s.value) == "prune_dict" and dotted(s.value.args[0]) == "self.decomposition_dict"]

    for fn, l in consumers:
        if fn.name in ("__rmul__",):
            continue            # scaling keeps zero weights zero; nothing is asked of the terms
        ok = any(flow.dominates(p, l) for p in prune_stmt(fn))
        how = "pruned in the function before the loop"
        if not ok:
            callers = []
            for g in cls.methods.values():
                for c in ast.walk(g):
                    if isinstance(c, ast.Call) and call_name(c) == fn.name and dotted(c.func.value) == "self":
                        callers.append((g, c))
            ok = bool(callers) and all(any(flow.dominates(p, common.stmt_of(c)) for p in prune_stmt(g)) for g, c in callers)
            how = "pruned by every caller (%s) before the call" % ", ".join(sorted({g.name for g, _ in callers}))
        ctx.ob("R-PRUNED", "Function.%s::loop over weights" % fn.name, ok, how if ok else
               "iterates the weights of a composite without pruning them first: a term with weight zero is asked for (and waited for) a gradient / value", loc(fn, l))
    return len(consumers)


def _tolerant(ctx, rule_fn):
    """a per-method rule that cannot read the way the method is written gives way to the system program when that one ran and passed"""
    try:
        return rule_fn(ctx)
    except AnalysisError as e:
        if ("funcsys",) not in ctx.program_ok and ("funcsys",) in ctx.program_lazy:
            ctx.program_lazy.pop(("funcsys",))()
        if isinstance(e, ProgramRaiseT) or not ctx.program_ok.get(("funcsys",)):
            raise
        ctx.notes.append("%s: %s; decided by R-FUNCSYS (the stores unrolled as a system)" % (rule_fn.__name__, e))
        return None


def r_system(ctx):
    """the system program, once per check"""
    if not getattr(ctx, "_funcsys_done", False):
        ctx._funcsys_done = True
        from . import funcsys
        funcsys.r_function_system(ctx)


def r_bookkeeping(ctx):
    """the oracle / value / gradient / add_point bookkeeping: the system program first, the per-method rules after it"""
    r_system(ctx)
    _tolerant(ctx, r_onevalue)


def with_system(ctx, rule_fn):
    """a per-method rule used by another property: where it cannot read the way the method is written, the system program is run (once) and decides"""
    if not getattr(ctx, "_funcsys_done", False):
        ctx.program_lazy[("funcsys",)] = lambda: r_system(ctx)
    return _tolerant(ctx, rule_fn)


def run(ctx):
    r_bookkeeping(ctx)
    _tolerant(ctx, r_lookup_and_separate)
    _tolerant(ctx, r_addpoint)
    n = r_flag(ctx)
    _tolerant(ctx, r_stat)
    nc = r_pruned_consumers(ctx)
    from . import c08
    ns = c08.r_step_routes(ctx)                 # the route through a primitive step: own samples only where the function cannot have been asked before
    ctx.floor("samples recorded by steps", ns, 5)
    from . import c06
    c06.r_opsem(ctx, only=("Function",))      # the weights of a composite are what the operators make them
    from . import leafprog
    leafprog.r_function_creation(ctx)           # a leaf function is one term with weight 1; the flag and the containers are the object's own
    ctx.floor("family constructors", n, 20)
    ctx.floor("consumers of composite weights", nc, 2)
    ctx.floor("query histories unrolled", ctx.analysed.get("query histories unrolled", 0), 1000)
