"""The MOSEK back-end as task programs.

MOSEK is not installed in this sandbox and the test-suite never executes PEPit/wrappers/mosek_wrapper.py, so every line of it is decided here or
nowhere.  The methods of the wrapper are short programs over the Task API whose only inputs are small sizes (shape of an LMI, kinds of the tracked
objects); they are unrolled by sa/miniint.py against a model of the task that keeps what the API keeps -- the number of rows, of matrix variables
and of symmetric-matrix handles -- and records every put* call with its evaluated arguments.  The recorded calls are compared with the encoding
the cvxpy back-end uses for the same object (one row per constraint / per LMI entry: <A, G> + a.F (+ c <E_ij, M>) with bound -alpha).

R-MOSEKPROG  rows of a scalar constraint and of the entries of a 1x1 / 2x2 / 2x3-declared LMI
R-MOSEKDUAL  multipliers read back for every sequence of tracked kinds up to length 3: scalar k at its recorded row, LMI m at matrix variable m+1
R-SOLVECALL  each back-end calls its optimiser exactly once on every path of solve, before reading the solution
R-HEUROBJ    the heuristic objective is <W, G> built from the lower triangle of the weight, with coefficient 1 on the Gram variable, minimised
"""
import ast
import itertools
from ..model import AnalysisError, src, loc, call_name, dotted, qualname, params_of, norm_stmt, is_const
from ..miniint import IndexInterp, Matrix
from .. import flow
from . import common


def _be(repo, which):
    from .wrappers import _be as be0
    return be0(repo, which)


class TaskModel:
    """What the Task API keeps: counters, and a log of the calls that write data."""

    def __init__(self, rows=0, barvars=1):
        self.rows = rows
        self.barvars = barvars
        self.symmats = 0
        self.vars = 0
        self.log = []

    def call(self, node, it):
        callee = it.callee_text(node.func)
        if not callee.startswith("self.task."):
            return NotImplemented
        nm = callee[len("self.task."):]
        args = it.call_args(node)
        if nm == "getnumcon":
            return self.rows
        if nm == "appendcons":
            if not (len(args) == 1 and isinstance(args[0], int)):
                raise AnalysisError("appendcons(%s)" % (args,))
            self.log.append(("appendcons", args[0], self.rows))
            self.rows += args[0]
            return None
        if nm == "appendbarvars":
            self.log.append(("appendbarvars", args[0], self.barvars))
            n = len(args[0]) if isinstance(args[0], list) else 1
            self.barvars += n
            return None
        if nm == "appendvars":
            if not (len(args) == 1 and isinstance(args[0], int)):
                raise AnalysisError("appendvars(%s)" % (args,))
            self.log.append(("appendvars", args[0], self.vars))
            self.vars += args[0]
            return None
        if nm in ("getmaxnumvar", "getnumvar"):
            return self.vars
        if nm in ("getnumbarvar", "getmaxnumbarvar"):
            return self.barvars
        if nm == "appendsparsesymmat":
            self.symmats += 1
            return ("symmat", self.symmats, tuple(_freeze(a) for a in args))
        self.log.append((nm, tuple(_freeze(a) for a in args)))
        return None


def _freeze(v):
    if isinstance(v, list):
        return tuple(_freeze(x) for x in v)
    if isinstance(v, tuple):
        return tuple(_freeze(x) for x in v)
    if isinstance(v, Matrix):
        return ("matrix", v.name)
    return v


def _translator_call(node, it):
    if call_name(node) == "expression_to_sparse_matrices" and len(node.args) == 1:
        a = _freeze(it.ev(node.args[0]))
        return tuple(("tr", k, a) for k in range(6))
    return NotImplemented


def _row_of(v):
    """the row a put* call addresses: an int, or int + array-of-zeros"""
    if isinstance(v, int):
        return v
    if isinstance(v, tuple) and len(v) == 4 and v[0] == "op" and v[1] == "Add":
        ints = [x for x in v[2:] if isinstance(x, int)]
        if len(ints) == 1:
            return ints[0]
    if isinstance(v, tuple) and len(v) == 4 and v[0] == "op" and v[1] == "Sub" and isinstance(v[2], int) and not isinstance(v[3], int):
        return v[2]           # row - zeros(...)
    return None


def _check_row(log, row, expr_token, want_bound, extra_bar=None):
    """calls of one row: <A, G> with weight 1 on variable 0, a.F, bound; optionally the coupling with an LMI's matrix variable"""
    bar = [c for c in log if c[0] == "putbaraij" and c[1][0] == row]
    aij = [c for c in log if c[0] == "putaijlist" and _row_of(c[1][0]) == row]
    bnd = [c for c in log if c[0] == "putconbound" and c[1][0] == row]
    tr = lambda k: ("tr", k, expr_token)
    gram = [c for c in bar if c[1][1] == 0]
    if len(gram) != 1:
        return "the row receives %d Gram parts (putbaraij on matrix variable 0), expected 1" % len(gram)
    g = gram[0][1]
    sm = g[2][0] if isinstance(g[2], tuple) and len(g[2]) == 1 else None
    if not (sm and sm[0] == "symmat" and sm[2][1:] == (tr(0), tr(1), tr(2)) and sm[2][0] == ("attr", "Point.counter")):
        return "the Gram part is not the sparse symmetric matrix (dimension Point.counter) of the translation of the expression"
    if g[3] != (1.0,) and g[3] != (1,):
        return "the Gram part enters the row with weight %s instead of 1" % (g[3],)
    if len(aij) != 1 or aij[0][1][1:] != (tr(3), tr(4)):
        return "the function-value part of the row is %s, expected the F indices / weights of the translation once" % ([c[1][1:] for c in aij],)
    if len(bnd) != 1:
        return "the row is bounded %d times" % len(bnd)
    key, lo, up = bnd[0][1][1], bnd[0][1][2], bnd[0][1][3]
    neg_alpha = ("neg", tr(5))
    if want_bound == "fx" and not (key == ("attr", "mosek.boundkey.fx") and lo == neg_alpha and up == neg_alpha):
        return "the row is bounded by %s, expected an equality at -constant" % (bnd[0][1][1:],)
    if want_bound == "up" and not (key == ("attr", "mosek.boundkey.up") and up == neg_alpha):
        return "the row is bounded by %s, expected `<= -constant`" % (bnd[0][1][1:],)
    others = [c for c in bar if c[1][1] != 0]
    if extra_bar is None:
        if others:
            return "a scalar constraint is coupled with matrix variable %s" % (others[0][1][1],)
        return None
    i, j, size = extra_bar
    if len(others) != 1:
        return "entry (%d, %d) is coupled with %d matrix variables besides the Gram matrix, expected 1" % (i, j, len(others))
    o = others[0][1]
    sm = o[2][0] if isinstance(o[2], tuple) and len(o[2]) == 1 else None
    if not (sm and sm[0] == "symmat"):
        return "entry (%d, %d): the coupling is not a sparse symmetric matrix" % (i, j)
    dim, rr, cc, vv = sm[2]
    want = -1 if i == j else -0.5
    if dim != size or rr != (max(i, j),) or cc != (min(i, j),) or len(vv) != 1 or not isinstance(vv[0], (int, float)) or abs(vv[0] - want) > 1e-12:
        return ("entry (%d, %d) is coupled through the %s-dimensional matrix with %s at (%s, %s); a lower-triangular symmetric entry counts twice, so "
                "%s at (%d, %d) in dimension %s is required" % (i, j, dim, vv, rr, cc, want, max(i, j), min(i, j), size))
    if o[3] != (1.0,) and o[3] != (1,):
        return "entry (%d, %d): the coupling enters the row with weight %s instead of 1" % (i, j, o[3])
    return None


def r_mosek_rows(ctx, senses=None):
    if getattr(ctx, "_mosek_rows_done", None) is not None:
        return ctx._mosek_rows_done
    repo = ctx.repo
    mb = _be(repo, "mosek")
    # ---- scalar constraint, both senses, tracked or not
    fn = mb.methods["send_constraint_to_solver"]
    ctx.unit(qualname(fn))
    ps = params_of(fn)
    cons = ps[1]
    track = ps[2] if len(ps) > 2 else None
    n = 0
    for sense, want in (("inequality", "up"), ("equality", "fx")):
        for tr in ((True, False) if track else (True,)):
            n += 1
            task = TaskModel(rows=3)
            env = {cons + ".equality_or_inequality": sense, "self._list_of_constraints_sent_to_solver": [], "np.int8": "int8"}
            if track:
                env[track] = tr
            it = IndexInterp(env, symbolic={cons}, on_call=lambda nd, i0, task=task: _both(nd, i0, task))
            for a in ("self._constraint_index_in_mosek", "self._nb_pep_constraints_in_mosek"):
                pass
            key = "MosekWrapper.send_constraint_to_solver::%s%s" % (sense, "" if tr else " (untracked)")
            try:
                _prime_self_state(it, mb)
                it.run(fn.body)
                msg = None
                added = [c for c in task.log if c[0] == "appendcons"]
                if len(added) != 1 or added[0][1] != 1:
                    msg = "the task is extended by %s rows, expected exactly one" % [c[1] for c in added]
                else:
                    row = added[0][2]
                    msg = _check_row(task.log, row, ("attr", cons + ".expression"), want)
                    stray = [c for c in task.log if c[0] in ("putbaraij", "putconbound") and c[1][0] != row] + \
                            [c for c in task.log if c[0] == "putaijlist" and _row_of(c[1][0]) != row]
                    if msg is None and stray:
                        msg = "`%s` addresses row %s, the new row is %d" % (stray[0][0], stray[0][1][0], row)
                    rows_rec = [v for k0, v in it.env.items() if k0.startswith("self.") and isinstance(v, list) and v and all(isinstance(x, int) for x in v)]
                    if msg is None and tr and rows_rec != [[row]]:
                        msg = "the row index of a tracked constraint is recorded as %s, expected [%d]" % (rows_rec, row)
                    if msg is None and not tr and rows_rec:
                        msg = "an untracked constraint records a row index"
            except AnalysisError as e:
                msg = "row program not interpretable: %s" % e
            ctx.ob("R-MOSEKPROG", key, msg is None, "one new row = <A, G> + a.F with bound -constant, addressed consistently" if msg is None else msg, loc(fn, fn))
    # ---- LMI: shapes (1,1), (2,2), (3,3)
    fn = mb.methods["send_lmi_constraint_to_solver"]
    ctx.unit(qualname(fn))
    psd = params_of(fn)[-1]
    cnt = params_of(fn)[1] if len(params_of(fn)) > 2 else None
    for size in (1, 2, 3):
        n += 1
        task = TaskModel(rows=5, barvars=2)
        env = {psd + ".shape": (size, size), "self._list_of_constraints_sent_to_solver": [], "self.verbose": 0, "np.int8": "int8"}
        if cnt:
            env[cnt] = 0
        it = IndexInterp(env, symbolic={psd}, on_call=lambda nd, i0, task=task: _both(nd, i0, task))
        key = "MosekWrapper.send_lmi_constraint_to_solver::%dx%d" % (size, size)
        try:
            _prime_self_state(it, mb)
            it.run(fn.body)
            msg = None
            bv = [c for c in task.log if c[0] == "appendbarvars"]
            if len(bv) != 1 or bv[0][1] != [size]:
                msg = "matrix variables appended: %s, expected one of dimension %d" % ([c[1] for c in bv], size)
            added = [c for c in task.log if c[0] == "appendcons"]
            if msg is None and ([c[1] for c in added] != [1] * (size * size) or [c[2] for c in added] != list(range(5, 5 + size * size))):
                msg = "%d rows appended for %d entries" % (sum(c[1] for c in added), size * size)
            if msg is None:
                seen = {}
                for c in task.log:
                    if c[0] == "putbaraij" and c[1][1] == 0:
                        sm = c[1][2][0] if isinstance(c[1][2], tuple) and c[1][2] else None
                        tok = sm[2][1][2] if sm and sm[0] == "symmat" and isinstance(sm[2][1], tuple) and len(sm[2][1]) == 3 else None
                        seen[c[1][0]] = tok
                entries = {}
                for row, tok in seen.items():
                    if not (isinstance(tok, tuple) and tok[0] == "read" and tok[1] == psd and isinstance(tok[2], tuple)):
                        msg = "row %s translates `%s`, not an entry of the LMI" % (row, tok)
                        break
                    entries[tok[2]] = row
                if msg is None and set(entries) != set(itertools.product(range(size), repeat=2)):
                    msg = "rows are built for the entries %s, expected every (i, j) of the %dx%d matrix" % (sorted(entries), size, size)
                if msg is None:
                    for (i, j), row in sorted(entries.items()):
                        msg = _check_row(task.log, row, ("read", psd, (i, j)), "fx", extra_bar=(i, j, size))
                        if msg:
                            break
        except AnalysisError as e:
            msg = "row program not interpretable: %s" % e
        ctx.ob("R-MOSEKPROG", key, msg is None,
               "one equality row per entry: <A, G> + a.F + c <E_ij, M> = -constant with c = -1 / -1/2 at (max, min)" if msg is None else msg, loc(fn, fn))
    # any other sense is rejected (as Constraint and the cvxpy back-end do)
    fn = mb.methods["send_constraint_to_solver"]
    task = TaskModel(rows=3)
    env = {cons + ".equality_or_inequality": "\0other", "np.int8": "int8"}
    if track:
        env[track] = True
    it = IndexInterp(env, symbolic={cons}, on_call=lambda nd, i0, task=task: _both(nd, i0, task))
    raised = False
    try:
        _prime_self_state(it, mb)
        it.run(fn.body)
    except AnalysisError as e:
        raised = "raises" in str(e)
        why = str(e)
    ctx.ob("R-SENSE", "MosekWrapper.send_constraint_to_solver::literal set", raised,
           "a sense other than 'equality' / 'inequality' raises" if raised else "a constraint with another sense is silently given to the task", loc(fn, fn))
    ctx.count("MOSEK row programs unrolled", n)
    ctx._mosek_rows_done = n
    return n


def r_mosek_vars(ctx):
    """set_main_variables followed by generate_problem on one task (assertions evaluated): the Gram matrix is matrix variable 0 with one row per
    leaf point, there is one free scalar variable per leaf expression (the column the translation of an expression addresses), and the problem
    that set_main_variables builds passes the consistency assertion of generate_problem."""
    repo = ctx.repo
    mb = _be(repo, "mosek")
    fn, gp = mb.methods["set_main_variables"], mb.methods["generate_problem"]
    ctx.unit(qualname(fn))
    NPT, NEX = 3, 4
    task = TaskModel(rows=0, barvars=0)
    env = {"Point.counter": NPT, "Expression.counter": NEX, "self.verbose": 0, "np.int8": "int8"}
    it = IndexInterp(env, on_call=lambda nd, i0, task=task: _both(nd, i0, task), check_asserts=True)
    msg = None
    try:
        _prime_self_state(it, mb)
        it.run(fn.body)
        bv = [c for c in task.log if c[0] == "appendbarvars"]
        free = {}
        for c in task.log:
            if c[0] == "putvarbound" and len(c[1]) >= 2:
                free.setdefault(c[1][0], []).append(c[1][1])
        if not (bv and bv[0][1] == [NPT] and bv[0][2] == 0) or len(bv) != 1:
            msg = "matrix variables appended by set_main_variables: %s; expected exactly the Gram matrix, of dimension Point.counter, as matrix variable 0" % [c[1:] for c in bv]
        elif task.vars < NEX:
            msg = "%d scalar variables for %d leaf expressions" % (task.vars, NEX)
        else:
            notfree = [k for k in range(NEX) if free.get(k) != [("attr", "mosek.boundkey.fr")]]
            if notfree:
                msg = "the variable of leaf expression %d is bounded by %s, expected free (appended variables are fixed at zero by default)" % (notfree[0], free.get(notfree[0]))
        if msg is None:
            # generate_problem on the same task, with a symbolic objective
            it.symbolic.add(params_of(gp)[1])
            try:
                it.run(gp.body)
            except AnalysisError as e:
                if "raises" in str(e):
                    msg = "generate_problem raises on the problem set_main_variables has just built: %s" % e
                else:
                    raise
    except AnalysisError as e:
        raise AnalysisError("MOSEK main variables not interpretable: %s" % e)
    if msg is None:
        # the value `solve` reports is read at a position of the variable vector: on the model (the objective is the last leaf expression, as the
        # solve root creates it) that position must be the column of the objective leaf, Expression.counter - 1
        sv = mb.methods.get("solve")
        pos = None
        if sv is not None:
            xx = [s0.targets[0].id for s0 in flow.stmts_of(sv, ast.Assign) if isinstance(s0.value, ast.Call) and call_name(s0.value) == "getxx"
                  and isinstance(s0.targets[0], ast.Name)]
            rets = [r0 for r0 in ast.walk(sv) if isinstance(r0, ast.Return) and isinstance(r0.value, ast.Tuple) and r0.value.elts]
            val = rets[0].value.elts[-1] if len(rets) == 1 else None
            if isinstance(val, ast.Name):
                d0 = [s0 for s0 in flow.stmts_of(sv, ast.Assign) if any(isinstance(t0, ast.Name) and t0.id == val.id for t0 in s0.targets)]
                val = d0[0].value if len(d0) == 1 else None
            if isinstance(val, ast.Subscript) and isinstance(val.value, ast.Name) and val.value.id in xx:
                idx = val.slice
                if isinstance(idx, ast.UnaryOp) and isinstance(idx.op, ast.USub) and isinstance(idx.operand, ast.Constant) and isinstance(idx.operand.value, int):
                    pos = task.vars - idx.operand.value
                elif isinstance(idx, ast.Constant) and isinstance(idx.value, int):
                    pos = idx.value if idx.value >= 0 else task.vars + idx.value
        if pos is not None and pos != NEX - 1:
            msg = ("solve reports variable %d of the %d scalar variables as the optimum; the objective leaf (the last leaf expression, %d leaves) sits in column %d"
                   % (pos, task.vars, NEX, NEX - 1))
    ctx.ob("R-MOSEKROW", "MosekWrapper.set_main_variables / generate_problem (unrolled)", msg is None,
           "Gram matrix = matrix variable 0 (Point.counter rows), one free scalar variable per leaf expression, generate_problem's assertion holds" if msg is None else msg, loc(fn, fn))
    return 1


def _both(node, it, task):
    r = task.call(node, it)
    if r is not NotImplemented:
        return r
    r = _translator_call(node, it)
    if r is not NotImplemented:
        return r
    if call_name(node) == "isinstance":
        return True
    return NotImplemented


def _prime_self_state(it, cls):
    """attributes the constructor initialises to an empty list / zero start like that"""
    for c in cls.mro():
        init = c.methods.get("__init__")
        if init is None:
            continue
        for s in flow.stmts_of(init, ast.Assign):
            for t in s.targets:
                d = dotted(t)
                if d and d.startswith("self.") and d not in it.env:
                    v = s.value
                    if (isinstance(v, ast.Call) and call_name(v) in ("list",) and not v.args) or (isinstance(v, ast.List) and not v.elts):
                        it.env[d] = []
                    elif isinstance(v, ast.Constant) and isinstance(v.value, int) and not isinstance(v.value, bool):
                        it.env[d] = v.value


# ---------------------------------------------------------------------------------------------------
def r_mosek_duals(ctx):
    """_recover_dual_values for every sequence of tracked kinds of length <= 3: entry 0 is minus the packed dual of matrix variable 0; the k-th
    tracked scalar constraint reads y at its recorded row; the m-th tracked LMI reads minus the dual of matrix variable m + 1 with the LMI's size;
    the residual is entry 0; (list, residual) is returned."""
    if getattr(ctx, "_mosek_duals_done", None) is not None:
        return ctx._mosek_duals_done
    repo = ctx.repo
    mb = _be(repo, "mosek")
    fn = mb.methods.get("_recover_dual_values")
    if fn is None:
        raise AnalysisError("MosekWrapper._recover_dual_values missing")
    ctx.unit(qualname(fn))
    # the attribute holding the recorded rows: the int list send_constraint_to_solver fills
    send = mb.methods["send_constraint_to_solver"]
    rows_attr = None
    for c in ast.walk(send):
        if isinstance(c, ast.Call) and call_name(c) == "append" and isinstance(c.func, ast.Attribute) and (dotted(c.func.value) or "").startswith("self.") \
                and c.args and isinstance(c.args[0], ast.Name):
            d = [s for s in flow.stmts_of(send, ast.Assign) if isinstance(s.value, ast.Call) and call_name(s.value) == "getnumcon" and dotted(s.targets[0]) == c.args[0].id]
            if d:
                rows_attr = dotted(c.func.value)
    if rows_attr is None:
        # by unrolling: the list attribute of the wrapper that receives the index of the new row when a tracked constraint is sent
        ps0 = params_of(send)
        task0 = TaskModel(rows=3)
        env0 = {ps0[1] + ".equality_or_inequality": "inequality", "self._list_of_constraints_sent_to_solver": [], "np.int8": "int8"}
        if len(ps0) > 2:
            env0[ps0[2]] = True
        it0 = IndexInterp(env0, symbolic={ps0[1]}, on_call=lambda nd, i0, task=task0: _both(nd, i0, task))
        try:
            _prime_self_state(it0, mb)
            it0.run(send.body)
            hits = [k0 for k0, v0 in it0.env.items() if k0.startswith("self.") and isinstance(v0, list) and v0 == [3]]
            if len(hits) == 1:
                rows_attr = hits[0]
        except AnalysisError:
            pass
    if rows_attr is None:
        raise AnalysisError("MosekWrapper: attribute recording the rows of tracked constraints not found")
    n = 0
    bad = None
    for length in (0, 1, 2, 3):
        for kinds in itertools.product("CP", repeat=length):
            n += 1
            objs = []
            rows = []
            for k, kd in enumerate(kinds):
                objs.append(("obj", kd, k))
                if kd == "C":
                    rows.append(100 + 7 * k)

            def on_call(node, it, objs=objs):
                nm = call_name(node)
                if nm == "isinstance" and len(node.args) == 2:
                    v = it.ev(node.args[0])
                    want = dotted(node.args[1])
                    if isinstance(v, tuple) and v and v[0] == "obj":
                        return (v[1] == "C" and want == "Constraint") or (v[1] == "P" and want == "PSDMatrix")
                    return True
                return NotImplemented
            env = {"self._list_of_constraints_sent_to_solver": list(objs), rows_attr: list(rows)}
            it = IndexInterp(env, on_call=on_call)
            try:
                ret = it.run(fn.body)
            except AnalysisError as e:
                bad = "kinds %s: recovery not interpretable: %s" % ("".join(kinds) or "(none)", e)
                break
            if not (isinstance(ret, tuple) and len(ret) == 2 and isinstance(ret[0], list)):
                bad = "kinds %s: returns `%s`, expected (list of multipliers, residual)" % ("".join(kinds) or "(none)", _short(ret))
                break
            vals, residual = ret
            if len(vals) != len(kinds) + 1:
                bad = "kinds %s: %d values for %d tracked objects (+ the Gram dual)" % ("".join(kinds) or "(none)", len(vals), len(kinds))
                break
            g0 = _bar_dual(vals[0])
            if g0 is None or g0[0] != 0 or g0[1] != ("attr", "Point.counter"):
                bad = "the first value is `%s`, expected minus the unpacked dual of matrix variable 0 (size Point.counter)" % _short(vals[0])
                break
            if residual is not vals[0] and residual != vals[0]:
                bad = "the residual is `%s`, not the dual of the Gram variable" % _short(residual)
                break
            ci = pi = 0
            for k, kd in enumerate(kinds):
                v = vals[k + 1]
                if kd == "C":
                    if not (isinstance(v, tuple) and v[0] == "read" and v[2] == rows[ci] and isinstance(v[1], tuple) and v[1][0] == "call" and v[1][1].endswith("gety")):
                        bad = "kinds %s: tracked scalar constraint #%d reads `%s`, expected y at its recorded row %d" % ("".join(kinds), ci, _short(v), rows[ci])
                        break
                    ci += 1
                else:
                    b = _bar_dual(v)
                    if b is None or b[0] != pi + 1 or not _shape_of(b[1]):
                        bad = "kinds %s: tracked LMI #%d reads `%s`, expected minus the unpacked dual of matrix variable %d with the LMI's size" % (
                            "".join(kinds), pi, _short(v), pi + 1)
                        break
                    pi += 1
            if bad:
                break
        if bad:
            break
    ctx.ob("R-MOSEKDUAL", "MosekWrapper._recover_dual_values::multipliers at their rows / matrix variables", bad is None,
           "for every sequence of tracked kinds (length <= 3): Gram dual first, scalar k at its recorded row, LMI m at matrix variable m + 1, residual = Gram dual"
           if bad is None else bad, loc(fn, fn))
    ctx.count("MOSEK recovery sequences unrolled", n)
    ctx._mosek_duals_done = n
    ctx.program_ok[("mosekdual",)] = bad is None
    return n


def _short(v):
    s = repr(v)
    return s if len(s) < 160 else s[:157] + "..."


def _bar_dual(v):
    """-(unpack(getbarsj(soltype, idx), size)) -> (idx, size)"""
    if not (isinstance(v, tuple) and v[0] == "neg"):
        return None
    c = v[1]
    if not (isinstance(c, tuple) and c[0] == "call" and c[1].endswith("_get_Gram_from_mosek") and len(c[2]) == 2):
        return None
    inner, size = c[2]
    if not (isinstance(inner, tuple) and inner[0] == "call" and inner[1].endswith("getbarsj") and len(inner[2]) == 2):
        return None
    return inner[2][1], size


def _shape_of(size):
    """size token == <loop variable>.shape[0] (or [1]: LMIs are square)"""
    return isinstance(size, tuple) and len(size) == 3 and size[0] == "read" and size[2] in (0, 1) and isinstance(size[1], tuple) and size[1][0] == "attr" \
        and str(size[1][1]).endswith(".shape")


# ---------------------------------------------------------------------------------------------------
def r_solve_call(ctx):
    """solve() of each back-end runs the optimiser exactly once on every completing path, before the solution is read."""
    from ..absint import PathEval
    repo = ctx.repo
    for be in common.backends(repo):
        fn = be.methods.get("solve")
        if fn is None:
            raise AnalysisError("%s.solve missing" % be.name)
        ctx.unit(qualname(fn))
        is_mosek = "mosek" in be.name.lower()

        def is_opt(n):
            if not (isinstance(n, ast.Call) and isinstance(n.func, ast.Attribute)):
                return False
            if is_mosek:
                return n.func.attr == "optimize" and dotted(n.func.value) == "self.task"
            return n.func.attr == "solve" and dotted(n.func.value) == "self.prob"
        pc = flow.path_counts(fn.body, is_opt)
        normal = pc.get("next", set()) | pc.get("return", set())
        ok = normal == {1}
        msg = "the optimiser runs exactly once on every path"
        if ok:
            calls = [n for n in ast.walk(fn) if is_opt(n)]
            first = min(c.lineno for c in calls)
            reads = [n for n in ast.walk(fn) if isinstance(n, ast.Call) and call_name(n) in ("getxx", "getbarxj", "getprosta") or
                     (isinstance(n, ast.Attribute) and n.attr == "value" and dotted(n.value) in ("self.G", "self.F", "self.objective", "self.prob"))]
            early = [r for r in reads if r.lineno < first]
            if early:
                ok, msg = False, "the solution is read (`%s`) before the optimiser has run" % src(early[0])[:50]
        else:
            msg = "the optimiser is called %s times depending on the path: solve() can return the values of an earlier solve (or of none)" % sorted(normal)
        ctx.ob("R-SOLVECALL", "%s.solve::optimiser called once" % be.name, ok, msg, loc(fn, fn))


# ---------------------------------------------------------------------------------------------------
def r_heur_objective(ctx):
    """MOSEK heuristic: the objective becomes <W, G> -- lower triangle of the weight (row indices, column indices, values in that order) as a
    symmetric matrix of dimension Point.counter with coefficient 1 on matrix variable 0 -- and is minimised; the wrapper keeps the objective
    expression given to generate_problem for the heuristic constraint."""
    repo = ctx.repo
    mb = _be(repo, "mosek")
    h = mb.methods.get("heuristic")
    if h is None:
        raise AnalysisError("MosekWrapper.heuristic missing")
    ctx.unit(qualname(h))
    w = params_of(h)[1]
    task = TaskModel()

    def on_call(node, it):
        r = task.call(node, it)
        if r is not NotImplemented:
            return r
        return NotImplemented
    it = IndexInterp({}, symbolic={w}, on_call=on_call)
    msg = None
    try:
        it.run(h.body)
        bar = [c for c in task.log if c[0] == "putbarcj"]
        if len(bar) != 1:
            msg = "the matrix part of the objective is set %d times" % len(bar)
        else:
            idx, mats, coefs = bar[0][1][0], bar[0][1][1], bar[0][1][2]
            sm = mats[0] if isinstance(mats, tuple) and len(mats) == 1 else None
            if idx != 0:
                msg = "the objective matrix is attached to matrix variable %s, the Gram matrix is variable 0" % (idx,)
            elif coefs not in ((1.0,), (1,)):
                msg = "the objective matrix enters with coefficient %s instead of 1" % (coefs,)
            elif not (sm and sm[0] == "symmat"):
                msg = "the objective matrix is not a sparse symmetric matrix"
            else:
                dim, rr, cc, vv = sm[2]
                nz = ("call", "np.argwhere", (("call", "np.tril", (("array", w),), ()),), ())
                col = lambda k: ("read", nz, (("slice", None, None, None), k))
                if dim != ("attr", "Point.counter"):
                    msg = "the objective matrix has dimension %s, the Gram matrix has dimension Point.counter" % (dim,)
                elif rr != col(0) or cc != col(1):
                    msg = "the objective matrix takes its (row, column) indices from %s / %s, expected the row and the column index of the non-zero entries of the lower triangle of the weight" % (_short(rr), _short(cc))
                elif vv != ("read", w, (rr, cc)):
                    msg = "the objective matrix takes its values from %s, expected weight[rows, columns]" % _short(vv)
        sense = [c for c in task.log if c[0] == "putobjsense"]
        if msg is None and (not sense or any(c[1][0] != ("attr", "mosek.objsense.minimize") for c in sense)):
            msg = "the heuristic objective sense is %s, expected minimize" % ([c[1][0] for c in sense],)
    except AnalysisError as e:
        msg = "heuristic program not interpretable: %s" % e
    ctx.ob("R-HEUROBJ", "MosekWrapper.heuristic::objective <W, Gram>", msg is None,
           "minimise <W, G> with W's lower triangle as a symmetric matrix, coefficient 1 on the Gram variable" if msg is None else msg, loc(h, h))
    # the objective expression handed to generate_problem is kept for the heuristic constraint (both back-ends)
    for be in common.backends(repo):
        gp = be.methods.get("generate_problem")
        ph = be.methods.get("prepare_heuristic")
        if gp is None or ph is None:
            continue
        uses = [n for n in ast.walk(ph) if isinstance(n, ast.Attribute) and dotted(n) == "self.objective"]
        if not uses:
            continue
        stores = [s for s in flow.stmts_of(gp, ast.Assign) if any(dotted(t) == "self.objective" for t in s.targets)]
        obj_param = params_of(gp)[1]
        def names_in(e, depth=0):
            out = set()
            for n0 in ast.walk(e):
                if isinstance(n0, ast.Name):
                    out.add(n0.id)
                    d0 = flow._single_def(gp, n0.id) if depth < 4 else None
                    if d0 is not None:
                        out |= names_in(d0, depth + 1)
            return out
        ok = len(stores) == 1 and not flow.conditions_guarding(stores[0]) and obj_param in names_in(stores[0].value)
        ctx.ob("R-HEUROBJ", "%s.generate_problem::keeps the objective for the heuristic constraint" % be.name, ok,
               "the objective the heuristic constraint bounds is the one the problem was generated with" if ok else
               "prepare_heuristic bounds `self.objective`, but generate_problem does not store its objective argument there on every path", loc(gp, gp))


def r_solver_choice(ctx):
    """CvxpyWrapper.solve unrolled with a solver named by the user that is not MOSEK (an installed one, and a name no solver has), MOSEK being
    absent: the name reaches `prob.solve` unchanged -- cvxpy is the one that rejects an unknown solver; replacing it silently by a default turns
    the failure into a result.  Without a solver, and with solver='MOSEK' / None, the documented fall-back to SCS applies."""
    repo = ctx.repo
    be = _be(repo, "cvxpy")
    fn = be.methods.get("solve")
    if fn is None or fn.args.kwarg is None:
        return 0
    kwname = fn.args.kwarg.arg
    n = 0
    for given, want in (("NOT_A_SOLVER", "NOT_A_SOLVER"), ("CLARABEL", "CLARABEL"), ("MOSEK", "SCS"), (None, "SCS"), ("<absent>", "SCS")):
        kwargs = {} if given == "<absent>" else {"solver": given}
        passed = []

        def on_call(node, it):
            nm = call_name(node)
            ct = it.callee_text(node.func)
            if nm == "find_spec":
                return None                      # mosek is not installed
            if nm == "installed_solvers":
                return ["CLARABEL", "SCS"]
            if ct.endswith("prob.solve"):
                kw = {}
                for k in node.keywords:
                    v = it.ev(k.value)
                    if k.arg is None:
                        if not isinstance(v, dict):
                            raise AnalysisError("**%r in the call of the solver" % (v,))
                        kw.update(v)
                    else:
                        kw[k.arg] = v
                passed.append(kw)
                return None
            return NotImplemented
        env = {kwname: kwargs, "self.verbose": 0}
        it = IndexInterp(env, on_call=on_call)
        try:
            it.run(fn.body)
        except AnalysisError as ex:
            if "the index program raises" in str(ex):
                if want == given and given == "NOT_A_SOLVER":
                    n += 1
                    ctx.ob("R-SOLVECALL", "CvxpyWrapper.solve::solver=%r (unrolled)" % (given,), True, "an unknown solver is rejected", loc(fn, fn))
                    continue
            ctx.notes.append("R-SOLVECALL solver-choice program skipped (solver=%r): %s" % (given, ex))
            continue
        n += 1
        got = passed[0].get("solver", "<absent>") if len(passed) == 1 else "<%d calls of prob.solve>" % len(passed)
        ok = len(passed) == 1 and got == want
        ctx.ob("R-SOLVECALL", "CvxpyWrapper.solve::solver=%r (unrolled)" % (given,), ok,
               "cvxpy is asked for %r" % (want,) if ok else
               "with solver=%r (MOSEK not installed) cvxpy is asked for %r, expected %r%s" % (
                   given, got, want, ": a solver the user named is replaced silently -- an invalid name is no longer reported" if given in ("NOT_A_SOLVER", "CLARABEL") else ""),
               loc(fn, fn))
    return n
