"""R-ENTRY: the public entry of a solve (`PEP.solve`, the method that calls the solve root), unrolled by sa/miniint.py.

The entry is run on a problem object that still holds the back-end object of an earlier solve, for every back-end name the documentation gives (and
a name no package answers to), with the package present or not, the licence valid or not, at verbosity 0 and 1.  What
the unrolled entry hands to the solve root is compared with the statement:

  new back-end   the back-end object given to the solve root was constructed during this call (never the one kept from an earlier solve), and
                 every call constructs its own;
  right back-end its class is the one registered under the requested name when the package is there and the licence holds, the cvxpy one otherwise;
  recorded       the problem object keeps exactly that back-end object and its name;
  options        every option of the entry reaches the parameter of the same name of the solve root, and the entry returns what the root returns."""
import ast
from ..model import AnalysisError, src, loc, call_name, dotted, params_of, qualname
from ..miniint import IndexInterp, SymObj, ProgramRaise, is_token
from . import common

RULE = "R-ENTRY"


def entry_of(repo):
    pep = common.pep_class(repo)
    root = common.solve_root(repo)
    entry = None
    for f in pep.methods.values():
        if f is not root and any(isinstance(c, ast.Call) and call_name(c) == root.name for c in ast.walk(f)):
            entry = f
    if entry is None:
        raise AnalysisError("no PEP method calls the solve root %s" % root.name)
    return entry, root


def _is_class(repo, name):
    return sum(1 for c in repo.all_classes() if c.name == name) == 1


def _module_tables(module, repo):
    """names of the module that denote classes of the package, or literal tables of such classes (own or imported): name -> value with
    classes as ("type", name)"""
    out = {}
    for nm in list(module.imports) + list(module.globals) + list(module.classes):
        r = repo.resolve_name(module, nm)
        if type(r).__name__ == "ClassInfo":
            out[nm] = ("type", r.name)
    for nm in list(module.imports) + list(module.globals):
        r = repo.resolve_name(module, nm)
        if isinstance(r, tuple) and r and r[0] == "global" and isinstance(r[2], (ast.Dict, ast.List, ast.Tuple)):
            src_mod = r[1]
            types = {}
            for n2 in list(src_mod.imports) + list(src_mod.classes):
                r2 = repo.resolve_name(src_mod, n2)
                if type(r2).__name__ == "ClassInfo":
                    types[n2] = ("type", r2.name)
            try:
                out[nm] = IndexInterp(types).ev(r[2])
            except AnalysisError:
                pass
    return out


def run_entry(repo, entry, root, name, found, licence, verbose):
    """-> dict(wrapper=, args=, self=, ret=) of one unrolled call"""
    ps = params_of(entry)
    stale = SymObj("wrapper", label="the back-end of an earlier solve", cls="CvxpyWrapper", born="before")
    me = SymObj("PEP", label="problem", wrapper=stale, wrapper_name="cvxpy")
    made = []
    calls = []
    env = _module_tables(entry._module, repo)
    env[ps[0]] = me
    a = entry.args
    names = [x.arg for x in a.posonlyargs + a.args][1:]
    defaults = dict(zip(names[len(names) - len(a.defaults):], a.defaults))
    given = {"wrapper": name, "verbose": verbose, "return_primal_or_dual": "primal", "dimension_reduction_heuristic": "trace",
             "eig_regularization": ("opt", "eig_regularization"), "tol_dimension_reduction": ("opt", "tol_dimension_reduction")}

    def on_call(node, it):
        nm = call_name(node)
        txt = dotted(node.func) or ""
        if nm == "find_spec":
            arg = it.ev(node.args[0]) if node.args else None
            if not isinstance(arg, str):
                raise AnalysisError("find_spec of `%s`" % src(node)[:50])
            return SymObj("spec", label=arg) if (found and arg in ("cvxpy", "mosek")) or arg == "cvxpy" else None
        if nm == root.name and isinstance(node.func, ast.Attribute):
            args = it.call_args(node)
            kws = {}
            for k in node.keywords:
                if k.arg is None:
                    v = it.ev(k.value)
                    if isinstance(v, dict):
                        kws.update(v)
                else:
                    kws[k.arg] = it.ev(k.value)
            calls.append((args, kws))
            return ("root-result",)
        if nm == "check_license" and isinstance(node.func, ast.Attribute):
            recv = it.ev(node.func.value)
            if isinstance(recv, SymObj) and recv.kind == "wrapper":
                return True if recv.attrs.get("cls") != "MosekWrapper" else bool(licence)
        if nm == "lower" and isinstance(node.func, ast.Attribute):
            v = it.ev(node.func.value)
            if isinstance(v, str):
                return v.lower()
        # a call of a class of the package held as a value (an entry of a table, a local alias)
        if not isinstance(node.func, ast.Attribute) or not isinstance(it.env.get(dotted(node.func.value) or "", None), SymObj):
            try:
                fv = it.ev(node.func)
            except AnalysisError:
                fv = None
            if is_token(fv) and fv[0] == "type" and _is_class(repo, fv[1]) and repo.cls(fv[1]).is_subclass_of(common.wrapper_base(repo)):
                kws = {k.arg: it.ev(k.value) for k in node.keywords if k.arg}
                w = SymObj("wrapper", label="%s #%d" % (fv[1], len(made) + 1), cls=fv[1], born="call", given=dict(kws), args=it.call_args(node))
                made.append(w)
                return w
        return NotImplemented
    it = IndexInterp(env, on_call=on_call, check_asserts=True)
    it.home = (repo, entry._module, "PEP")
    for p0 in names:
        if p0 in given:
            env[p0] = given[p0]
        elif p0 in defaults:
            env[p0] = it.ev(defaults[p0])
        else:
            raise AnalysisError("parameter `%s` of %s has no default" % (p0, qualname(entry)))
    if a.kwarg is not None:
        env[a.kwarg.arg] = {"solver_option": ("opt", "solver_option")}
    it.env = env
    ret = it.run(entry.body)
    return {"made": made, "calls": calls, "self": me, "ret": ret, "stale": stale, "given": given, "kw": a.kwarg.arg if a.kwarg is not None else None}


def r_entry(ctx):
    repo = ctx.repo
    entry, root = entry_of(repo)
    ctx.unit(qualname(entry) + " (unrolled)")
    tables = _module_tables(entry._module, repo)
    registry = None
    for k0, v0 in tables.items():
        if isinstance(v0, dict) and v0 and all(is_token(x) and x[0] == "type" for x in v0.values()) and "cvxpy" in v0:
            registry = v0
    if registry is None:
        ctx.notes.append("%s: registry of back-ends (a module-level table name -> class with an entry 'cvxpy') not found; structural rules decide" % RULE)
        return None
    bad = None
    n = 0
    rps = params_of(root)[1:]
    for name in list(registry) + ["nosuchbackend"]:
        for found in (True, False):
            for licence in (True, False):
                for verbose in (0, 1):
                    label = "wrapper=%r, package %s, licence %s, verbose=%d" % (name, "found" if found else "not found", "valid" if licence else "not valid", verbose)
                    try:
                        r = run_entry(repo, entry, root, name, found, licence, verbose)
                    except ProgramRaise as e:
                        if name not in registry:
                            n += 1
                            continue          # a name nothing is registered under: falling back on cvxpy and refusing it are both within the statement
                        bad = "%s: raises %s" % (label, e.exc)
                        break
                    except AnalysisError as e:
                        ctx.notes.append("%s: %s not interpretable (%s): %s; structural rules decide" % (RULE, qualname(entry), label, e))
                        ctx.count("entry programs unrolled", n)
                        return None
                    n += 1
                    if len(r["calls"]) != 1:
                        bad = "%s: the solve root is called %d times" % (label, len(r["calls"]))
                        break
                    args, kws = r["calls"][0]
                    bound = dict(zip(rps, args))
                    bound.update(kws)
                    w = bound.get(rps[0])
                    want_cls = registry[name.lower()][1] if (name.lower() in registry and found and (licence or registry[name.lower()][1] != "MosekWrapper")) \
                        else registry["cvxpy"][1]
                    want_name = [k0 for k0, v0 in registry.items() if v0[1] == want_cls][0]
                    if not (isinstance(w, SymObj) and w.kind == "wrapper"):
                        bad = "%s: the solve root receives `%r` as its back-end" % (label, w)
                    elif w is r["stale"] or w.attrs.get("born") != "call":
                        bad = "%s: the solve root receives the back-end object kept from an earlier solve, not one constructed by this call" % label
                    elif w.attrs.get("cls") != want_cls:
                        bad = "%s: the solve root receives a %s, expected a %s" % (label, w.attrs.get("cls"), want_cls)
                    elif w.attrs.get("given", {}).get("verbose", (w.attrs.get("args") or [None])[0]) != verbose:
                        bad = "%s: the back-end is constructed with verbose=%r" % (label, w.attrs.get("given", {}).get("verbose"))
                    elif r["self"].attrs.get("wrapper") is not w:
                        bad = "%s: the problem object does not keep the back-end handed to the solve root" % label
                    elif r["self"].attrs.get("wrapper_name") != want_name:
                        bad = "%s: the problem object records the back-end name %r, the back-end used is %r" % (label, r["self"].attrs.get("wrapper_name"), want_name)
                    elif r["ret"] != ("root-result",):
                        bad = "%s: the entry returns `%r`, not what the solve root returns" % (label, r["ret"])
                    else:
                        for p0, v0 in r["given"].items():
                            if p0 == "wrapper" or p0 not in rps:
                                continue
                            if bound.get(p0, "<default>") != v0:
                                bad = "%s: option `%s` reaches the solve root as %r (given: %r)" % (label, p0, bound.get(p0, "<the root's default>"), v0)
                                break
                        if bad is None and r["kw"] is not None and bound.get("solver_option") != ("opt", "solver_option"):
                            bad = "%s: the solver-specific keyword arguments do not reach the solve root" % label
                    if bad:
                        break
                if bad:
                    break
            if bad:
                break
        if bad:
            break
    ctx.count("entry programs unrolled", n)
    ctx.ob(RULE, "%s::back-end and options handed to the solve root (unrolled)" % qualname(entry), bad is None,
           "for every documented back-end name, package / licence situation and verbosity: a back-end of the right class constructed by this call, "
           "recorded on the problem object, every option forwarded under its own name, the root's result returned" if bad is None else bad, loc(entry, entry))
    ctx.program_ok[("entry",)] = bad is None
    return bad is None
