"""Rules on the wrapper base class and the two back-ends:
R-TRACK, R-SLOTS, R-SENSE, R-CMP, R-SIGN, R-IFACE, R-ROWIDX, R-BARIDX, R-OBJSLOT, R-HEUR, R-LMIENC."""
import ast
from fractions import Fraction
from ..model import (AnalysisError, src, loc, call_name, dotted, qualname, norm_stmt, params_of, is_const, get_arg, anon_src, clone)
from ..nf import Evaluator, Rat, Poly, ExprV, ConsV, PointV, Opaque, v_cmp, to_rat
from .. import flow, effects
from . import common

TRACKED = "_list_of_constraints_sent_to_solver"
SOLVER_CONS = "_list_of_solver_constraints"
TRANSLATE = "_expression_to_solver"


def resolve_names(repo):
    """The tracked-list attribute is the one Wrapper.assign_dual_values zips with the recovered multipliers; the cvxpy list of solver
    constraints is the one handed to cp.Problem(constraints=...).  Resolved from the source so that a rename is followed."""
    global TRACKED, SOLVER_CONS
    base = common.wrapper_base(repo)
    fn = base.methods.get("assign_dual_values")
    if fn is not None:
        for c in ast.walk(fn):
            if isinstance(c, ast.Call) and call_name(c) == "zip" and c.args:
                d = dotted(c.args[0])
                if d and d.startswith("self."):
                    TRACKED = d.split(".", 1)[1]
    global TRANSLATE
    for be in common.backends(repo):
        for m0 in be.methods.values():
            if any(isinstance(c, ast.Call) and call_name(c) == "expression_to_matrices" for c in ast.walk(m0)) and m0.name != "generate_problem":
                TRANSLATE = m0.name
        gp = be.methods.get("generate_problem")
        if gp is None:
            continue
        for c in ast.walk(gp):
            if isinstance(c, ast.Call) and call_name(c) == "Problem":
                a = get_arg(c, 1, "constraints")
                d = dotted(a) if a is not None else None
                if d and d.startswith("self."):
                    SOLVER_CONS = d.split(".", 1)[1]


def _be(repo, which):
    for b in common.backends(repo):
        if which in b.name.lower():
            return b
    raise AnalysisError("back-end %s not found" % which)


# ---------------------------------------------------------------------------------------------------
# R-TRACK
# ---------------------------------------------------------------------------------------------------
def r_track(ctx):
    repo = ctx.repo
    resolve_names(repo)
    base = common.wrapper_base(repo)
    for be in common.backends(repo):
        for meth in ("send_constraint_to_solver", "send_lmi_constraint_to_solver"):
            fn = be.methods.get(meth)
            if fn is None:
                raise AnalysisError("%s.%s missing" % (be.name, meth))
            ctx.unit(qualname(fn))
            obj_param = params_of(fn)[-1] if meth.startswith("send_lmi") else params_of(fn)[1]
            track_param = "track" if "track" in params_of(fn) else None

            def is_track(n):
                return isinstance(n, ast.Call) and call_name(n) == "append" and dotted(n.func.value) == "self." + TRACKED

            apps = [n for n in ast.walk(fn) if is_track(n)]
            okarg = all(len(a.args) == 1 and dotted(a.args[0]) == obj_param for a in apps)
            if track_param is None:
                pc = flow.path_counts(fn.body, is_track)
                normal = pc.get("next", set()) | pc.get("return", set())
                ok = normal == {1} and okarg
                why = "appends its argument to the tracked list exactly once on every completing path" if ok else \
                    "tracked-list appends per completing path: %s (argument ok: %s)" % (sorted(normal), okarg)
            else:
                # tracked exactly when `track`
                ok = okarg and len(apps) == 1
                why = "tracks its argument exactly when `track` is set"
                if ok:
                    conds = flow.conditions_guarding(common.stmt_of(apps[0]))
                    ok = len(conds) == 1 and isinstance(conds[0][0], ast.Name) and conds[0][0].id == track_param and conds[0][1]
                    if not ok:
                        why = "the tracked-list append is not guarded by exactly `if %s`" % track_param
                else:
                    why = "%d tracked-list appends" % len(apps)
            ctx.ob("R-TRACK", "%s.%s::tracked once" % (be.name, meth), ok, why, loc(fn, fn))
    # assign_dual_values, unrolled for every sequence of tracked kinds up to length 3: the k-th tracked object stores element k+1 of the
    # recovered list (element 0 is the Gram residual), whatever its kind; the residual is returned
    from ..miniint import IndexInterp, SymObj
    import itertools as _it
    fn = base.methods.get("assign_dual_values")
    if fn is None:
        raise AnalysisError("Wrapper.assign_dual_values missing")
    ctx.unit(qualname(fn))
    bad = None
    for length in (0, 1, 2, 3):
        for kinds in _it.product(("Constraint", "PSDMatrix"), repeat=length):
            objs = [SymObj(kd, shape=("shape", k), label="o%d" % k) for k, kd in enumerate(kinds)]
            duals = [SymObj("dual", shape=("attr", "Point.counter"), label="residual")] + [SymObj("dual", shape=("shape", k), label="d%d" % k) for k in range(length)]
            residual = duals[0]

            def on_call(node, it, duals=duals, residual=residual):
                if call_name(node) == "_recover_dual_values":
                    return (list(duals), residual)
                return NotImplemented
            it = IndexInterp({"self." + TRACKED: list(objs), "Constraint": ("type", "Constraint"), "PSDMatrix": ("type", "PSDMatrix")}, on_call=on_call)
            label = "tracked kinds %s" % ([k[0] for k in kinds] or "(none)")
            try:
                ret = it.run(fn.body)
            except AnalysisError as e:
                bad = "%s: not interpretable: %s" % (label, e)
                break
            for k, o in enumerate(objs):
                got = o.attrs.get("_dual_variable_value")
                if got is not duals[k + 1]:
                    bad = "%s: tracked object #%d stores %s, expected element %d of the recovered list (element 0 is the Gram residual)" % (
                        label, k, "nothing" if got is None else repr(got), k + 1)
                    break
            if bad:
                break
            if ret is not residual:
                bad = "%s: returns `%r`, not the recovered residual" % (label, ret)
                break
        if bad:
            break
    if bad is None:
        # an object of another kind in the tracked list is an error, not something to skip
        alien = SymObj("Point", label="alien")
        duals = [SymObj("dual", label="residual"), SymObj("dual", label="d0")]
        it = IndexInterp({"self." + TRACKED: [alien], "Constraint": ("type", "Constraint"), "PSDMatrix": ("type", "PSDMatrix")},
                         on_call=lambda node, it0: (list(duals), duals[0]) if call_name(node) == "_recover_dual_values" else NotImplemented)
        try:
            it.run(fn.body)
            bad = "a tracked object that is neither a Constraint nor a PSDMatrix is skipped silently (its multiplier is lost and the following ones still line up by luck)"
        except AnalysisError as e:
            if "raises" not in str(e):
                bad = "not interpretable: %s" % e
    ctx.ob("R-TRACK", "Wrapper.assign_dual_values::alignment", bad is None,
           "for every sequence of tracked kinds (length <= 3) object k stores recovered multiplier k+1 and the residual is returned" if bad is None else bad, loc(fn, fn))
    # each back-end's recovery emits the residual first, then one element per tracked object on every branch
    for be in common.backends(repo):
        fn = be.methods.get("_recover_dual_values")
        if fn is None:
            raise AnalysisError("%s._recover_dual_values missing" % be.name)
        ctx.unit(qualname(fn))
        loops = [l for l in flow.stmts_of(fn, ast.For) if dotted(l.iter) == "self." + TRACKED]
        prog = ("none",)
        if be.name == "MosekWrapper":
            from . import mosekprog
            try:
                mosekprog.r_mosek_duals(ctx)          # the recovery unrolled on every sequence of tracked kinds decides; the loop shape is one way of writing it
                prog = ("mosekdual",)
            except AnalysisError:
                pass
        if len(loops) != 1:
            ctx.ob_or_program(prog, "R-TRACK", "%s._recover_dual_values::one element per tracked object" % be.name, False,
                              "%d loops over the tracked list" % len(loops), loc(fn, fn))
            continue
        lp = loops[0]
        out_name = _returned_list_name(fn)

        def is_out_append(n):
            return isinstance(n, ast.Call) and call_name(n) == "append" and dotted(n.func.value) == out_name

        pc = flow.path_counts(lp.body, is_out_append)
        normal = pc.get("next", set()) | pc.get("continue", set())
        ok = normal == {1} and "break" not in pc and "return" not in pc
        ctx.ob_or_program(prog, "R-TRACK", "%s._recover_dual_values::one element per tracked object" % be.name, ok,
               "exactly one multiplier is emitted per tracked object on every branch" if ok else
               "multipliers emitted per tracked object: %s" % {k: sorted(v) for k, v in pc.items()}, loc(fn, lp))
        before = [n for s in fn.body for n in ast.walk(s) if is_out_append(n) and n.lineno < lp.lineno]
        # the list may also start as the literal [residual]
        lit = [s0 for s0 in fn.body if isinstance(s0, ast.Assign) and dotted(s0.targets[0]) == out_name and isinstance(s0.value, ast.List) and s0.lineno < lp.lineno]
        n_before = len(before) + (len(lit[-1].value.elts) if lit else 0)
        okf = n_before == 1
        ctx.ob_or_program(prog, "R-TRACK", "%s._recover_dual_values::residual first" % be.name, okf,
               "the Gram residual is the first element of the recovered list" if okf else
               "%d elements are emitted before the loop over tracked objects (expected the Gram residual only)" % n_before, loc(fn, fn))


def _returned_list_name(fn):
    for r in ast.walk(fn):
        if isinstance(r, ast.Return) and isinstance(r.value, ast.Tuple) and r.value.elts and isinstance(r.value.elts[0], ast.Name):
            return r.value.elts[0].id
    raise AnalysisError("%s: returned (list, residual) pair not found" % qualname(fn))


# ---------------------------------------------------------------------------------------------------
# R-SLOTS  (cvxpy producer / consumer equation)
# ---------------------------------------------------------------------------------------------------
def shape_aliases(fn):
    """locals bound to the shape of the LMI:  n, m = X.shape  /  n = X.shape[0]  ->  {n: s0, m: s1}"""
    out = {}
    for s0 in flow.stmts_of(fn, ast.Assign):
        t, v = s0.targets[0], s0.value
        if isinstance(t, ast.Tuple) and len(t.elts) == 2 and isinstance(v, ast.Attribute) and v.attr == "shape" and all(isinstance(e, ast.Name) for e in t.elts):
            out[t.elts[0].id] = Rat.sym("s0")
            out[t.elts[1].id] = Rat.sym("s1")
        if isinstance(t, ast.Name) and isinstance(v, ast.Subscript) and isinstance(v.value, ast.Attribute) and v.value.attr == "shape" and is_const(v.slice) \
                and v.slice.value in (0, 1):
            out[t.id] = Rat.sym("s%d" % v.slice.value)
    return out






def r_slots(ctx):
    """cvxpy: what the send methods append to the solver-constraint list and what the recovery reads back, end to end (sa/miniint.py).
    The two send methods and set_main_variables are unrolled to get the block of solver constraints each tracked object contributes (a scalar
    constraint: one; an n x n LMI: `M >> 0` first, then n * n entry equalities); then _recover_dual_values is unrolled, for every sequence of
    tracked kinds up to length 3 with LMIs of size 1 and 2, on a problem whose constraints are those blocks in order: it must return the dual of the
    Gram constraint first (also as residual), then, for each tracked object in order, the dual of the first solver constraint of its own block."""
    from ..miniint import IndexInterp, SymObj, is_token
    import itertools as _it
    repo = ctx.repo
    resolve_names(repo)
    be = _be(repo, "cvxpy")
    send_c, send_p, rec = be.methods["send_constraint_to_solver"], be.methods["send_lmi_constraint_to_solver"], be.methods["_recover_dual_values"]
    main = be.methods["set_main_variables"]
    ctx.unit(qualname(rec))

    def block_of_obj(kind, size):
        """number of solver constraints a send call appends"""
        fn = send_c if kind == "C" else send_p
        psd = params_of(fn)[-1] if kind == "P" else None
        env = {"self." + TRACKED: [], "self." + SOLVER_CONS: [], "self.verbose": 0}
        prm = params_of(fn)
        if kind == "C":
            env[prm[1] + ".equality_or_inequality"] = "inequality"
        else:
            env[psd + ".shape"] = (size, size)
            if len(prm) > 2:
                env[prm[1]] = 0
        it = IndexInterp(env, symbolic={prm[-1]} if kind == "P" else {prm[1]},
                         on_call=lambda node, it0: ("tr", it0.ev(node.args[0])) if call_name(node) == TRANSLATE and len(node.args) == 1 else
                         (True if call_name(node) == "isinstance" else NotImplemented))
        it.run(fn.body)
        sc = it.env.get("self." + SOLVER_CONS)
        if not isinstance(sc, list):
            raise AnalysisError("%s does not extend self.%s" % (fn.name, SOLVER_CONS))
        return len(sc)
    msg = None
    n = 0
    try:
        itm = IndexInterp({"self." + SOLVER_CONS: [], "self." + TRACKED: [], "Point.counter": 3, "Expression.counter": 4, "self.verbose": 0})
        itm.run(main.body)
        n_main = len(itm.env.get("self." + SOLVER_CONS) or [])
        if n_main != 1:
            msg = "set_main_variables contributes %d solver constraints before any tracked object; the recovery reads the residual at position 0" % n_main
        sizes = {("C", 0): block_of_obj("C", 0), ("P", 1): block_of_obj("P", 1), ("P", 2): block_of_obj("P", 2)}
        for length in (0, 1, 2, 3):
            if msg:
                break
            for kinds in _it.product((("C", 0), ("P", 1), ("P", 2)), repeat=length):
                n += 1
                objs = [SymObj("Constraint" if k == "C" else "PSDMatrix", shape=(sz, sz), label="o%d" % i) for i, (k, sz) in enumerate(kinds)]
                cons = [SymObj("solver-constraint", dual_value=SymObj("dual", shape=(3, 3), label="gram"))]
                starts = []
                for i, kd in enumerate(kinds):
                    starts.append(len(cons))
                    for j in range(sizes[kd]):
                        cons.append(SymObj("solver-constraint", dual_value=SymObj("dual", shape=(kd[1], kd[1]), label="o%d.%d" % (i, j))))
                env = {"self." + TRACKED: list(objs), "self." + SOLVER_CONS: list(cons), "self.prob.constraints": list(cons), "Point.counter": 3,
                       "Constraint": ("type", "Constraint"), "PSDMatrix": ("type", "PSDMatrix")}
                it = IndexInterp(env)
                ret = it.run(rec.body)
                label = "tracked kinds %s" % ([k + (str(sz) if k == "P" else "") for k, sz in kinds] or "(none)")
                if not (isinstance(ret, tuple) and len(ret) == 2 and isinstance(ret[0], list)):
                    msg = "%s: returns `%r`, expected (list of multipliers, residual)" % (label, ret)
                    break
                vals, residual = ret
                want = [cons[0].attrs["dual_value"]] + [cons[st].attrs["dual_value"] for st in starts]
                if len(vals) != len(want) or any(v is not w for v, w in zip(vals, want)):
                    msg = "%s: the recovered list is %s; the Gram dual, then the dual of the first solver constraint of each tracked object's block, is %s" % (
                        label, [getattr(v, "attrs", {}).get("label", repr(v)) for v in vals], [w.attrs["label"] for w in want])
                    break
                if residual is not want[0]:
                    msg = "%s: the residual is not the dual of the Gram constraint" % label
                    break
            if msg:
                break
    except AnalysisError as e:
        msg = "not interpretable: %s" % e
    ctx.ob("R-SLOTS", "CvxpyWrapper._recover_dual_values::slots of every tracked object", msg is None,
           "for every sequence of tracked kinds (length <= 3, LMIs of size 1 and 2) the k-th multiplier is the dual of the first solver constraint that object k contributed"
           if msg is None else msg, loc(rec, rec))
    ctx.count("cvxpy recovery sequences unrolled", n)
    return n












# ---------------------------------------------------------------------------------------------------
# R-SENSE and R-CMP
# ---------------------------------------------------------------------------------------------------
def constraint_senses(repo):
    """The kinds the Constraint constructor accepts, found by unrolling it (sa/miniint.py, assertions evaluated) on the two documented kinds and on
    a few near misses ('Equality', '', '<=', 'eq', 'ineq'): -> (set of accepted kinds, constructor node)"""
    from ..miniint import IndexInterp, SymObj
    init = repo.method("Constraint", "__init__")
    ps = params_of(init)
    accepted = set()
    for kind in ("equality", "inequality", "Equality", "INEQUALITY", "", "<=", "eq", "ineq", "equality "):
        env = {ps[1]: SymObj("Expression", label="e"), ps[2]: kind, "Constraint.counter": 0, "Expression": ("type", "Expression"), "str": ("type", "str")}
        for p0 in ps[3:]:
            env[p0] = None
        it = IndexInterp(env, check_asserts=True)
        try:
            it.run(init.body)
            accepted.add(kind)
        except AnalysisError as e:
            if "raises" not in str(e):
                raise AnalysisError("Constraint.__init__ not interpretable: %s" % e)
    return accepted, init


def r_constraint_kinds(ctx, rule="R-OPTIONS"):
    """The kind of a Constraint is an option value like any other: only the two documented kinds are accepted by the constructor."""
    repo = ctx.repo
    senses, init = constraint_senses(repo)
    ok = senses == {"equality", "inequality"}
    ctx.ob(rule, "Constraint.__init__::accepted kinds", ok, "accepts exactly 'equality' and 'inequality'" if ok else
           "accepts %s: a constraint of an undocumented kind is created (and later treated as one of the two) instead of being rejected" % sorted(senses), loc(init, init))


def r_sense(ctx):
    repo = ctx.repo
    resolve_names(repo)
    senses, a = constraint_senses(repo)
    init = repo.method("Constraint", "__init__")
    ok = senses == {"equality", "inequality"}
    ctx.ob("R-SENSE", "Constraint.__init__::accepted senses", ok, "accepts exactly 'equality' and 'inequality'" if ok else
           "accepts %s: a constraint of another kind is created instead of being rejected" % sorted(senses), loc(init, a))
    stores = [s for s in flow.stmts_of(init, ast.Assign) if any(dotted(t) == "self.equality_or_inequality" for t in s.targets)]
    oks = len(stores) == 1 and dotted(stores[0].value) == params_of(init)[2] and \
        any(dotted(t) == "self.expression" and dotted(s.value) == params_of(init)[1] for s in flow.stmts_of(init, ast.Assign) for t in s.targets)
    ctx.ob("R-SENSE", "Constraint.__init__::stores expression and sense as given", oks,
           "stores its two arguments unchanged" if oks else "does not store the expression / sense arguments unchanged", loc(init, init))
    # cvxpy: for each sense the constraint handed to the solver is `translation(expression) <= 0` / `== 0`; any other sense raises
    from ..absint import PathEval, bool_decider, literal_test
    be = _be(repo, "cvxpy")
    fn = be.methods["send_constraint_to_solver"]
    ctx.unit(qualname(fn))
    cons = params_of(fn)[1]
    subject = cons + ".equality_or_inequality"

    def paths_for(f, value):
        dec = bool_decider(lambda t: literal_test(t, subject, value))
        ps = PathEval(f, dec, loop_mode="once").run()
        return [p for p in ps if not (p.kind == "raise" and p.exc == "AssertionError")]

    def origin(trace, name):
        val = None
        for ev in trace:
            if isinstance(ev, ast.Assign) and any(dotted(t) == name for t in ev.targets):
                val = ev.value
            elif isinstance(ev, ast.AugAssign) and dotted(ev.target) == name:
                val = ast.BinOp(left=val if val is not None else ev.target, op=ev.op, right=ev.value)
        return val

    # as a program: the send method unrolled for each sense and for another string (the structural clauses below decide when it is not interpretable)
    if _cvxpy_sense_program(ctx, be, fn, senses):
        r_expr_to_solver(ctx, be)
        from . import mosekprog
        mosekprog.r_mosek_rows(ctx, senses)
        return
    accepted = set()
    for lit, want in (("inequality", ast.LtE), ("equality", ast.Eq)):
        ps = paths_for(fn, lit)
        ok = bool(ps) and all(p.kind != "raise" for p in ps)
        what = "raises" if not ok else ""
        if ok:
            accepted.add(lit)
            for p in ps:
                apps = [ev.value for ev in p.trace if isinstance(ev, ast.Expr) and isinstance(ev.value, ast.Call) and call_name(ev.value) == "append"
                        and dotted(ev.value.func.value) == "self." + SOLVER_CONS]
                if len(apps) != 1:
                    ok, what = False, "%d solver constraints appended" % len(apps)
                    break
                a = apps[0].args[0]
                c = origin(p.trace, a.id) if isinstance(a, ast.Name) else a
                if not (isinstance(c, ast.Compare) and len(c.ops) == 1):
                    ok, what = False, "appends `%s`" % src(a)
                    break
                left = c.left
                if isinstance(left, ast.Name):
                    left = origin(p.trace, left.id)
                good = isinstance(c.ops[0], want) and is_const(c.comparators[0], 0) and isinstance(left, ast.Call) and call_name(left) == TRANSLATE \
                    and left.args and dotted(left.args[0]) == cons + ".expression"
                if not good:
                    # also accept  0 >= translation  /  0 == translation
                    l2, r2 = c.comparators[0], c.left
                    if isinstance(l2, ast.Name):
                        l2 = origin(p.trace, l2.id)
                    flipped = {ast.LtE: ast.GtE, ast.Eq: ast.Eq}[want]
                    good = isinstance(c.ops[0], flipped) and is_const(r2, 0) and isinstance(l2, ast.Call) and call_name(l2) == TRANSLATE \
                        and l2.args and dotted(l2.args[0]) == cons + ".expression"
                if not good:
                    ok, what = False, "becomes `%s`%s" % (src(c), " with `%s = %s` (not the translation of the expression as written)" % (src(c.left), src(left))
                                                          if isinstance(c.left, ast.Name) and left is not None else "")
                    break
        ctx.ob("R-SENSE", "CvxpyWrapper.send_constraint_to_solver::%s" % lit, ok,
               "'%s' becomes `translation(expression) %s 0`" % (lit, "<=" if want is ast.LtE else "==") if ok else "'%s' %s" % (lit, what), loc(fn, fn))
    other = paths_for(fn, "\0other")
    closed = bool(other) and all(p.kind == "raise" for p in other)
    ctx.ob("R-SENSE", "CvxpyWrapper.send_constraint_to_solver::literal set", closed and accepted == senses,
           "accepts exactly the senses Constraint accepts and raises on anything else" if closed and accepted == senses else
           "accepts %s (Constraint accepts %s); another sense %s" % (sorted(accepted), sorted(senses), "raises" if closed else "is silently accepted"), loc(fn, fn))
    # _expression_to_solver: cons + F @ Fweights + sum(G * Gweights)
    r_expr_to_solver(ctx, be)
    # MOSEK: bound key and bound of each sense, rejection of any other sense and the entry equalities of an LMI are decided on the unrolled row programs
    from . import mosekprog
    mosekprog.r_mosek_rows(ctx, senses)








def _cvxpy_sense_program(ctx, be, fn, senses):
    """-> True when the method was unrolled for every case (the obligations are then recorded)"""
    from ..miniint import IndexInterp, SymObj, is_token
    repo = ctx.repo
    prm = params_of(fn)
    cons = prm[1]
    results = []
    for lit in ("inequality", "equality", "\0other"):
        c = SymObj("Constraint", label="c", equality_or_inequality=lit, expression=("expr",))
        env = {"self." + TRACKED: [], "self." + SOLVER_CONS: [], "self.verbose": 0, cons: c, "Constraint": ("type", "Constraint")}
        for p0 in prm[2:]:
            env[p0] = True
        it = IndexInterp(env, on_call=lambda node, it0: ("tr", it0.ev(node.args[0])) if call_name(node) == TRANSLATE and len(node.args) == 1 else NotImplemented)
        it.home = (repo, fn._module, be.name)
        try:
            it.run(fn.body)
            results.append((lit, "ok", list(it.env.get("self." + SOLVER_CONS) or [])))
        except AnalysisError as ex:
            if "the index program raises" in str(ex):
                results.append((lit, "raises", str(ex)))
            else:
                ctx.notes.append("R-SENSE (cvxpy) program skipped: %s" % ex)
                return False
    accepted = set()
    for lit, kind, val in results:
        if lit == "\0other":
            continue
        want = "LtE" if lit == "inequality" else "Eq"
        msg = None
        if kind == "raises":
            msg = "'%s' raises" % lit
        else:
            accepted.add(lit)
            flipped = {"LtE": "GtE", "Eq": "Eq"}[want]
            tr = ("tr", ("expr",))
            if len(val) != 1:
                msg = "'%s': %d solver constraints appended" % (lit, len(val))
            elif not (val[0] == ("cmp", want, tr, 0) or val[0] == ("cmp", flipped, 0, tr)):
                msg = "'%s' becomes `%r`, expected `translation(expression) %s 0`" % (lit, val[0], "<=" if want == "LtE" else "==")
        ctx.ob("R-SENSE", "CvxpyWrapper.send_constraint_to_solver::%s" % lit, msg is None,
               "'%s' becomes `translation(expression) %s 0`" % (lit, "<=" if want == "LtE" else "==") if msg is None else msg, loc(fn, fn))
    closed = [k for l, k, v in results if l == "\0other"] == ["raises"]
    ctx.ob("R-SENSE", "CvxpyWrapper.send_constraint_to_solver::literal set", closed and accepted == senses,
           "accepts exactly the senses Constraint accepts and raises on anything else" if closed and accepted == senses else
           "accepts %s (Constraint accepts %s); another sense %s" % (sorted(accepted), sorted(senses), "raises" if closed else "is silently accepted"), loc(fn, fn))
    return True


def r_expr_to_solver(ctx, be):
    fn = be.methods.get(TRANSLATE)
    if fn is None:
        raise AnalysisError("CvxpyWrapper: method translating an expression for the solver not found")
    ctx.unit(qualname(fn))
    un = None
    for s in flow.stmts_of(fn, ast.Assign):
        if isinstance(s.value, ast.Call) and call_name(s.value) == "expression_to_matrices" and isinstance(s.targets[0], ast.Tuple) and len(s.targets[0].elts) == 3:
            un = [e.id for e in s.targets[0].elts]
    ret = [r for r in ast.walk(fn) if isinstance(r, ast.Return)]
    ok = False
    msg = "translation result not resolved"
    if un and len(ret) == 1:
        expr = ret[0].value
        if isinstance(expr, ast.Name):
            d = [s for s in flow.stmts_of(fn, ast.Assign) if any(isinstance(t, ast.Name) and t.id == expr.id for t in s.targets)]
            expr = d[0].value if len(d) == 1 else expr
        terms = _sum_terms(expr)
        kinds = sorted(_term_kind(t, un) for t in terms)
        ok = kinds == ["F", "G", "const"]
        msg = "affine form = constant + F . Fweights + <G, Gweights>" if ok else "affine form has terms %s (expected constant, F-term, G-term, each added once)" % kinds
    ctx.ob("R-SENSE", "CvxpyWrapper.<translate expression>::affine form", ok, msg, loc(fn, fn))


def _sum_terms(e):
    if isinstance(e, ast.BinOp) and isinstance(e.op, ast.Add):
        return _sum_terms(e.left) + _sum_terms(e.right)
    if isinstance(e, ast.BinOp) and isinstance(e.op, ast.Sub):
        return _sum_terms(e.left) + [ast.UnaryOp(op=ast.USub(), operand=e.right)]
    return [e]


def _term_kind(t, un):
    g, f, c = un
    if isinstance(t, ast.Name) and t.id == c:
        return "const"
    if isinstance(t, ast.BinOp) and isinstance(t.op, ast.MatMult):
        pair = {dotted(t.left), dotted(t.right)}
        if pair == {"self.F", f}:
            return "F"
    if isinstance(t, ast.Call) and call_name(t) == "sum" and t.args and isinstance(t.args[0], ast.Call) and call_name(t.args[0]) == "multiply":
        pair = {dotted(a) for a in t.args[0].args}
        if pair == {"self.G", g}:
            return "G"
    if isinstance(t, ast.Call) and call_name(t) == "trace":
        return "G?"
    return "?" + src(t)[:30]


class _CmpEval(Evaluator):
    """Normal form of what a comparison dunder of Expression returns (self -> a, other -> b)."""

    def __init__(self, cls, env, depth=0):
        super().__init__(env)
        self.cls = cls
        self.depth = depth

    def name(self, node):
        raise AnalysisError("unbound name %s" % node.id)

    def call(self, node):
        nm = call_name(node)
        if nm == "Constraint":
            e = self.ev(get_arg(node, 0, "expression"))
            s = get_arg(node, 1, "equality_or_inequality")
            if isinstance(s, ast.Constant) and s.value in ("inequality", "equality") and isinstance(e, ExprV):
                return ConsV(e, "<=" if s.value == "inequality" else "==")
            raise AnalysisError("Constraint(...) with sense %s" % src(s))
        if isinstance(node.func, ast.Attribute) and dotted(node.func.value) == "self" and nm.startswith("__") and self.depth < 4:
            m = self.cls.find_method(nm)
            if m is not None:
                arg = self.ev(node.args[0] if node.args else node.keywords[0].value)
                return eval_dunder(self.cls, m, self.env["self"], arg, self.depth + 1)
        if nm == "warn":
            return Opaque("none")
        raise AnalysisError("call %s in a comparison operator" % src(node))


def eval_dunder(cls, fn, a, b, depth=0):
    ps = params_of(fn)
    env = {"self": a}
    if len(ps) > 1:
        env[ps[1]] = b
    ev = _CmpEval(cls, env, depth)
    for s in fn.body:
        if isinstance(s, ast.Return):
            return ev.ev(s.value)
        if isinstance(s, ast.Expr):
            continue
        if isinstance(s, ast.Assign) and isinstance(s.targets[0], ast.Name):
            ev.env[s.targets[0].id] = ev.ev(s.value)
            continue
        raise AnalysisError("%s.%s: statement %s outside the analysed fragment" % (cls.name, fn.name, norm_stmt(s)))
    raise AnalysisError("%s.%s returns nothing" % (cls.name, fn.name))


def r_cmp(ctx):
    cls = ctx.repo.cls("Expression")
    a, b = ExprV.atom("a"), ExprV.atom("b")
    table = {"__le__": ConsV(a - b, "<="), "__lt__": ConsV(a - b, "<="), "__ge__": ConsV(b - a, "<="), "__gt__": ConsV(b - a, "<="),
             "__eq__": ConsV(a - b, "==")}
    for name, want in table.items():
        fn = cls.methods.get(name)
        if fn is None:
            ctx.ob("R-CMP", "Expression.%s" % name, False, "comparison operator not defined", cls.module.rel)
            continue
        ctx.unit("Expression.%s" % name)
        try:
            got = eval_dunder(cls, fn, a, b)
            ok = isinstance(got, ConsV) and got.sense == want.sense and got.e.equals(want.e)
            msg = "a %s b yields `%s`" % (name, got) if ok else "a %s b yields `%s`, expected `%s` (left minus right, sense as written)" % (name, got, want)
        except AnalysisError as e:
            ok, msg = False, "not interpretable: %s" % e
        ctx.ob("R-CMP", "Expression.%s" % name, ok, msg, loc(fn, fn))


# ---------------------------------------------------------------------------------------------------
# R-SIGN
# ---------------------------------------------------------------------------------------------------
def r_sign(ctx):
    """Sign convention of the certificate, end to end: the reconstruction (objective + <R, G> + sum <D, M> - sum l e, every tracked entry once,
    each multiplier with its own object, constant term returned) is decided on the unrolled program (rules/feasprog.py); the MOSEK back-end
    delivers multipliers in the same convention as cvxpy (minus the bar-duals, y unchanged) on the unrolled recovery program (rules/mosekprog.py)."""
    from . import feasprog, mosekprog
    feasprog.r_sign_program(ctx)
    mosekprog.r_mosek_duals(ctx)




# ---------------------------------------------------------------------------------------------------
# R-IFACE
# ---------------------------------------------------------------------------------------------------
def r_iface(ctx):
    repo = ctx.repo
    base = common.wrapper_base(repo)
    root = common.solve_root(repo)
    wname = common.wrapper_param(root)
    pep = common.pep_class(repo)
    called = {}
    for f in pep.methods.values():
        # names bound to a wrapper instance: the wrapper parameter of the solve root, self.wrapper, locals built from WRAPPERS[...](...)
        built = {}
        for s in flow.stmts_of(f, ast.Assign):
            if isinstance(s.value, ast.Call) and isinstance(s.value.func, ast.Subscript) and dotted(s.value.func.value) == "WRAPPERS":
                for t in s.targets:
                    if isinstance(t, ast.Name):
                        built[t.id] = min(built.get(t.id, s.lineno), s.lineno)
        for c in ast.walk(f):
            if isinstance(c, ast.Call) and isinstance(c.func, ast.Attribute):
                d = dotted(c.func.value)
                if (f is root and d == wname) or d == "self.wrapper" or (d in built and c.lineno > built[d]):
                    called.setdefault(c.func.attr, []).append((f, c))
    for f in base.methods.values():
        for c in ast.walk(f):
            if isinstance(c, ast.Call) and isinstance(c.func, ast.Attribute) and dotted(c.func.value) == "self":
                called.setdefault(c.func.attr, []).append((f, c))
    abstract = {n for n, f in base.methods.items() if any(isinstance(r, ast.Raise) and "NotImplementedError" in src(r) for r in f.body)}
    bes = common.backends(repo)
    for be in bes:
        for meth, sites in sorted(called.items()):
            d = be.find_method(meth)
            ok = d is not None and not (meth in abstract and d is base.methods.get(meth))
            msg = "defined"
            if ok:
                for f, c in sites:
                    npos = len(c.args) + len([k for k in c.keywords if k.arg])
                    ps = params_of(d)[1:]
                    req = len(ps) - len(d.args.defaults)
                    if not (req <= npos <= len(ps) or d.args.kwarg or d.args.vararg or any(k.arg is None for k in c.keywords)):
                        ok, msg = False, "called with %d argument(s) at %s:%d, takes %d..%d" % (npos, f._module.rel, c.lineno, req, len(ps))
            else:
                msg = "called on a wrapper (e.g. %s:%d) but not implemented by this back-end" % (sites[0][0]._module.rel, sites[0][1].lineno)
            ctx.ob("R-IFACE", "%s.%s" % (be.name, meth), ok, msg, be.module.rel)
        over = {n for n in be.methods if n in abstract}
        missing = abstract - over
        ctx.ob("R-IFACE", "%s::implements the abstract interface" % be.name, not missing,
               "overrides all %d abstract methods" % len(abstract) if not missing else "does not override %s" % sorted(missing), be.module.rel)
        # attributes read are initialised
        inits = set()
        for c in be.mro():
            ini = c.methods.get("__init__")
            if ini:
                for s in flow.stmts_of(ini, ast.Assign):
                    for t in s.targets:
                        if isinstance(t, ast.Attribute) and dotted(t.value) == "self":
                            inits.add(t.attr)
        methods = set()
        for c in be.mro():
            methods |= set(c.methods)
        undefined = set()
        for f in be.methods.values():
            for n in ast.walk(f):
                if isinstance(n, ast.Attribute) and dotted(n.value) == "self" and isinstance(n.ctx, ast.Load) and n.attr not in inits and n.attr not in methods:
                    undefined.add(n.attr)
        ctx.ob("R-IFACE", "%s::attributes initialised" % be.name, not undefined,
               "every self attribute read is initialised by a constructor" if not undefined else "reads uninitialised attribute(s) %s" % sorted(undefined), be.module.rel)
    # siblings agree on which attributes of the base class each method of the interface (re)writes: a back-end that refreshes, say, the stored
    # multipliers in `solve` while its sibling does not makes what the problem object reads back depend on the back-end
    base_attrs = set()
    ini = base.methods.get("__init__")
    if ini:
        for s in flow.stmts_of(ini, ast.Assign):
            for t in s.targets:
                if isinstance(t, ast.Attribute) and dotted(t.value) == "self":
                    base_attrs.add(t.attr)

    # ... restricted to the result slots: attributes that the concrete methods of the base class themselves read or write (the accessors through
    # which the problem object gets solutions and multipliers); back-end-specific handles initialised by the base constructor are not compared
    shared = set()
    for nm0, f0 in base.methods.items():
        if nm0 == "__init__" or nm0 in abstract:
            continue
        for n0 in ast.walk(f0):
            if isinstance(n0, ast.Attribute) and dotted(n0.value) == "self" and n0.attr in base_attrs:
                shared.add(n0.attr)
    base_attrs &= shared

    def written(f):
        out = set()
        for s in flow.stmts_of(f):
            tg = s.targets if isinstance(s, ast.Assign) else ([s.target] if isinstance(s, (ast.AugAssign, ast.AnnAssign)) else [])
            for t in tg:
                for t1 in (t.elts if isinstance(t, (ast.Tuple, ast.List)) else [t]):
                    if isinstance(t1, ast.Attribute) and dotted(t1.value) == "self" and t1.attr in base_attrs:
                        out.add(t1.attr)
        return out
    if len(bes) == 2:
        for meth in sorted(set(bes[0].methods) & set(bes[1].methods)):
            if meth == "__init__":
                continue
            w0, w1 = written(bes[0].methods[meth]), written(bes[1].methods[meth])
            ctx.ob("R-IFACE", "%s / %s::%s writes the same base-class attributes" % (bes[0].name, bes[1].name, meth), w0 == w1,
                   "both write %s" % (sorted(w0) or "none") if w0 == w1 else
                   "%s.%s writes %s, %s.%s writes %s: what the problem object reads back from the wrapper (e.g. the multipliers captured after the first "
                   "solve) depends on the back-end" % (bes[0].name, meth, sorted(w0), bes[1].name, meth, sorted(w1)), bes[1].module.rel)
    ctx.count("wrapper interface methods", len(called))


# ---------------------------------------------------------------------------------------------------
# MOSEK index provenance: R-ROWIDX, R-BARIDX, R-OBJSLOT
# ---------------------------------------------------------------------------------------------------
def r_rowidx(ctx):
    mb = _be(ctx.repo, "mosek")
    fn = mb.methods["send_constraint_to_solver"]
    ctx.unit(qualname(fn))
    # the row programs (R-MOSEKPROG: one new row, addressed consistently, its index recorded iff tracked) and the recovery programs (R-MOSEKDUAL:
    # multiplier k read at the recorded row of tracked constraint k) decide these clauses when the methods are within the interpreted fragment
    from . import mosekprog
    mosekprog.r_mosek_rows(ctx)
    try:
        mosekprog.r_mosek_duals(ctx)
        duals_ok = True
    except AnalysisError:
        duals_ok = False
    progs = [o for o in ctx.obligations if o.rule in ("R-MOSEKPROG", "R-MOSEKDUAL")]
    by_program = duals_ok and bool(progs) and not any("not interpretable" in (o.msg or "") for o in progs)
    if by_program:
        ctx.notes.append("R-ROWIDX: row bookkeeping decided by the unrolled task programs (R-MOSEKPROG, R-MOSEKDUAL)")
        _rowidx_width(ctx, mb)
        return
    row_def = [s for s in flow.stmts_of(fn, ast.Assign) if isinstance(s.value, ast.Call) and call_name(s.value) == "getnumcon"]
    # the row-index list is the self attribute (other than the tracked list) to which the row number is appended
    rowvar = row_def[0].targets[0].id if len(row_def) == 1 and isinstance(row_def[0].targets[0], ast.Name) else None
    idx_app = [n for n in ast.walk(fn) if isinstance(n, ast.Call) and call_name(n) == "append" and (dotted(n.func.value) or "").startswith("self.")
               and n.args and dotted(n.args[0]) == rowvar and rowvar is not None]
    ROWS = dotted(idx_app[0].func.value) if idx_app else "self._constraint_index_in_mosek"
    appendcons = [common.stmt_of(n) for n in ast.walk(fn) if isinstance(n, ast.Call) and call_name(n) == "appendcons"]
    ok = len(idx_app) == 1 and len(row_def) == 1 and len(appendcons) == 1 and row_def[0].lineno < appendcons[0].lineno \
        and dotted(idx_app[0].args[0]) == row_def[0].targets[0].id
    if ok:
        conds = flow.conditions_guarding(common.stmt_of(idx_app[0]))
        ok = len(conds) == 1 and isinstance(conds[0][0], ast.Name) and conds[0][0].id == "track" and conds[0][1]
    ctx.ob("R-ROWIDX", "MosekWrapper.send_constraint_to_solver::row index recorded", ok,
           "the row index is read before the row is appended and recorded exactly when the constraint is tracked" if ok else
           "row-index bookkeeping is not (read count, append row, record index iff tracked)", loc(fn, fn))
    # every row-addressed call uses that row index
    if row_def:
        row = row_def[0].targets[0].id
        bad = []
        for n in ast.walk(fn):
            if isinstance(n, ast.Call) and call_name(n) in ("putbaraij", "putconbound") and n.args and dotted(n.args[0]) != row:
                bad.append(src(n)[:50])
        ctx.ob("R-ROWIDX", "MosekWrapper.send_constraint_to_solver::row addressed", not bad,
               "coefficients and bounds address the new row" if not bad else "calls address another row: %s" % bad, loc(fn, fn))
    _rowidx_width(ctx, mb)
    _rowidx_reads(ctx, mb, ROWS)


def _rowidx_width(ctx, mb):
    # row indices handed to the task are not squeezed through a narrow integer type
    for f2 in mb.methods.values():
        for c in ast.walk(f2):
            if isinstance(c, ast.Call) and call_name(c) == "putaijlist" and c.args:
                narrow = [k for n in ast.walk(c.args[0]) if isinstance(n, ast.Call) for k in n.keywords
                          if k.arg == "dtype" and (dotted(k.value) or "").split(".")[-1] in ("int8", "uint8", "int16", "uint16")]
                ctx.ob("R-ROWIDX", "MosekWrapper.%s::putaijlist row indices" % f2.name, not narrow,
                       "row indices keep the width of the task's constraint count" if not narrow else
                       "the row-index array is built as `%s`: with numpy >= 2 adding the row number to an %s array raises OverflowError (or wraps) as soon as "
                       "the task has more rows than that type holds (128 rows for int8)" % (src(c.args[0]), (dotted(narrow[0].value) or "").split(".")[-1]), loc(f2, c))


def _rowidx_reads(ctx, mb, ROWS):
    rec = mb.methods["_recover_dual_values"]
    reads = [n for n in ast.walk(rec) if isinstance(n, ast.Subscript) and dotted(n.value) == ROWS]
    okr = len(reads) == 1
    if okr:
        # y[index_k] with k a counter incremented once per scalar constraint
        k = reads[0].slice
        okr = isinstance(k, ast.Name) and len([s for s in flow.stmts_of(rec, ast.AugAssign) if isinstance(s.target, ast.Name) and s.target.id == k.id and is_const(s.value, 1)]) == 1 \
            and any(isinstance(s, ast.Assign) and any(isinstance(t, ast.Name) and t.id == k.id for t in s.targets) and is_const(s.value, 0) for s in rec.body)
    from . import mosekprog
    prog = ("none",)
    try:
        mosekprog.r_mosek_duals(ctx)
        prog = ("mosekdual",)
    except AnalysisError:
        pass
    ctx.ob_or_program(prog, "R-ROWIDX", "MosekWrapper._recover_dual_values::y at the recorded row", okr,
           "the k-th tracked scalar constraint reads y at its recorded row" if okr else "scalar multipliers are not read at the recorded rows in order", loc(rec, rec))


COUNTER_SOURCES = ("counter",)


def r_baridx(ctx):
    """Every bar-variable index handed to the task is 0 (Gram) or derives from wrapper-local send-order state."""
    mb = _be(ctx.repo, "mosek")
    n = 0
    for fn in mb.methods.values():
        for c in ast.walk(fn):
            if isinstance(c, ast.Call) and call_name(c) in ("putbaraij", "getbarsj", "getbarxj", "putbarcj"):
                pos = {"putbaraij": 1, "getbarsj": 1, "getbarxj": 1, "putbarcj": 0}[call_name(c)]
                if len(c.args) <= pos:
                    continue
                a = c.args[pos]
                if isinstance(a, ast.Name):
                    # a local bound once to an index expression is judged (and keyed) as that expression
                    ds = [s0 for s0 in flow.stmts_of(fn, ast.Assign) if dotted(s0.targets[0]) == a.id]
                    augs = [s0 for s0 in flow.stmts_of(fn, ast.AugAssign) if dotted(s0.target) == a.id]
                    if len(ds) == 1 and not augs and not isinstance(ds[0].value, ast.Constant):
                        a = ds[0].value
                n += 1
                ok, why = _bar_index_ok(fn, a)
                prog = ("none",)
                if fn.name == "_recover_dual_values" or (getattr(fn, "_parent_fn", None) is not None):
                    from . import mosekprog
                    try:
                        mosekprog.r_mosek_duals(ctx)
                        prog = ("mosekdual",)
                    except AnalysisError:
                        pass
                ctx.ob_or_program(prog, "R-BARIDX", "MosekWrapper.%s::%s(%s)" % (fn.name, call_name(c), anon_src(a)), ok, why, loc(fn, c))
    ctx.count("bar-variable index sites", n)
    return n


def r_lmiorder(ctx):
    """While the MOSEK back-end couples an LMI to the matrix variable numbered by the LMI's *creation* counter (finding F8), the two back-ends
    formulate the same program only if LMIs reach the wrapper in creation order.  The solve root cannot know in which order the user declared
    things, but it does know that class LMIs are created during the solve, after everything the user declared: every source of declared LMIs
    that the unrolled solve root sends *after* the class LMIs is a pair whose matrix variables are exchanged."""
    from . import solveprog
    mb = _be(ctx.repo, "mosek")
    by_creation = False
    for fn in mb.methods.values():
        for c in ast.walk(fn):
            if isinstance(c, ast.Call) and call_name(c) == "putbaraij" and len(c.args) > 1 and not _bar_index_ok(fn, c.args[1])[0]:
                by_creation = True
    root = common.solve_root(ctx.repo)
    if not by_creation:
        ctx.ob("R-LMIORDER", "PEP.%s::order of the LMIs" % root.name, True, "matrix variables are addressed in send order: no order is imposed on the solve root", loc(root, root))
        return 0
    n = solveprog.r_solve_program(ctx, set())
    if n == 0:
        ctx.notes.append("R-LMIORDER: solve root not unrolled; the order in which LMIs are sent is not decided")
        return 0
    inv = sorted(getattr(ctx, "_lmi_inversions", set()))
    for a0, b0 in inv:
        ctx.ob("R-LMIORDER", "PEP.%s::%s are sent before %s" % (root.name, a0, b0), False,
               "%s are created during the solve, %s before it, yet the former reach the wrapper first: the MOSEK back-end, which numbers matrix variables by "
               "creation counter, couples each of these LMIs (and reads its multiplier) with the matrix variable of another one; the cvxpy back-end does not" % (a0, b0),
               loc(root, root))
    if not inv:
        ctx.ob("R-LMIORDER", "PEP.%s::order of the LMIs" % root.name, True, "no LMI generated during the solve is sent before a declared one", loc(root, root))
    return len(inv)


def _bar_index_ok(fn, a, depth=0):
    if is_const(a, 0):
        return True, "the Gram matrix variable (index 0)"
    names = [x for x in ast.walk(a) if isinstance(x, ast.Attribute)]
    for x in names:
        if x.attr == "counter" and dotted(x.value) != "self":
            return False, ("bar-variable index `%s` comes from the creation counter of a DSL object, but bar-variables are appended (and their "
                           "duals read) in send order: an LMI created before another one that is sent first is coupled to the wrong / a missing matrix variable" % src(a))
    if isinstance(a, ast.Name) and depth < 3:
        defs = [s for s in flow.stmts_of(fn) if (isinstance(s, ast.Assign) and any(isinstance(t, ast.Name) and t.id == a.id for t in s.targets))]
        augs = [s for s in flow.stmts_of(fn, ast.AugAssign) if isinstance(s.target, ast.Name) and s.target.id == a.id]
        if defs and all(is_const(d.value) or _bar_index_ok(fn, d.value, depth + 1)[0] for d in defs) and all(is_const(s.value, 1) for s in augs):
            return True, "a wrapper-local counter advanced in send order"
        return False, "index `%s` not derived from send order" % a.id
    if all(dotted(x.value) == "self" or dotted(x) == "self" for x in names) and names:
        return True, "wrapper-local state"
    if isinstance(a, ast.BinOp):
        l, r = _bar_index_ok(fn, a.left, depth + 1), _bar_index_ok(fn, a.right, depth + 1)
        if (l[0] or is_const(a.left)) and (r[0] or is_const(a.right)):
            return True, "wrapper-local arithmetic"
        return (l if not l[0] else r)
    return False, "index `%s` not derived from send order" % src(a)


def r_objslot(ctx):
    """The objective variable is addressed through the objective's own index, never by position arithmetic on the class counter."""
    repo = ctx.repo
    mb = _be(repo, "mosek")
    # belief: leaf expressions can be created after the objective leaf, before the variables are sized
    root = common.solve_root(repo)
    obj_def = [s for s in flow.stmts_of(root, ast.Assign) if any(dotted(t) == "self.objective" for t in s.targets)]
    later_leaf = []
    if obj_def:
        for c in ast.walk(root):
            if isinstance(c, ast.Call) and call_name(c) in ("set_class_constraints", "add_partition_constraints") and c.lineno > obj_def[0].lineno:
                targets, note = effects.resolve_call(repo, root, c)
                fns, _, _ = effects.closure(repo, targets)
                for f in fns:
                    for cc in ast.walk(f):
                        if isinstance(cc, ast.Call) and call_name(cc) == "Expression":
                            a = get_arg(cc, 0, "is_leaf")
                            if a is None or (isinstance(a, ast.Constant) and a.value is True):
                                later_leaf.append("%s:%d" % (qualname(f), cc.lineno))
    ctx.count("leaf-expression constructors reachable after the objective leaf", len(later_leaf))
    n = 0
    for fn in mb.methods.values():
        for node in ast.walk(fn):
            bad = None
            if isinstance(node, ast.Subscript) and isinstance(node.slice, ast.UnaryOp) and isinstance(node.slice.op, ast.USub) and is_const(node.slice.operand) \
                    and isinstance(node.value, ast.Name) and any(isinstance(d.value, ast.Call) and call_name(d.value) == "getxx"
                                                                 for d in flow.stmts_of(fn, ast.Assign) if dotted(d.targets[0]) == node.value.id):
                bad = "the objective value is read as `%s` (a position from the end of the variable vector)" % src(node)
            if isinstance(node, ast.Call) and call_name(node) == "putclist" and node.args and isinstance(node.args[0], ast.List):
                for e in node.args[0].elts:
                    if "Expression.counter" in src(e):
                        bad = "the objective coefficient is addressed as `%s` (position arithmetic on the class counter)" % src(e)
            if bad:
                n += 1
                what = ("getxx()[%s]" % src(node.slice)) if isinstance(node, ast.Subscript) else "putclist(%s)" % src(node.args[0])
                ctx.ob("R-OBJSLOT", "MosekWrapper.%s::%s" % (fn.name, what), not later_leaf,
                       "no leaf expression can be created after the objective leaf" if not later_leaf else
                       bad + ", but leaf expressions are created after the objective leaf (%s): the slot is then another variable" % ", ".join(sorted(set(later_leaf))[:3]),
                       loc(fn, node))
    ctx.count("objective-slot sites", n)
    return n


# ---------------------------------------------------------------------------------------------------
# R-HEUR and LMI encoding
# ---------------------------------------------------------------------------------------------------
def r_heur(ctx):
    repo = ctx.repo
    resolve_names(repo)
    for be in common.backends(repo):
        fn = be.methods.get("prepare_heuristic")
        if fn is None:
            raise AnalysisError("%s.prepare_heuristic missing" % be.name)
        ctx.unit(qualname(fn))
        ps = params_of(fn)
        wc, tol = ps[1], ps[2]
        cmps = [n for n in ast.walk(fn) if isinstance(n, ast.Compare)]
        ok = False
        msg = "no comparison `objective >= optimum - tolerance` found"
        for c in cmps:
            l, op, r = c.left, c.ops[0], c.comparators[0]
            if isinstance(op, (ast.LtE, ast.Lt)):
                l, r = r, l
                op = ast.GtE()
            if isinstance(op, (ast.GtE, ast.Gt)) and dotted(l) == "self.objective":
                good = isinstance(r, ast.BinOp) and isinstance(r.op, ast.Sub) and dotted(r.left) == wc and dotted(r.right) == tol
                ok = good
                msg = "adds `objective >= optimum - tolerance`" if good else "adds `%s`: the bound on the objective is not `optimum - tolerance`" % src(c)
            elif dotted(l) == "self.objective" or dotted(r) == "self.objective":
                msg = "adds `%s`: wrong orientation for keeping the optimal value" % src(c)
        ctx.ob("R-HEUR", "%s.prepare_heuristic::objective >= optimum - tol" % be.name, ok, msg, loc(fn, fn))
        # the extra constraint is not tracked
        if "cvxpy" in be.name.lower():
            tr = [n for n in ast.walk(fn) if isinstance(n, ast.Call) and call_name(n) == "append" and dotted(n.func.value) == "self." + TRACKED]
            sc = [n for n in ast.walk(fn) if isinstance(n, ast.Call) and call_name(n) == "append" and dotted(n.func.value) == "self." + SOLVER_CONS]
            oku = not tr and len(sc) == 1
        else:
            sends = [n for n in ast.walk(fn) if isinstance(n, ast.Call) and call_name(n) == "send_constraint_to_solver"]
            oku = len(sends) == 1 and any(k.arg == "track" and is_const(k.value, False) for k in sends[0].keywords)
        ctx.ob("R-HEUR", "%s.prepare_heuristic::untracked" % be.name, oku,
               "the extra constraint is added to the solver but not to the tracked list" if oku else "the extra constraint is tracked (or not added exactly once)", loc(fn, fn))
        h = be.methods.get("heuristic")
        ctx.unit(qualname(h))
        if "cvxpy" in be.name.lower():
            mn = [n for n in ast.walk(h) if isinstance(n, ast.Call) and call_name(n) == "Minimize"]
            mx = [n for n in ast.walk(h) if isinstance(n, ast.Call) and call_name(n) == "Maximize"]
            okm = len(mn) == 1 and not mx
            probs = [c for c in ast.walk(h) if isinstance(c, ast.Call) and call_name(c) == "Problem"]
            okm = okm and len(probs) == 1 and dotted(get_arg(probs[0], 1, "constraints")) == "self." + SOLVER_CONS
            stores = [s for s in flow.stmts_of(h, ast.Assign) if any(dotted(t) == "self.prob" for t in s.targets)]
            okm = okm and len(stores) == 1
            # self.objective must keep denoting the original objective expression
            rew = [s for s in flow.stmts_of(h, ast.Assign) if any(dotted(t) == "self.objective" for t in s.targets)]
            okm = okm and not rew
        else:
            senses = [dotted(c.args[0]) for f in (fn, h) for c in ast.walk(f) if isinstance(c, ast.Call) and call_name(c) == "putobjsense" and c.args]
            okm = bool(senses) and all(s == "mosek.objsense.minimize" for s in senses)
            zero = [c for c in ast.walk(fn) if isinstance(c, ast.Call) and call_name(c) == "putclist" and len(c.args) == 2 and isinstance(c.args[1], ast.List)
                    and all(is_const(e) and e.value == 0 for e in c.args[1].elts)]
            okm = okm and len(zero) == 1
            barc = [c for c in ast.walk(h) if isinstance(c, ast.Call) and call_name(c) == "putbarcj" and is_const(c.args[0], 0)]
            okm = okm and len(barc) == 1
        ctx.ob("R-HEUR", "%s.heuristic::minimise <W, Gram> over the same constraints" % be.name, okm,
               "the heuristic minimises a linear function of the Gram matrix over the stored constraints" if okm else
               "the heuristic problem is not `minimise <W, G>` over the stored constraint list with the original objective kept", loc(h, h))


def r_lmienc(ctx):
    """cvxpy: M symmetric of the LMI's shape, M >> 0, M[i,j] == translation(entry (i,j)) for all i, j.
    MOSEK: one equality row per entry coupling the Gram part with -1 (diagonal) / -1/2 (off-diagonal) of the matrix variable."""
    repo = ctx.repo
    resolve_names(repo)
    be = _be(repo, "cvxpy")
    fn = be.methods["send_lmi_constraint_to_solver"]
    psd = params_of(fn)[-1]
    cnt = params_of(fn)[1] if len(params_of(fn)) > 2 else None
    # cvxpy: the method unrolled for 1x1 .. 3x3 LMIs: the LMI is tracked once; the solver receives, in this order, one `M >> 0` on a symmetric
    # variable of the LMI's shape and one equality M[i, j] == translation(entry (i, j)) per entry (the recovery skips exactly these n * n slots)
    from ..miniint import IndexInterp, is_token
    okv = oke = True
    msgv = "a symmetric variable of the LMI's shape, constrained to be PSD, first of the block"
    msge = "M[i, j] == translation(entry (i, j)) for every (i, j) of the matrix"
    for size in (1, 2, 3):
        env = {psd + ".shape": (size, size), "self." + TRACKED: [], "self." + SOLVER_CONS: [], "self.verbose": 0}
        if cnt:
            env[cnt] = 0

        def on_call(node, it):
            if call_name(node) == TRANSLATE and len(node.args) == 1:
                return ("tr", it.ev(node.args[0]))
            if call_name(node) == "isinstance":
                return True
            return NotImplemented
        it = IndexInterp(env, symbolic={psd}, on_call=on_call)
        try:
            it.run(fn.body)
        except AnalysisError as e:
            okv = oke = False
            msgv = msge = "send_lmi_constraint_to_solver not interpretable for a %dx%d LMI: %s" % (size, size, e)
            break
        tracked = it.env.get("self." + TRACKED)
        sc = it.env.get("self." + SOLVER_CONS)
        if not (isinstance(tracked, list) and tracked == [("array", psd)]):
            okv, msgv = False, "the LMI is recorded %s in the tracked list" % ("%d times" % len(tracked) if isinstance(tracked, list) else "not")
            break
        if not (isinstance(sc, list) and len(sc) == 1 + size * size):
            oke, msge = False, "a %dx%d LMI adds %s solver constraints, expected 1 + %d (the recovery skips that many slots)" % (
                size, size, len(sc) if isinstance(sc, list) else "?", size * size)
            break
        first = sc[0]
        var = None
        if is_token(first) and first[0] == "op" and first[1] == "RShift" and first[3] == 0:
            var = first[2]
        okvar = is_token(var) and var[0] == "call" and var[1].split(".")[-1] == "Variable" and var[2] and tuple(var[2][0]) == (size, size) \
            and dict(var[3]).get("symmetric") is True
        if not okvar:
            okv, msgv = False, "the first solver constraint of the block is `%r`, expected `M >> 0` with M = Variable(shape of the LMI, symmetric=True)" % (first,)
            break
        got = []
        for c in sc[1:]:
            ok1 = is_token(c) and c[0] == "cmp" and c[1] == "Eq"
            if ok1:
                l, r = c[2], c[3]
                if is_token(r) and r[0] == "read" and r[1] == var:
                    l, r = r, l
                ok1 = is_token(l) and l[0] == "read" and l[1] == var and is_token(r) and r[0] == "tr" and r[1] == ("read", psd, l[2])
            if not ok1:
                oke, msge = False, "a solver constraint of the block is `%r`, expected M[i, j] == translation(LMI[i, j])" % (c,)
                break
            got.append(l[2])
        if not oke:
            break
        import itertools as _it2
        if sorted(got) != sorted(_it2.product(range(size), repeat=2)):
            oke, msge = False, "entry equalities are emitted for %s, expected every (i, j) of the %dx%d matrix once" % (sorted(got), size, size)
            break
    ctx.ob("R-LMIENC", "CvxpyWrapper.send_lmi_constraint_to_solver::matrix variable", okv, msgv, loc(fn, fn))
    ctx.ob("R-LMIENC", "CvxpyWrapper.send_lmi_constraint_to_solver::entry equalities", oke, msge, loc(fn, fn))
    # MOSEK: rows, coupling coefficient and matrix variable of an LMI are decided by unrolling the task program (rules/mosekprog.py)
    from . import mosekprog
    mosekprog.r_mosek_rows(ctx)
    mb = _be(repo, "mosek")
    fn = mb.methods["send_lmi_constraint_to_solver"]
    av = [n for n in ast.walk(fn) if isinstance(n, ast.Call) and call_name(n) == "appendbarvars"]
    okb = len(av) == 1 and not flow.in_loop(common.stmt_of(av[0]))
    ctx.ob("R-LMIENC", "MosekWrapper.send_lmi_constraint_to_solver::one matrix variable per LMI", okb,
           "one bar-variable is appended per LMI" if okb else "bar-variables appended %d times / in a loop" % len(av), loc(fn, fn))




# ---------------------------------------------------------------------------------------------------
# R-MAINVARS, R-SOLVEVALS, R-TRILORDER, R-PSDSTORE
# ---------------------------------------------------------------------------------------------------
def r_mainvars(ctx):
    """Main variables are sized by the leaf counters; the solution is read back from the same variables."""
    repo = ctx.repo
    be = _be(repo, "cvxpy")
    fn = be.methods["set_main_variables"]
    ctx.unit(qualname(fn))
    shapes = {}
    for s in flow.stmts_of(fn, ast.Assign):
        if isinstance(s.value, ast.Call) and call_name(s.value) == "Variable" and s.value.args:
            shapes[dotted(s.targets[0])] = (src(s.value.args[0]).replace(" ", ""), any(k.arg == "symmetric" and is_const(k.value, True) for k in s.value.keywords))
    ok = shapes.get("self.F", ("",))[0] in ("(Expression.counter,)", "Expression.counter") and shapes.get("self.G") == ("(Point.counter,Point.counter)", True)
    why = "main variables are %s" % shapes
    # the same method unrolled: F and G are variables of the sizes of the two registries, and the one solver constraint contributed is `G >> 0`
    from ..miniint import IndexInterp, is_token
    resolve_names(repo)
    try:
        itm = IndexInterp({"self." + SOLVER_CONS: [], "Point.counter": 3, "Expression.counter": 4, "self.verbose": 0})
        itm.run(fn.body)
        F, G, sc = itm.env.get("self.F"), itm.env.get("self.G"), itm.env.get("self." + SOLVER_CONS)
        isvar = lambda v: is_token(v) and v[0] == "call" and v[1].endswith("Variable") and len(v[2]) >= 1
        kw = lambda v: dict(v[3])
        if not (isvar(F) and F[2][0] in ((4,), 4) and not any(kw(F).get(k0) for k0 in ("nonneg", "nonpos", "boolean", "integer", "pos", "neg"))):
            ok, why = False, "the function values are `%r`: expected a free variable with one entry per leaf expression" % (F,)
        elif not (isvar(G) and G[2][0] == (3, 3) and (kw(G).get("symmetric") is True or kw(G).get("PSD") is True)
                  and not any(kw(G).get(k0) for k0 in ("nonneg", "nonpos", "boolean", "integer", "diag", "pos", "neg"))):
            ok, why = False, "the Gram matrix is `%r`: expected a symmetric variable with one row per leaf point and no other attribute" % (G,)
        elif not (isinstance(sc, list) and len(sc) == 1 and (sc[0] == ("op", "RShift", G, 0) or sc[0] == ("op", "LShift", 0, G))):
            ok, why = False, "the solver constraints contributed are `%r`: expected exactly `G >> 0` (the residual is read as its multiplier)" % (sc,)
        else:
            ok = True
    except AnalysisError:
        pass        # outside the interpreter's fragment: the shape clause above decides
    ctx.ob("R-MAINVARS", "CvxpyWrapper.set_main_variables", ok,
           "F has one entry per leaf expression, G is a symmetric matrix with one row per leaf point, constrained by `G >> 0` only" if ok else why, loc(fn, fn))
    sv = be.methods["solve"]
    vals = {dotted(s.targets[0]): src(s.value) for s in flow.stmts_of(sv, ast.Assign)}
    ok = vals.get("self.optimal_G") == "self.G.value" and vals.get("self.optimal_F") == "self.F.value"
    why = "optimal_G / optimal_F are read from %s / %s" % (vals.get("self.optimal_G"), vals.get("self.optimal_F"))
    if ok:
        # ... at every solve: each of the two is stored exactly once on every completing path (a value kept from an earlier solve would pair the
        # Gram matrix of one problem with the function values of another)
        for attr in ("self.optimal_G", "self.optimal_F"):
            pc = flow.path_counts(sv.body, lambda n0: False, lambda st, attr=attr: isinstance(st, ast.Assign) and any(dotted(t) == attr for t in st.targets))
            normal = pc.get("next", set()) | pc.get("return", set())
            if normal != {1}:
                ok, why = False, "`%s` is stored %s times depending on the path: after a second solve (dimension reduction, re-solve) it can still hold the solution of the first" % (attr, sorted(normal))
    ctx.ob("R-SOLVEVALS", "CvxpyWrapper.solve", ok, "the primal solution is read from the main variables at every solve" if ok else why, loc(sv, sv))
    rets = [r for r in ast.walk(sv) if isinstance(r, ast.Return)]
    okr = len(rets) == 1 and isinstance(rets[0].value, ast.Tuple) and len(rets[0].value.elts) == 3 and src(rets[0].value.elts[2]) == "self.objective.value"
    ctx.ob("R-SOLVEVALS", "CvxpyWrapper.solve::value of the original objective", okr,
           "solve returns the value of the stored objective expression (not the value of the problem last solved, which a heuristic replaces)" if okr else
           "solve returns `%s` as value" % (src(rets[0].value.elts[2]) if rets and isinstance(rets[0].value, ast.Tuple) and len(rets[0].value.elts) == 3 else "?"), loc(sv, sv))
    mb = _be(repo, "mosek")
    fn = mb.methods["set_main_variables"]
    ctx.unit(qualname(fn))
    bar = [c for c in ast.walk(fn) if isinstance(c, ast.Call) and call_name(c) == "appendbarvars"]
    ok = len(bar) == 1 and src(bar[0].args[0]).replace(" ", "") == "[Point.counter]"
    ctx.ob("R-MAINVARS", "MosekWrapper.set_main_variables", ok, "the Gram matrix variable has one row per leaf point" if ok else "Gram variable sized by %s" % (src(bar[0].args[0]) if bar else None), loc(fn, fn))
    sv = mb.methods["solve"]
    vals = {dotted(s.targets[0]): s.value for s in flow.stmts_of(sv, ast.Assign)}
    g = vals.get("self.optimal_G")
    okg = isinstance(g, ast.Call) and call_name(g) == "_get_Gram_from_mosek" and isinstance(g.args[0], ast.Call) and call_name(g.args[0]) == "getbarxj" \
        and is_const(g.args[0].args[1], 0) and dotted(g.args[1]) == "Point.counter"
    f = vals.get("self.optimal_F")
    okf = f is not None and (isinstance(f, ast.Name) and isinstance(vals.get(f.id), ast.Call) and call_name(vals[f.id]) == "getxx" or isinstance(f, ast.Call) and call_name(f) == "getxx")
    ctx.ob("R-SOLVEVALS", "MosekWrapper.solve", okg and okf, "the primal solution is barx_0 and xx" if okg and okf else "optimal_G from barx_0: %s, optimal_F from xx: %s" % (okg, okf), loc(sv, sv))
    # the value reported is the value of the objective *variable* in the solution, not the objective value of the problem last solved (after a
    # heuristic that problem minimises <W, G>) -- the sibling of the cvxpy clause above
    rets = [r for r in ast.walk(sv) if isinstance(r, ast.Return) and isinstance(r.value, ast.Tuple) and r.value.elts]
    if len(rets) == 1:
        v = rets[0].value.elts[-1]
        seen = set()
        while isinstance(v, ast.Name) and v.id not in seen:
            seen.add(v.id)
            d0 = [s0 for s0 in flow.stmts_of(sv, ast.Assign) if any(isinstance(t0, ast.Name) and t0.id == v.id for t0 in s0.targets)]
            if len(d0) != 1:
                break
            v = d0[0].value
        from_solution = any(isinstance(n0, ast.Call) and call_name(n0) == "getxx" for n0 in ast.walk(v)) or \
            (isinstance(v, ast.Subscript) and isinstance(v.value, ast.Name) and isinstance(vals.get(v.value.id), ast.Call) and call_name(vals[v.value.id]) == "getxx")
        objective_of_problem = [call_name(n0) for n0 in ast.walk(v) if isinstance(n0, ast.Call) and call_name(n0) in ("getprimalobj", "getdualobj")]
        okv = from_solution and not objective_of_problem
        ctx.ob("R-SOLVEVALS", "MosekWrapper.solve::value of the original objective", okv,
               "solve reports the value of the objective variable read from the solution" if okv else
               "solve reports `%s`: %s" % (src(v)[:60], "the objective value of the problem last solved -- after a dimension-reduction heuristic that is <W, G>, not the "
                                           "worst-case value" if objective_of_problem else "not read from the solution vector"), loc(sv, rets[0]))


def r_trilorder(ctx):
    """MOSEK returns a symmetric matrix as its lower triangle, column by column; the unpacking must fill (row, col) and (col, row) in that order."""
    mb = _be(ctx.repo, "mosek")
    fn = mb.methods.get("_get_Gram_from_mosek")
    if fn is None:
        raise AnalysisError("MosekWrapper._get_Gram_from_mosek missing")
    ctx.unit(qualname(fn))
    ps = params_of(fn)
    tril, size = ps[-2], ps[-1]
    from ..miniint import IndexInterp, Matrix
    for n in (1, 2, 3, 4):
        try:
            it = IndexInterp({size: n}, symbolic={tril})
            ret = it.run(fn.body)
            if not isinstance(ret, Matrix):
                ctx.ob("R-TRILORDER", "MosekWrapper._get_Gram_from_mosek::size=%d" % n, False,
                       "the unpacking routine does not return the matrix it fills (it returns `%s`)" % (ret,), loc(fn, fn))
                continue
            writes = {}
            for (idx, v) in ret.order:
                if not (isinstance(idx, tuple) and len(idx) == 2 and isinstance(v, tuple) and v[0] == "read" and v[1] == tril and isinstance(v[2], int)):
                    raise AnalysisError("matrix entry %s assigned from %s" % (idx, v))
                writes[idx] = v[2]
        except AnalysisError as e:
            ctx.ob("R-TRILORDER", "MosekWrapper._get_Gram_from_mosek::size=%d" % n, False, "index program not interpretable: %s" % e, loc(fn, fn))
            continue
        want = {}
        k = 0
        for j in range(n):
            for i in range(j, n):
                want[(i, j)] = k
                want[(j, i)] = k
                k += 1
        ok = writes == want
        ctx.ob("R-TRILORDER", "MosekWrapper._get_Gram_from_mosek::size=%d" % n, ok,
               "entry k of the packed lower triangle (column-major) fills (row, col) and (col, row)" if ok else
               "for size %d the unpacking maps %s, MOSEK's packed lower triangle is %s" % (n, sorted(writes.items()), sorted(want.items())), loc(fn, fn))


def r_psdstore(ctx):
    """The LMI constructor as a program (sa/miniint.py), on 2x2 and 3x3 matrices mixing expressions and scalars, written asymmetrically: every entry
    (i, j) of the stored matrix is the Expression given at (i, j), or the constant expression {1: c} of the scalar c given at (i, j) -- entry by
    entry, nothing mirrored or skipped; any other kind of entry, wherever it sits, raises; the caller's matrix is left as it was (the constructor
    works on a copy); the LMI gets its own identifier."""
    from ..miniint import IndexInterp, SymObj, Matrix
    cls = ctx.repo.cls("PSDMatrix")
    init = cls.methods["__init__"]
    ctx.unit(qualname(init))
    ps = params_of(init)
    mparam = ps[1]

    def build(entries, n):
        m = Matrix("given", (n, n))
        for (i, j), v in entries.items():
            m.writes[(i, j)] = v
        return m

    def run(entries, n, copy_fns=("array",)):
        given = build(entries, n)
        created = []

        def on_call(node, it):
            nm = call_name(node)
            if nm in ("array", "asarray", "copy", "deepcopy", "array_equal") and len(node.args) >= 1 and not isinstance(node.func, ast.Name) or \
                    (nm == "copy" and isinstance(node.func, ast.Attribute) and not node.args):
                src0 = it.ev(node.args[0]) if node.args else it.ev(node.func.value)
                if isinstance(src0, Matrix):
                    if nm == "asarray":
                        return src0                 # numpy: no copy when the argument already is an array
                    c = Matrix("stored", src0.shape)
                    c.writes = dict(src0.writes)
                    return c
            if isinstance(node.func, ast.Name) and nm == "Expression":
                kw = {k.arg: it.ev(k.value) for k in node.keywords if k.arg}
                leaf = kw.get("is_leaf", it.ev(node.args[0]) if node.args else True)
                dd = kw.get("decomposition_dict", it.ev(node.args[1]) if len(node.args) > 1 else None)
                o = SymObj("Expression", label="converted", _is_leaf=leaf, decomposition_dict=dd)
                created.append(o)
                return o
            return NotImplemented
        env = {mparam: given, "PSDMatrix.counter": 7, "Expression": ("type", "Expression"), "int": ("type", "int"), "float": ("type", "float")}
        for p0 in ps[2:]:
            env[p0] = None
        it = IndexInterp(env, on_call=on_call)
        it.run(init.body)
        return given, it.env.get("self.matrix_of_expressions"), it
    E = lambda k: SymObj("Expression", label="e%d" % k)
    msg = None
    for n in (2, 3):
        exprs = {}
        k = 0
        entries = {}
        for i in range(n):
            for j in range(n):
                k += 1
                entries[(i, j)] = E(k) if (i + 2 * j) % 3 == 0 else (k if k % 2 else k + 0.5)
        before = dict(entries)
        try:
            given, stored, it = run(entries, n)
        except AnalysisError as e:
            msg = "constructor not interpretable on a %dx%d matrix: %s" % (n, n, e)
            break
        if not isinstance(stored, Matrix) or stored.shape != (n, n):
            msg = "the constructor stores `%r`, not an %dx%d array" % (stored, n, n)
            break
        for (i, j), v in before.items():
            got = stored.get((i, j))
            if isinstance(v, SymObj):
                if got is not v:
                    msg = "entry (%d, %d) was the expression %s, the stored matrix holds `%r` there" % (i, j, v.attrs["label"], got)
                    break
            else:
                okc = isinstance(got, SymObj) and got.kind == "Expression" and got.attrs.get("_is_leaf") is False and isinstance(got.attrs.get("decomposition_dict"), dict) \
                    and list(got.attrs["decomposition_dict"].keys()) == [1] and got.attrs["decomposition_dict"][1] == v
                if not okc:
                    msg = "entry (%d, %d) was the scalar %r, the stored matrix holds `%r` there (expected the constant expression {1: %r})" % (
                        i, j, v, getattr(got, "attrs", got), v)
                    break
        if msg:
            break
        if stored is given or any(given.get(k0) is not v0 and given.get(k0) != v0 for k0, v0 in before.items()):
            msg = "the constructor writes into the caller's matrix (it is not working on a copy): the declared LMI and the caller's data alias each other"
            break
        if it.env.get("self.counter") != 7 or it.env.get("PSDMatrix.counter") != 8:
            msg = "the LMI identifier is %r and the class counter becomes %r (expected 7 and 8)" % (it.env.get("self.counter"), it.env.get("PSDMatrix.counter"))
            break
        # an entry of another kind raises, wherever it sits
        for pos in ((0, 0), (n - 1, 0), (0, n - 1)):
            bad_entries = dict(before)
            bad_entries[pos] = "a string"
            try:
                run(bad_entries, n)
                msg = "an entry of another kind (a string) at %s is accepted" % (pos,)
                break
            except AnalysisError as e:
                if "raises" not in str(e):
                    msg = "constructor not interpretable: %s" % e
                    break
        if msg:
            break
    ctx.ob("R-PSDSTORE", "PSDMatrix.__init__::entries stored as given, on a copy", msg is None,
           "every entry is kept (expression) or converted to {1: c} (scalar) at its own position, other kinds raise, the caller's matrix is untouched" if msg is None else msg,
           loc(init, init))


def r_mosekrow(ctx):
    """MOSEK rows carry exactly the sparse translation of the expression: <A, G> with weight 1 on the Gram variable, the F weights on
    their own columns; the variables are sized as generate_problem asserts and the function-value columns are free."""
    repo = ctx.repo
    mb = _be(repo, "mosek")
    # the row data (<A, G> with weight 1 on variable 0, a.F, bound) are decided on the unrolled task programs
    from . import mosekprog
    mosekprog.r_mosek_rows(ctx)
    # variables: as a program (set_main_variables then generate_problem on one task); the shape clauses below decide when it is not interpretable
    try:
        mosekprog.r_mosek_vars(ctx)
        return
    except AnalysisError as ex:
        ctx.notes.append("R-MOSEKROW variables: %s -- shape clauses applied instead" % ex)
    fn = mb.methods["set_main_variables"]
    gp = mb.methods["generate_problem"]
    av = [c for c in ast.walk(fn) if isinstance(c, ast.Call) and call_name(c) == "appendvars" and c.args]
    asserted = None
    for a in ast.walk(gp):
        if isinstance(a, ast.Assert) and isinstance(a.test, ast.Compare) and isinstance(a.test.left, ast.Call) and call_name(a.test.left) == "getmaxnumvar":
            asserted = src(a.test.comparators[0])
    ok = len(av) == 1 and asserted is not None and src(av[0].args[0]) == asserted
    ctx.ob("R-MOSEKROW", "MosekWrapper.set_main_variables::number of scalar variables", ok,
           "as many scalar variables are appended as generate_problem asserts (%s)" % asserted if ok else
           "appendvars(%s) but generate_problem asserts %s variables" % (src(av[0].args[0]) if av else None, asserted), loc(fn, fn))
    free = [c for c in ast.walk(fn) if isinstance(c, ast.Call) and call_name(c) == "putvarbound" and len(c.args) >= 2 and (dotted(c.args[1]) or "").endswith("boundkey.fr")]
    okf = False
    if len(free) == 1:
        lp = flow.in_loop(common.stmt_of(free[0]))
        okf = lp is not None and isinstance(lp.iter, ast.Call) and call_name(lp.iter) == "range" and src(lp.iter.args[0]) == "Expression.counter" \
            and isinstance(lp.target, ast.Name) and dotted(free[0].args[0]) == lp.target.id
    ctx.ob("R-MOSEKROW", "MosekWrapper.set_main_variables::function values are free", okf,
           "every function-value variable is unbounded" if okf else "the function-value variables are not all declared free", loc(fn, fn))
