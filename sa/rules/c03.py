"""C03 -- class constraints never exclude a real member of the class (soundness side of R-FORMULA)."""
from . import formula, c07

LEVEL = "translation_validation"
EXPLANATION = ("Each condition emitted by the class-constraint hook of each of the 24 families is rewritten from its syntax tree "
               "to an algebraic normal form (roles bound through the generators' own data flow, parameters symbolic) and compared "
               "with the literature's condition in spec/classes.py. An emitted condition that matches no reference condition and is "
               "not provably weaker than one is reported. Decides the formulas, not the mathematics that real members satisfy them. "
               "The samples the conditions are applied to are free: a stationary point is a fresh point with a zero gradient and a fresh value (R-STAT).")
TRUSTED = ["CPython ast", "spec/classes.py is a faithful transcription of the cited interpolation conditions",
           "exact rational-function arithmetic of sa/nf.py", "operator overloads deliver the vector-space calculus (checked under C06)"]
ASSUMPTIONS = ["real members of a class satisfy the literature's condition (mathematics, not decided here)",
               "conditions are straight-line comparison expressions; anything else is reported as analysis error"]


def run(ctx):
    ca = formula.get(ctx.repo)
    n = formula.r_formula(ctx, "sound")
    from . import hookprog
    hookprog.r_hook_programs(ctx, "sound")      # every hook unrolled on three concrete samples: nothing but (weakenings of) documented instances is emitted
    formula.r_params(ctx)       # the conditions are written with the parameters the user gave
    formula.r_regen(ctx)        # stale conditions (of other parameters / samples) exclude members of the current class
    formula.r_statpair(ctx)     # the stationary sample a family invents is a fresh one
    c07.with_system(ctx, c07.r_lookup_and_separate)  # two queries share a recorded sample only when they are the same point (equal pruned decompositions)
    c07.with_system(ctx, c07.r_stat)             # ... and so is the one the user asks for: fresh point, zero gradient, fresh value (a shared value equates f at two stationary points)
    ctx.floor("class families", len(ca.families), 20)
    ctx.floor("class conditions", n, 32)
