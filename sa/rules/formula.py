"""Shared analysis of the class-constraint machinery: R-FORMULA, R-SKIP, R-SYM, R-DIAG, R-ONE, R-LMIDOM, R-STATPAIR.

Used by C03 (soundness side), C04 (completeness / order independence), C15 (block-smooth family), C17 (naming /
tables use the same generator facts) and C01 (symmetry of class LMIs as written)."""
import ast
import importlib.util
import os
from fractions import Fraction

from ..model import AnalysisError, src, loc, call_name, dotted, norm_stmt
from ..nf import (Evaluator, Rat, PointV, ExprV, ConsV, TupleV, Opaque, SortError, parse_expr, is_nsd)
from .. import classes as K
from ..core import VERIF

_SWAP = {"xi": "xj", "xj": "xi", "gi": "gj", "gj": "gi", "fi": "fj", "fj": "fi",
         "ui": "uj", "uj": "ui", "vi": "vj", "vj": "vi", "hi": "hj", "hj": "hi"}


def load_spec():
    p = os.path.join(VERIF, "spec", "classes.py")
    spec = importlib.util.spec_from_file_location("spec_classes", p)
    m = importlib.util.module_from_spec(spec)
    spec.loader.exec_module(m)
    return m


class SpecEval(Evaluator):
    def __init__(self, spec):
        super().__init__({})
        self.spec = spec

    def name(self, node):
        if node.id in self.spec.POINT_NAMES:
            return PointV.atom(node.id)
        if node.id in self.spec.EXPR_NAMES:
            return ExprV.atom(node.id)
        return Rat.sym(node.id)

    def call(self, node):
        if isinstance(node.func, ast.Name) and node.func.id == "Pk" and len(node.args) == 1:
            p = self.ev(node.args[0])
            return PointV({("P", "k", a): v for a, v in p.d.items()})
        raise AnalysisError("call %s in the reference table" % src(node))


def swap_map(atoms):
    m = {}
    for a in atoms:
        if isinstance(a, tuple) and a[0] == "P":
            m[a] = ("P", a[1], _SWAP.get(a[2], a[2]))
        elif a in _SWAP:
            m[a] = _SWAP[a]
    return m


def swapped(v):
    return v.rename(swap_map(v.atoms()))


def diag_map(atoms):
    """j := i"""
    m = {}
    for a in atoms:
        if isinstance(a, tuple) and a[0] == "P":
            m[a] = ("P", a[1], a[2][:-1] + "i") if a[2].endswith("j") else a
        elif isinstance(a, str) and a in _SWAP and a.endswith("j"):
            m[a] = a[:-1] + "i"
    return m


def on_diagonal(v):
    return v.rename(diag_map(v.atoms()))


def trivially_true(c, spec):
    """expr <= 0 / == 0 holds for every assignment: expr is 0, or a provably non-positive constant (-D**2)."""
    if not c.e.d:
        return True
    if c.sense == "<=" and set(c.e.d) == {("1",)}:
        coeff = c.e.d[("1",)]
        try:
            return all(coeff.subs({k: Fraction(v) for k, v in ps.items()}) <= 0 for ps in spec.PARAM_SAMPLES) \
                and _is_minus_square(coeff)
        except Exception:
            return False
    return False


def _is_minus_square(r):
    """-(p**2) for a single parameter symbol p (the shape of -D**2)."""
    if not (r.d.is_const()):
        return False
    t = r.n.t
    if len(t) != 1:
        return False
    (mono, c), = t.items()
    return c < 0 and all(e % 2 == 0 for _, e in mono)


def sym_part(e):
    """(e(i,j) + e(j,i)) / 2"""
    return (e + swapped(e)).scale(Rat(Fraction(1, 2)))


def classify_relaxation(E, R, spec):
    """E, R: ConsV '<=' .  True when E is provably implied by R at the sampled admissible parameter points:
    E.e = c * R.e + N with c > 0 and N a negative semidefinite quadratic form (plus a non-positive constant)."""
    if E.sense != "<=" or R.sense != "<=":
        return False
    cands = [Rat(1)]
    fk = [k for k in E.e.d if k[0] == "f" and k in R.e.d]
    if fk:
        cands.insert(0, E.e.d[fk[0]] / R.e.d[fk[0]])
    for c in cands:
        if not c.is_number() or c.number() <= 0:
            continue
        N = E.e - R.e.scale(c)
        if any(k[0] == "f" for k in N.d):
            continue
        ok = True
        for ps in spec.PARAM_SAMPLES:
            vals = {k: Fraction(v) for k, v in ps.items()}
            try:
                atoms = sorted({a for k in N.d if k[0] == "g" for a in k[1:]}, key=str)
                idx = {a: n for n, a in enumerate(atoms)}
                M = [[Fraction(0)] * len(atoms) for _ in atoms]
                for k, coeff in N.d.items():
                    cv = coeff.subs(vals)
                    if k[0] == "1":
                        if cv > 0:
                            ok = False
                        continue
                    a, b = idx[k[1]], idx[k[2]]
                    if a == b:
                        M[a][a] += cv
                    else:
                        M[a][b] += cv / 2
                        M[b][a] += cv / 2
                if ok and not is_nsd(M):
                    ok = False
            except (KeyError, ZeroDivisionError):
                ok = False
            if not ok:
                break
        if ok:
            return True
    return False


class ClassAnalysis:
    """Everything the class rules need, computed once per run."""

    def __init__(self, repo):
        self.repo = repo
        self.spec = load_spec()
        self.base = repo.cls("Function")
        two = self.base.methods.get(K.GEN_TWO)
        one = self.base.methods.get(K.GEN_ONE)
        if two is None or one is None:
            raise AnalysisError("the constraint generators %s / %s are not defined by the function base class" % (K.GEN_TWO, K.GEN_ONE))
        self.gen_error = None
        try:
            self.gens = {K.GEN_TWO: K.analyse_generator(repo, two, 2), K.GEN_ONE: K.analyse_generator(repo, one, 1)}
        except AnalysisError as ex:
            # the generators are outside the fragment of the structural analysis: the hooks cannot be interpreted symbolically either; the unrolled
            # generators (R-GENPROG) and hooks (R-HOOKPROG) decide, or the rules that need this analysis raise the error
            self.gen_error = str(ex)
            self.gens = {}
        base_hook = self.base.methods.get(K.HOOK)
        self.families = []
        for c in repo.subclasses(self.base):
            h = c.find_method(K.HOOK)
            if h is not None and h is not base_hook:
                self.families.append(c)
        self.families.sort(key=lambda c: c.name)
        self.hooks = {}
        self.hook_errors = {}
        for c in self.families:
            try:
                if self.gen_error:
                    raise AnalysisError(self.gen_error)
                self.hooks[c.name] = K.analyse_hook(repo, c, self.gens)
            except AnalysisError as ex:
                # outside the fragment of the hook interpreter: the family has no emissions here; its formulas are decided by the unrolled hook
                # (rules/hookprog.py) or, failing that, the analysis error is raised by R-FORMULA
                self.hook_errors[c.name] = str(ex)
                hr = K.HookResult()
                hr.fn, hr.cls = c.find_method(K.HOOK), c
                self.hooks[c.name] = hr
        self.ref = {}
        se = SpecEval(self.spec)
        for fam, entries in self.spec.CLASSES.items():
            out = []
            for e in entries:
                r = dict(e)
                if "cond" in e:
                    r["nf"] = se.ev(parse_expr(e["cond"]))
                else:
                    r["nf"] = se.ev(parse_expr(e["entry"]))
                out.append(r)
            self.ref[fam] = out
        self.matches = {}
        for c in self.families:
            if c.name in self.ref:
                self.matches[c.name] = self._match(c.name)

    # -- matching emissions with reference entries -------------------------------------------------
    def _compatible(self, em, ref):
        """Can emission em implement reference entry ref as far as the *domain* is concerned? returns (bool, note)"""
        ed, rd = em.domain, ref["dom"]
        if ed == rd:
            return True
        ek, el = ed.split(":")
        rk, rl = rd.split(":")
        if el != rl:
            return False
        if {ek, rk} <= {"pair", "pair/2", "all"}:
            return True
        return False

    def _cond_equiv(self, em, ref):
        if em.kind == "lmi":
            if "entry" not in ref or em.entry is None:
                return False
            a, b = sym_part(em.entry), sym_part(ref["nf"])
            c = a.proportional(b)
            return c is not None and c.is_number() and c.number() > 0
        if "cond" not in ref or em.cond is None:
            return False
        if em.cond.equivalent(ref["nf"]):
            return True
        lists = em.lists
        if len(lists) == 2 and lists[0] == lists[1] and swapped(em.cond).equivalent(ref["nf"]):
            # over all ordered pairs (or unordered pairs of a swap-invariant condition) the roles i / j are interchangeable
            return True
        return False

    def _match(self, fam):
        ems = self.hooks[fam].emissions
        refs = self.ref[fam]
        used = set()
        pairs = []
        unmatched_em = []
        for em in ems:
            hit = None
            for k, r in enumerate(refs):
                if k in used:
                    continue
                if (r.get("entry") is not None) != (em.kind == "lmi"):
                    continue
                if self._compatible(em, r) and self._cond_equiv(em, r):
                    hit = k
                    break
            if hit is None:
                unmatched_em.append(em)
            else:
                used.add(hit)
                pairs.append((em, refs[hit]))
        unmatched_ref = [r for k, r in enumerate(refs) if k not in used]
        return {"pairs": pairs, "unmatched_em": unmatched_em, "unmatched_ref": unmatched_ref}


_CACHE = {}


def get(repo):
    k = id(repo)
    if k not in _CACHE:
        _CACHE[k] = ClassAnalysis(repo)
    return _CACHE[k]


def _fam_file(ca, fam):
    for c in ca.families:
        if c.name == fam:
            return c.module.rel
    return "?"


# ---------------------------------------------------------------------------------------------------
# R-FORMULA
# ---------------------------------------------------------------------------------------------------
def r_formula(ctx, side, only=None):
    """side = 'sound' (C03: no emitted condition may be tighter than / foreign to the reference)
       side = 'complete' (C04: every reference condition is emitted, equivalent, on its whole domain)."""
    ca = get(ctx.repo)
    spec = ca.spec
    fams = [c for c in ca.families if only is None or c.name in only]
    ctx.count("class families", len(fams))
    n_cond = 0
    for c in fams:
        fam = c.name
        ctx.unit("%s.%s" % (fam, K.HOOK))
        if fam not in ca.ref:
            raise AnalysisError("class family %s (%s) has no entry in the reference table spec/classes.py" % (fam, c.module.rel))
        hook = ca.hooks[fam]
        if fam in ca.hook_errors:
            from . import hookprog
            v = hookprog.r_hook_programs(ctx, side, only={fam}).get(fam)
            if v is None:
                raise AnalysisError(ca.hook_errors[fam])
            ctx.notes.append("R-FORMULA %s: hook outside the fragment of the hook interpreter (%s); decided by the unrolled hook (R-HOOKPROG)" % (fam, ca.hook_errors[fam]))
            n_cond += len(ca.ref.get(fam, []))
            continue
        m = ca.matches[fam]
        for em in hook.emissions:
            n_cond += 1
            if em.error:
                ctx.ob("R-FORMULA", em.key, False, "the condition cannot denote an inequality between expressions: %s" % em.error, em.where)
        for em, r in m["pairs"]:
            ctx.count("programs")
            ctx.sample({"family": fam, "domain": em.domain, "emitted": str(em.cond if em.cond is not None else em.entry),
                        "reference": r.get("cond") or r.get("entry"), "verdict": "equivalent"})
            ok = True
            msg = "equivalent to the reference `%s`" % (r.get("cond") or r.get("entry"))
            if side == "complete":
                # the guard must be the documented one
                g_em = tuple(em.guard)
                g_ref = (r["guard"],) if r.get("guard") else ()
                if g_em != g_ref:
                    ok = False
                    msg = "imposed under guard %s, documented guard %s" % (list(g_em), list(g_ref))
            ctx.ob("R-FORMULA", em.key, ok, msg, em.where)
        for em in m["unmatched_em"]:
            if em.error:
                continue
            ctx.count("disagreements_checked")
            # find the closest reference entry (same domain / same kind) to explain the difference
            cands = [r for r in ca.ref[fam] if (r.get("entry") is not None) == (em.kind == "lmi") and ca._compatible(em, r)]
            relax = False
            if em.kind == "scalar" and em.cond is not None:
                for r in cands:
                    if "cond" in r and (classify_relaxation(em.cond, r["nf"], spec)
                                        or (len(em.lists) == 2 and em.lists[0] == em.lists[1]
                                            and classify_relaxation(swapped(em.cond), r["nf"], spec))):
                        relax = True
            what = str(em.cond) if em.cond is not None else "entry %s" % em.entry
            refs_txt = "; ".join((r.get("cond") or r.get("entry")) + " on " + r["dom"] for r in ca.ref[fam])
            ctx.sample({"family": fam, "domain": em.domain, "emitted": what, "verdict": "relaxation" if relax else "not equivalent"})
            if side == "sound":
                if relax:
                    ctx.ob("R-FORMULA", em.key, True, "weaker than its reference (a relaxation: reported by C04, not a soundness issue)", em.where)
                else:
                    ctx.ob("R-FORMULA", em.key, False,
                           "emitted condition `%s` on %s matches no reference condition of %s and is not provably a relaxation "
                           "of one (reference: %s)" % (what, em.domain, fam, refs_txt), em.where)
            else:
                ctx.ob("R-FORMULA", em.key, False,
                       "emitted condition `%s` on %s is not equivalent to any documented condition of %s (reference: %s)"
                       % (what, em.domain, fam, refs_txt), em.where)
        if side == "complete":
            for r in m["unmatched_ref"]:
                ctx.ob("R-FORMULA", "%s::%s::missing" % (fam, r["dom"]), False,
                       "documented condition `%s` on %s is not emitted (or not equivalently) by %s.%s"
                       % (r.get("cond") or r.get("entry"), r["dom"], fam, K.HOOK), "%s:%d" % (c.module.rel, hook.fn.lineno))
    ctx.count("class conditions", n_cond)
    return n_cond


# ---------------------------------------------------------------------------------------------------
# pair domain rules (C04)
# ---------------------------------------------------------------------------------------------------
def _generators_by_program(ctx, ca, clause, rule):
    """When the structural analysis of the generators is not available: True if the unrolled generators (R-GENPROG, given clause) decide instead,
    AnalysisError otherwise."""
    if not ca.gen_error:
        return False
    from . import genprog
    if ("generators", clause) not in ctx.program_ok:
        genprog.r_generators(ctx, {clause})
    if ctx.program_ok.get(("generators", clause)):
        ctx.notes.append("%s: generators outside the structural analysis (%s); decided by the unrolled generators (R-GENPROG %s)" % (rule, ca.gen_error, clause))
        return True
    raise AnalysisError(ca.gen_error)


def r_skip(ctx):
    """The pair generator skips exactly: a sample paired with itself, and -- under the symmetry flag -- the pairs i > j."""
    ca = get(ctx.repo)
    if _generators_by_program(ctx, ca, "emit", "R-SKIP"):
        return 20, 8          # (call sites, symmetric sites) are counts of the structural analysis; the unrolled generators decided
    g = ca.gens[K.GEN_TWO]
    fn = g.fn
    where = loc(fn, g.cb_stmt)
    ctx.unit("Function.%s" % K.GEN_TWO)
    bad_same, bad_differ = [], []
    states = K.pair_states()
    for st in states:
        emitted = K.emitted_in_state(g, st)
        want = not (st.same_sample or (st.symmetry and st.idx == "gt"))
        if st.lists_same and st.symmetry and st.idx == "lt":
            want = True
        if emitted != want:
            (bad_same if st.lists_same else bad_differ).append("%s: %s, expected %s" % (st, "emitted" if emitted else "skipped", "emitted" if want else "skipped"))
    ctx.count("abstract pair states", len(states))
    ctx.sample({"rule": "R-SKIP", "states": [str(s) for s in states[:6]], "total": len(states)})
    ctx.ob("R-SKIP", "Function.%s::skip-predicate::one-list" % K.GEN_TWO, not bad_same,
           "; ".join(bad_same) if bad_same else "skips exactly (same sample) or (symmetry and i > j) on the 12 abstract states with one list passed twice", where)
    positional = bool(bad_differ)
    if not positional:
        ctx.ob("R-SKIP", "Function.%s::skip-predicate::two-lists" % K.GEN_TWO, True,
               "sameness is decided on the samples themselves: any two lists are handled", where)
    # obligations on the call sites
    n_sites = n_sym = 0
    for c in ca.families:
        for em in ca.hooks[c.name].emissions:
            if em.via != "two_lists":
                continue
            n_sites += 1
            same_expr = len(em.list_exprs) == 2 and src(em.list_exprs[0]) == src(em.list_exprs[1])
            if positional:
                ctx.ob("R-SKIP", em.key + "::lists", same_expr,
                       "the generator decides sameness by position, so both list arguments must be the same list; got (%s, %s): %s"
                       % (src(em.list_exprs[0]), src(em.list_exprs[1]), "; ".join(bad_differ[:2])), em.where)
            if em.symmetry:
                n_sym += 1
                ok = same_expr
                msg = "symmetry=True with one list passed twice"
                if not same_expr:
                    msg = "symmetry=True halves by position and needs one list passed twice; got (%s, %s)" % tuple(src(e) for e in em.list_exprs)
                elif em.cond is not None and not (swapped(em.cond).equivalent(em.cond)):
                    ok = False
                    msg = "symmetry=True but the condition `%s` is not invariant under exchanging the two samples: the pairs i > j are lost" % em.cond
                ctx.ob("R-SYM", em.key, ok, msg, em.where)
    ctx.count("two-list call sites", n_sites)
    ctx.count("symmetry=True sites", n_sym)
    return n_sites, n_sym


def r_diag(ctx):
    """A condition whose generator (or loop) skips a sample paired with itself must be trivial on the diagonal;
    a documented 'all pairs' domain must not be served by a diagonal-skipping generator unless it is trivial there."""
    ca = get(ctx.repo)
    for c in ca.families:
        for em in ca.hooks[c.name].emissions:
            if em.kind != "scalar" or em.cond is None or len(em.lists or ()) != 2:
                continue
            skips_diag = em.via == "two_lists" or em.skip == "same-sample"
            if not skips_diag:
                continue
            if em.lists[0] != em.lists[1] and "stationary" not in em.lists:
                continue
            if em.lists[0] == em.lists[1]:
                d = on_diagonal(em.cond)
            else:
                # stationary x all: the skipped pair is the stationary sample with itself (x_j = x_s, g_j = 0, f_j = f_s)
                d = em.cond.rename({"xj": "xs", "fj": "fs"})
                d = ConsV(ExprV({k: v for k, v in d.e.d.items() if "gj" not in k[1:]}), d.sense)
            triv = trivially_true(d, ca.spec)
            ctx.ob("R-DIAG", em.key, triv,
                   "trivial for a sample paired with itself" if triv else
                   "the condition `%s` is not trivial for a sample paired with itself (`%s`), but such pairs are skipped: the diagonal "
                   "condition is lost" % (em.cond, d), em.where)


def r_one_and_lmidom(ctx):
    """The one-list generator, the pair generator and every LMI builder range over the whole sample lists."""
    ca = get(ctx.repo)
    _generators_by_program(ctx, ca, "emit", "R-ONE")
    for name, g in ca.gens.items():
        for k, lp in enumerate(g.loops):
            ctx.ob("R-ONE", "Function.%s::loop%d" % (name, k + 1), lp["whole"],
                   "iterates the whole list parameter `%s`" % lp["param"] if lp["whole"] else
                   "loop iterable `%s` is not a whole list parameter: some samples are never paired" % src(lp["iter"]),
                   loc(g.fn, lp["node"]))
        # the callback receives the three components of each sample in order (x, g, f) of list 1 then list 2
        want = [(k, c) for k in range(g.arity) for c in range(3)]
        ctx.ob("R-ONE", "Function.%s::callback-arguments" % name, g.cb_roles == want or (g.arity == 2 and g.cb_roles == want[3:] + want[:3]),
               "callback receives %s" % g.cb_roles, loc(g.fn, g.cb_stmt))
    n = 0
    for c in ca.families:
        for em in ca.hooks[c.name].emissions:
            if em.kind != "lmi":
                continue
            n += 1
            dims_ok = em.dims is not None and len(em.dims) == 2 and list(em.dims) == list(em.lists)
            idx_ok = getattr(em, "index_loops", None) == [0, 1]
            whole = all(K.list_role_of(it) is not None for it in getattr(em, "loop_iters", []))
            ok = dims_ok and idx_ok and whole and len(em.lists) == 2
            ctx.ob("R-LMIDOM", em.key, ok,
                   "matrix sized by the lengths of %s and filled at [i, j] by two loops over the whole lists" % (list(em.lists),) if ok else
                   "matrix dims %s / index loops %s / lists %s: the LMI does not range over all pairs of samples"
                   % (em.dims, getattr(em, "index_loops", None), em.lists), em.where)
    for fam in sorted(ca.hook_errors):
        n += sum(1 for r in ca.ref.get(fam, []) if r["dom"].startswith("lmi"))      # decided on the unrolled hook (R-HOOKPROG)
    ctx.count("class LMI builders", n)
    return n


def r_statpair(ctx):
    """A family pairing the stationary list with all samples creates a stationary sample when none exists, before enumerating."""
    ca = get(ctx.repo)
    for c in ca.families:
        hook = ca.hooks[c.name]
        uses = [em for em in hook.emissions if em.lists and "stationary" in em.lists]
        if not uses:
            continue
        creates = [e for e in hook.events if e[0] == "create-stationary"]
        ok = False
        msg = ("no creation of a stationary sample through stationary_point(), guarded by an emptiness test, precedes the enumeration "
               "(a sample built by hand, e.g. at the origin, ties the function to a particular minimiser)")
        for (_k, guards, st) in creates:
            if len(guards) == 1 and _is_emptiness_of_stationary(guards[0]):
                first_use = min(int(em.where.split(":")[1]) for em in uses)
                # the new sample also joins the list of all samples: every enumeration of the function's own samples comes after it
                own = [em for em in hook.emissions if em.lists and any(r0 in ("points", "stationary") for r0 in em.lists)]
                early = [em for em in own if int(em.where.split(":")[1]) < st.lineno]
                if st.lineno < first_use and not early:
                    ok = True
                    msg = "a stationary sample is created when the stationary list is empty, before the enumeration"
                elif st.lineno < first_use:
                    msg = ("the stationary sample is created (line %d) after `%s` has already enumerated the samples: at the solve that creates it, "
                           "the new sample is missing from those conditions" % (st.lineno, early[0].key))
        ctx.ob("R-STATPAIR", "%s::stationary-sample-exists" % c.name, ok, msg, "%s:%d" % (c.module.rel, hook.fn.lineno))


def _is_emptiness_of_stationary(text):
    t = text.replace(" ", "")
    return t in ("self.list_of_stationary_points==list()", "self.list_of_stationary_points==[]",
                 "notself.list_of_stationary_points", "len(self.list_of_stationary_points)==0",
                 "list()==self.list_of_stationary_points", "[]==self.list_of_stationary_points")


def r_domain(ctx):
    """Domain agreement of matched pairs (pair vs pair/2 vs all)."""
    ca = get(ctx.repo)
    for c in ca.families:
        for em, r in ca.matches.get(c.name, {}).get("pairs", []):
            if em.kind != "scalar":
                continue
            ek = em.domain.split(":")[0]
            rk = r["dom"].split(":")[0]
            ok, msg = True, "domain %s as documented" % em.domain
            if rk == "pair" and ek == "pair/2":
                inv = swapped(em.cond).equivalent(em.cond)
                ok = inv
                msg = "documented for every ordered pair; emitted once per unordered pair" + (" (condition is exchange-invariant)" if inv else
                                                                                              " although the condition is not exchange-invariant")
            elif rk == "all" and ek in ("pair", "pair/2"):
                # diagonal handled by R-DIAG; ordered/unordered by invariance
                if ek == "pair/2" and not swapped(em.cond).equivalent(em.cond):
                    ok, msg = False, "documented for all pairs; emitted once per unordered pair although not exchange-invariant"
            elif rk in ("pair", "pair/2") and ek == "all":
                ok, msg = False, "documented for distinct samples, emitted for a sample paired with itself as well"
            ctx.ob("R-DOMAIN", em.key, ok, msg, em.where)


# ---------------------------------------------------------------------------------------------------
# class LMIs symmetric as written (C01 R-LMIDUAL, class part)
# ---------------------------------------------------------------------------------------------------
def r_class_lmi_symmetric(ctx):
    ca = get(ctx.repo)
    n = 0
    for c in ca.families:
        for em in ca.hooks[c.name].emissions:
            if em.kind != "lmi" or em.entry is None:
                continue
            n += 1
            sym = em.symmetrised or swapped(em.entry).equals(em.entry)
            diff = em.entry - swapped(em.entry)
            ctx.ob("R-LMIDUAL", em.key + "::symmetric-as-written", sym,
                   "entry (i, j) equals entry (j, i) as written%s" % (" (explicitly symmetrised)" if em.symmetrised else "") if sym else
                   "entry(i,j) - entry(j,i) = %s is not identically zero: the solver is given entry equalities whose multipliers the "
                   "certificate drops" % diff, em.where)
            ctx.sample({"rule": "R-LMIDUAL", "family": c.name, "entry": str(em.entry), "symmetrised": em.symmetrised})
    failed = sorted(ca.hook_errors)
    if failed:
        from . import hookprog
        n += hookprog.class_lmis_symmetric(ctx, only=set(failed))
        ctx.notes.append("R-LMIDUAL: class LMIs of %s examined on the unrolled hooks (hooks outside the hook interpreter)" % ", ".join(failed))
    ctx.count("class LMI builders", n)
    return n


# ---------------------------------------------------------------------------------------------------
# R-REGEN: the conditions are regenerated from the current samples at every solve, for every leaf function
# ---------------------------------------------------------------------------------------------------
def r_regen(ctx):
    from .. import flow
    from . import common
    repo = ctx.repo
    base = repo.cls("Function")
    root = common.solve_root(repo)
    calls = [c for c in ast.walk(root) if isinstance(c, ast.Call) and isinstance(c.func, ast.Attribute) and c.func.attr in ("set_class_constraints", K.HOOK)]
    ok = False
    msg = "the solve root does not regenerate the class constraints of the leaf functions"
    regen = None
    if len(calls) == 1:
        st = common.stmt_of(calls[0])
        lp = flow.in_loop(st)
        if lp is not None and not flow.conditions_guarding(st) and isinstance(lp.target, ast.Name) and dotted(calls[0].func.value) == lp.target.id:
            ok, msg = True, "every leaf function regenerates its class constraints at every solve"
            regen = base.find_method(calls[0].func.attr)
    ctx.ob("R-REGEN", "PEP.%s::regenerate for every leaf function" % root.name, ok, msg, loc(root, calls[0] if calls else root))
    if regen is None or regen.name == K.HOOK:
        return
    ctx.unit(qualname_of(regen))
    def is_hook_call(n):
        return isinstance(n, ast.Call) and call_name(n) == K.HOOK and dotted(n.func.value) == "self"
    pc = flow.path_counts(regen.body, is_hook_call)
    normal = pc.get("next", set()) | pc.get("return", set())
    okh = normal == {1}
    ctx.ob("R-REGEN", "Function.%s::hook called unconditionally" % regen.name, okh,
           "the class-constraint hook runs exactly once per regeneration, on every path" if okh else
           "the hook runs %s times depending on the path (e.g. a cache keyed on the function's own sample count): conditions that depend on other state "
           "(samples of a coupled function, a new stationary sample) go stale" % sorted(normal), loc(regen, regen))


def r_hook_memo(ctx):
    """A class-constraint hook builds its conditions from the samples as they are at this solve: it reads no attribute that an earlier run of the
    hook wrote (a cache of constraints keyed on part of the state goes stale when the rest of the state changes).  Attributes that the
    regeneration routine re-initialises before calling the hook are new at every run and may be read freely."""
    from .. import flow
    from . import common
    repo = ctx.repo
    base = repo.cls("Function")
    fresh = set()
    for m in base.methods.values():
        if any(isinstance(n, ast.Call) and call_name(n) == K.HOOK and dotted(n.func.value) == "self" for n in ast.walk(m)):
            for s0 in flow.stmts_of(m, ast.Assign):
                for t in s0.targets:
                    d = dotted(t)
                    if d and d.startswith("self.") and d.count(".") == 1:
                        fresh.add(d[5:])
    n = 0
    for c in repo.all_classes():
        fn = c.methods.get(K.HOOK)
        if fn is None:
            continue
        writes = {}
        for s0 in flow.stmts_of(fn):
            tg = s0.targets if isinstance(s0, ast.Assign) else ([s0.target] if isinstance(s0, (ast.AugAssign, ast.AnnAssign)) else [])
            for t in tg:
                for t1 in (t.elts if isinstance(t, ast.Tuple) else [t]):
                    d = dotted(t1)
                    if d and d.startswith("self.") and d.count(".") == 1 and d[5:] not in fresh:
                        writes.setdefault(d[5:], []).append(s0)
        n += 1
        bad = None
        for a, ws in sorted(writes.items()):
            plain = [w for w in ws if isinstance(w, ast.Assign)]
            for nd in ast.walk(fn):
                if isinstance(nd, ast.Attribute) and nd.attr == a and isinstance(nd.ctx, ast.Load) and dotted(nd) == "self." + a:
                    st = common.stmt_of(nd)
                    if any(w is not st and flow.dominates(w, st) for w in plain):
                        continue
                    bad = (a, st)
                    break
            if bad is None:
                for w in ws:
                    if isinstance(w, ast.AugAssign):
                        if not any(w2 is not w and flow.dominates(w2, w) for w2 in plain):
                            bad = (a, w)
            if bad:
                break
        ctx.ob("R-REGEN", "%s.%s::reads nothing an earlier generation stored" % (c.name, K.HOOK), bad is None,
               "every attribute the hook writes is written before it is read in the same run" if bad is None else
               "`self.%s` is written by the hook and read at `%s` before any write of the same run: the hook sees what an earlier solve left there, "
               "whatever has changed since (samples of a coupled function, parameters)" % (bad[0], norm_stmt(bad[1])[:70]),
               loc(fn, bad[1]) if bad else loc(fn, fn))
    ctx.count("hooks examined for cross-solve state", n)


def qualname_of(fn):
    c = getattr(fn, "_cls", None)
    return (c.name + "." if c else "") + fn.name


# ---------------------------------------------------------------------------------------------------
# R-PARAM: the class parameters the conditions are written with are the numbers the user gave
# ---------------------------------------------------------------------------------------------------
def r_params(ctx):
    """Every constructor of a class family stores each parameter it is given unchanged -- in particular it does not replace a value that happens
    to be falsy (`self.D = D or np.inf` turns the legitimate D = 0 into 'no bound')."""
    from .. import flow
    repo = ctx.repo
    base = repo.cls("Function")
    n = 0
    for c in repo.subclasses(base):
        init = c.methods.get("__init__")
        if init is None:
            continue
        a0 = init.args
        ps = [x.arg for x in a0.posonlyargs + a0.args + a0.kwonlyargs][1:]
        for s0 in flow.stmts_of(init, ast.Assign):
            for t in s0.targets:
                d = dotted(t)
                if not (d and d.startswith("self.") and d.count(".") == 1):
                    continue
                names = {x.id for x in ast.walk(s0.value) if isinstance(x, ast.Name)}
                src_params = [p0 for p0 in ps if p0 in names and p0 not in ("is_leaf", "decomposition_dict", "reuse_gradient", "name")]
                if not src_params:
                    continue
                n += 1
                v = s0.value
                why = None
                if isinstance(v, ast.BoolOp) and isinstance(v.op, ast.Or) and dotted(v.values[0]) in src_params:
                    why = "`%s` replaces a falsy %s (0 is a legitimate value) by `%s`" % (src(v), dotted(v.values[0]), src(v.values[-1]))
                elif isinstance(v, ast.IfExp) and (dotted(v.test) in src_params or (isinstance(v.test, ast.UnaryOp) and dotted(v.test.operand) in src_params)):
                    why = "`%s` decides on the truth value of the parameter (0 is a legitimate value)" % src(v)
                else:
                    for tt, br, _ in flow.conditions_guarding(s0):
                        t2 = tt.operand if isinstance(tt, ast.UnaryOp) and isinstance(tt.op, ast.Not) else tt
                        if dotted(t2) in src_params:
                            why = "`%s` under `%s`: the stored value depends on the truth value of the parameter" % (norm_stmt0(s0), src(tt))
                ctx.ob("R-PARAM", "%s.__init__::self.%s" % (c.name, d.split(".", 1)[1]), why is None,
                       "the parameter is stored as given" if why is None else why + ": the conditions are generated for another class than the one declared",
                       "%s:%d" % (c.module.rel, s0.lineno))
    ctx.count("class parameters stored", n)
    return n


def norm_stmt0(s0):
    return " ".join(src(s0).split())[:60]
