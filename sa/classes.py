"""Interpretation of the class-constraint machinery: the two generators of the function base class and the
`add_class_constraints` hook of every class family.

Everything is derived from the syntax trees:

* GeneratorInfo  -- which parameter is the callback, which are the sample lists, how the callback arguments are
                    bound to (list, component) roles, under which abstract condition a pair is emitted / skipped,
                    where cells / rows / constraints are appended.
* Emission       -- one family of conditions emitted by a hook: domain (lists, symmetry, skip), guard, and the
                    algebraic normal form of the condition with role atoms (xi, gi, fi, xj, gj, fj, xs, fs, ...).
"""
import ast
from .model import (AnalysisError, ClassInfo, src, call_name, get_arg, params_of, dotted, loc, is_const, norm_stmt, iter_base, clone)
from .nf import (Evaluator, Rat, PointV, ExprV, ConsV, TupleV, Opaque, SortError, to_rat)
from . import flow

GEN_TWO = "add_constraints_from_two_lists_of_points"
GEN_ONE = "add_constraints_from_one_list_of_points"
HOOK = "add_class_constraints"

COMP_POINT = ("x", "g")          # component 0 and 1 of a sample are points, component 2 an expression


def role_atoms(list_role, suffix):
    """Atoms of one symbolic sample of a list role."""
    if list_role == "stationary":
        # a stationary sample has a zero (sub)gradient (C07 R-STAT checks that this is what gets registered)
        return TupleV([PointV.atom("xs"), PointV(), ExprV.atom("fs")])
    if list_role == "points":
        return TupleV([PointV.atom("x" + suffix), PointV.atom("g" + suffix), ExprV.atom("f" + suffix)])
    if list_role == "T.points":
        return TupleV([PointV.atom("u" + suffix), PointV.atom("v" + suffix), ExprV.atom("h" + suffix)])
    if "+" in list_role:
        # a sample of a mixture of lists: atoms of its own (they match the atoms of no reference condition)
        tag = "".join(ch for ch in list_role if ch.isalnum())
        return TupleV([PointV.atom("m_%s_x%s" % (tag, suffix)), PointV.atom("m_%s_g%s" % (tag, suffix)), ExprV.atom("m_%s_f%s" % (tag, suffix))])
    raise AnalysisError("unknown sample list role %s" % list_role)


def list_role_of(node):
    """self.list_of_points -> 'points', self.list_of_stationary_points -> 'stationary', self.T.list_of_points -> 'T.points'."""
    # a shallow copy holds the same samples (the same tuple objects) in the same order
    if isinstance(node, ast.Call) and isinstance(node.func, ast.Name) and node.func.id in ("list", "tuple") and len(node.args) == 1 and not node.keywords:
        return list_role_of(node.args[0])
    if isinstance(node, ast.Call) and isinstance(node.func, ast.Attribute) and node.func.attr == "copy" and not node.args and not node.keywords:
        return list_role_of(node.func.value)
    if isinstance(node, ast.Subscript) and isinstance(node.slice, ast.Slice) and node.slice.lower is None and node.slice.upper is None and node.slice.step is None:
        return list_role_of(node.value)
    d = dotted(node)
    if d == "self.list_of_points":
        return "points"
    if d == "self.list_of_stationary_points":
        return "stationary"
    if d == "self.T.list_of_points":
        return "T.points"
    if isinstance(node, ast.BinOp) and isinstance(node.op, ast.Add):
        # a concatenation of sample lists is a sample list of its own kind (no reference condition ranges over a mixture)
        a, b = list_role_of(node.left), list_role_of(node.right)
        if a is not None and b is not None:
            return "%s+%s" % (a, b)
    return None


# ---------------------------------------------------------------------------------------------------
# generators
# ---------------------------------------------------------------------------------------------------
class GeneratorInfo:
    pass


def _loop_target_names(target):
    """(index name or None, element name) of a for-loop target."""
    if isinstance(target, ast.Name):
        return None, target.id
    if isinstance(target, ast.Tuple) and len(target.elts) == 2 and all(isinstance(e, ast.Name) for e in target.elts):
        return target.elts[0].id, target.elts[1].id
    raise AnalysisError("loop target %s outside the analysed fragment" % src(target))


def _iter_base(it):
    """(base expression, enumerated?) for `enumerate(X[, start])` or `X`."""
    return iter_base(it)


def analyse_generator(repo, fn, arity):
    """arity 2: pair generator; arity 1: one-list generator."""
    g = GeneratorInfo()
    g.fn = fn
    g.arity = arity
    params = params_of(fn)
    g.params = params
    defaults = fn.args.defaults
    ndef = len(defaults)
    g.default_of = {}
    for p, d in zip(params[len(params) - ndef:], defaults):
        g.default_of[p] = d
    # callback parameter: a parameter that is called
    cb = [n.func.id for n in ast.walk(fn) if isinstance(n, ast.Call) and isinstance(n.func, ast.Name) and n.func.id in params]
    cb = sorted(set(cb))
    if len(cb) != 1:
        raise AnalysisError("%s: expected exactly one callback parameter, found %s" % (fn.name, cb))
    g.cb_param = cb[0]
    g.cb_calls = [n for n in ast.walk(fn) if isinstance(n, ast.Call) and isinstance(n.func, ast.Name) and n.func.id == g.cb_param]
    # sample loops: for loops whose iterable is (enumerate of) a parameter, nested
    loops = []
    for n in ast.walk(fn):
        if isinstance(n, ast.For):
            base, enum = _iter_base(n.iter)
            if any(_contains(n, c) for c in g.cb_calls):
                loops.append((n, base, enum))
    loops.sort(key=lambda t: _depth(t[0]))
    if len(loops) != arity:
        raise AnalysisError("%s: expected %d nested sample loops around the callback call, found %d" % (fn.name, arity, len(loops)))
    g.loops = []
    g.list_params = []
    g.comp_of = {}
    for (n, base, enum) in loops:
        tgt = n.target
        idx = None
        if enum:
            if not (isinstance(tgt, ast.Tuple) and len(tgt.elts) == 2 and isinstance(tgt.elts[0], ast.Name)):
                raise AnalysisError("loop target %s outside the analysed fragment" % src(tgt))
            idx, tgt = tgt.elts[0].id, tgt.elts[1]
        if isinstance(tgt, ast.Name):
            el = tgt.id
        elif isinstance(tgt, ast.Tuple) and len(tgt.elts) == 3 and all(isinstance(e, ast.Name) for e in tgt.elts):
            el = "<unpacked@%d>" % n.lineno
            for c, e in enumerate(tgt.elts):
                g.comp_of[e.id] = (len(g.loops), c)
        else:
            raise AnalysisError("loop target %s outside the analysed fragment" % src(tgt))
        whole = isinstance(base, ast.Name) and base.id in params
        inside = sorted({x.id for x in ast.walk(base) if isinstance(x, ast.Name) and x.id in params})
        pname = base.id if whole else (inside[0] if len(inside) == 1 else None)
        g.loops.append({"node": n, "iter": base, "enumerated": enum, "index": idx, "element": el, "whole": whole, "param": pname})
        g.list_params.append(pname)
    # unpacking of the loop elements:   a, b, c = element        (local name -> (loop number, component))
    for n in ast.walk(fn):
        if isinstance(n, ast.Assign) and len(n.targets) == 1 and isinstance(n.targets[0], ast.Tuple) \
                and isinstance(n.value, ast.Name):
            for k, lp in enumerate(g.loops):
                if n.value.id == lp["element"]:
                    names = n.targets[0].elts
                    if len(names) != 3 or not all(isinstance(e, ast.Name) for e in names):
                        raise AnalysisError("%s: sample unpacked into %d names" % (fn.name, len(names)))
                    for c, e in enumerate(names):
                        g.comp_of[e.id] = (k, c)
    # argument roles of the callback call
    if len(g.cb_calls) != 1:
        raise AnalysisError("%s: expected one call of the callback, found %d" % (fn.name, len(g.cb_calls)))
    call = g.cb_calls[0]
    g.cb_call = call
    roles = []
    if call.keywords:
        raise AnalysisError("%s: callback called with keywords" % fn.name)
    for a in call.args:
        if isinstance(a, ast.Name) and a.id in g.comp_of:
            roles.append(g.comp_of[a.id])
        elif isinstance(a, ast.Subscript) and isinstance(a.value, ast.Name) and is_const(a.slice) \
                and any(a.value.id == lp["element"] for lp in g.loops):
            k = [i for i, lp in enumerate(g.loops) if lp["element"] == a.value.id][0]
            roles.append((k, a.slice.value))
        else:
            raise AnalysisError("%s: callback argument %s is not a component of a loop sample" % (fn.name, src(a)))
    g.cb_roles = roles
    # the name / symmetry parameters
    g.sym_param = None
    for p, d in g.default_of.items():
        if is_const(d, False) or is_const(d, True):
            g.sym_param = p
    others = [p for p in params[1:] if p not in g.list_params and p != g.cb_param and p != g.sym_param]
    g.name_param = others[0] if len(others) == 1 else None
    # the statement holding the callback call and the variable that receives the constraint
    st = call
    while not isinstance(st, ast.stmt):
        st = st._parent
    g.cb_stmt = st
    g.cons_var = st.targets[0].id if isinstance(st, ast.Assign) and isinstance(st.targets[0], ast.Name) else None
    return g


def _contains(node, target):
    for n in ast.walk(node):
        if n is target:
            return True
    return False


def _depth(node):
    d = 0
    cur = getattr(node, "_parent", None)
    while cur is not None:
        d += 1
        cur = getattr(cur, "_parent", None)
    return d


class AbstractPairState:
    """One abstract state of the pair domain of the two-list generator."""

    def __init__(self, lists_same, idx, same_sample, same_x, symmetry):
        self.lists_same, self.idx, self.same_sample, self.same_x, self.symmetry = lists_same, idx, same_sample, same_x, symmetry

    def __str__(self):
        return "lists_%s idx_%s %s %s symmetry=%s" % ("same" if self.lists_same else "differ", self.idx,
                                                       "same-sample" if self.same_sample else "distinct-samples",
                                                       "same-x" if self.same_x else "other-x", self.symmetry)


def pair_states():
    out = []
    for sym in (False, True):
        for idx in ("lt", "eq", "gt"):
            # both arguments are the same list: same sample <=> same index
            same = idx == "eq"
            for same_x in ((True,) if same else (False, True)):
                out.append(AbstractPairState(True, idx, same, same_x, sym))
    for idx in ("lt", "eq", "gt"):
        for same in (False, True):
            for same_x in ((True,) if same else (False, True)):
                out.append(AbstractPairState(False, idx, same, same_x, False))
    return out


def eval_skip_test(g, test, st):
    """Abstract value (True/False) of a boolean test of the generator in abstract state st."""
    idx_names = [lp["index"] for lp in g.loops]
    el_names = [lp["element"] for lp in g.loops]

    def kind(n):
        if isinstance(n, ast.Name):
            if n.id in idx_names:
                return ("idx", idx_names.index(n.id))
            if n.id in el_names:
                return ("el", el_names.index(n.id))
            if n.id in g.comp_of:
                return ("comp",) + g.comp_of[n.id]
            if n.id == g.sym_param:
                return ("sym",)
        if isinstance(n, ast.Constant) and isinstance(n.value, bool):
            return ("const", n.value)
        if isinstance(n, ast.Subscript) and isinstance(n.value, ast.Name) and n.value.id in el_names and is_const(n.slice):
            return ("comp", el_names.index(n.value.id), n.slice.value)
        return None

    def ev(n):
        if isinstance(n, ast.BoolOp):
            vals = [ev(v) for v in n.values]
            return all(vals) if isinstance(n.op, ast.And) else any(vals)
        if isinstance(n, ast.UnaryOp) and isinstance(n.op, ast.Not):
            return not ev(n.operand)
        k = kind(n)
        if k is not None and k[0] == "sym":
            return st.symmetry
        if k is not None and k[0] == "const":
            return k[1]
        if isinstance(n, ast.Compare) and len(n.ops) == 1:
            a, b = kind(n.left), kind(n.comparators[0])
            op = n.ops[0]
            if a and b and a[0] == "idx" and b[0] == "idx" and a[1] != b[1]:
                rel = st.idx if (a[1], b[1]) == (0, 1) else {"lt": "gt", "gt": "lt", "eq": "eq"}[st.idx]
                table = {ast.Eq: rel == "eq", ast.NotEq: rel != "eq", ast.Lt: rel == "lt", ast.LtE: rel in ("lt", "eq"),
                         ast.Gt: rel == "gt", ast.GtE: rel in ("gt", "eq")}
                if type(op) in table:
                    return table[type(op)]
            if a and b and a[0] == "el" and b[0] == "el" and a[1] != b[1]:
                # identity (or tuple equality) of two samples
                if isinstance(op, (ast.Is, ast.Eq)):
                    return st.same_sample
                if isinstance(op, (ast.IsNot, ast.NotEq)):
                    return not st.same_sample
            if a and b and a[0] == "comp" and b[0] == "comp" and a[1] != b[1] and a[2] == b[2] == 0:
                # identity of the two points: also true for two different samples recorded at one point
                if isinstance(op, (ast.Is,)):
                    return st.same_x
                if isinstance(op, (ast.IsNot,)):
                    return not st.same_x
            if a and b and a[0] == "sym" and b[0] == "const" and isinstance(op, (ast.Is, ast.Eq)):
                return st.symmetry == b[1]
        raise AnalysisError("%s: skip test %s outside the analysed fragment" % (g.fn.name, src(n)))

    return ev(test)


def inner_paths(g, st):
    """Paths of the innermost sample loop body in abstract pair state st (tests outside the pair domain are explored both ways)."""
    from .absint import PathEval
    inner = g.loops[-1]["node"]

    def decide(t):
        try:
            return eval_skip_test(g, t, st)
        except AnalysisError:
            return None
    f = ast.FunctionDef(name="_pair", args=ast.arguments(posonlyargs=[], args=[], kwonlyargs=[], kw_defaults=[], defaults=[]), body=inner.body, decorator_list=[])
    return PathEval(f, decide, loop_mode="once").run()


def emitted_in_state(g, st):
    """Is the callback called (a constraint emitted) in abstract state st?  Decided on the paths of the innermost loop body, so that
    `if skip: ...; continue` and `if skip: ... else: emit` are the same thing."""
    ps = [p for p in inner_paths(g, st) if p.kind != "raise"]
    vals = {any(ev is g.cb_stmt for ev in p.trace) for p in ps}
    if len(vals) != 1:
        raise AnalysisError("%s: whether a pair is emitted depends on something else than (same sample, index order, symmetry flag) in state %s" % (g.fn.name, st))
    return vals.pop()


# ---------------------------------------------------------------------------------------------------
# hooks
# ---------------------------------------------------------------------------------------------------
class Emission:
    def __init__(self, **kw):
        self.kind = kw.get("kind")
        self.family = kw.get("family")
        self.via = kw.get("via")
        self.name = kw.get("name")
        self.lists = kw.get("lists")
        self.symmetry = kw.get("symmetry", False)
        self.guard = tuple(kw.get("guard", ()))
        self.cond = kw.get("cond")
        self.entry = kw.get("entry")
        self.skip = kw.get("skip", "none")
        self.block = kw.get("block")
        self.where = kw.get("where")
        self.call = kw.get("call")
        self.callback = kw.get("callback")
        self.symmetrised = kw.get("symmetrised", False)
        self.named = kw.get("named", None)
        self.tabled = kw.get("tabled", None)
        self.error = kw.get("error")
        self.dims = kw.get("dims")
        self.list_exprs = kw.get("list_exprs")

    @property
    def domain(self):
        L = "*".join(self.lists or ())
        if self.kind == "lmi":
            return "lmi:" + L
        if self.via == "one_list" or len(self.lists) == 1:
            return "each:" + L
        if self.via == "two_lists":
            return ("pair/2:" if self.symmetry else "pair:") + L
        base = "pair:" if self.skip == "same-sample" else "all:"
        if self.block:
            base = "block" + base
        return base + L

    @property
    def key(self):
        return "%s::%s::%s" % (self.family, self.domain, self.name or (self.kind + "-direct"))

    def describe(self):
        body = str(self.cond) if self.cond is not None else ("entry[i,j] = %s" % self.entry)
        return "%s %s guard=%s : %s" % (self.family, self.domain, list(self.guard), body)


class CondEval(Evaluator):
    """Normal form of a condition written in a callback / hook body."""

    def __init__(self, cls, env, attr_sorts):
        super().__init__(env)
        self.cls = cls
        self.attr_sorts = attr_sorts      # attribute -> 'scalar' | 'point'
        self.used_attrs = set()

    def name(self, node):
        if node.id in ("np", "numpy"):
            return Opaque("module", "np")
        raise AnalysisError("unbound name %s in a class condition of %s" % (node.id, self.cls.name))

    def attribute(self, node):
        d = dotted(node)
        if d and d.startswith("self.") and d.count(".") == 1:
            a = node.attr
            if a == "list_of_stationary_points":
                return Opaque("list", "stationary")
            if a == "list_of_points":
                return Opaque("list", "points")
            if a == "partition":
                return Opaque("partition")
            self.used_attrs.add(a)
            if self.attr_sorts.get(a, "scalar") == "point":
                return PointV.atom(a)
            return Rat.sym(a)
        if d in ("np.inf", "numpy.inf"):
            return Opaque("inf")
        raise AnalysisError("attribute %s outside the analysed fragment" % src(node))

    def subscript(self, node):
        base = self.ev(node.value)
        if isinstance(base, Opaque) and base.tag == "list" and base.payload == "stationary":
            # any element of the stationary list is a stationary sample
            return role_atoms("stationary", "s")
        if isinstance(base, Rat) and len(base.symbols()) == 1 and isinstance(node.slice, ast.Name):
            idx = self.env.get(node.slice.id)
            if isinstance(idx, Opaque) and idx.tag == "block":
                return Rat.sym("%s_%s" % (sorted(base.symbols())[0], idx.payload))
        if isinstance(base, TupleV) and is_const(node.slice) and isinstance(node.slice.value, int):
            return base.items[node.slice.value]
        raise AnalysisError("subscript %s outside the analysed fragment" % src(node))

    def call(self, node):
        fn = call_name(node)
        if fn == "get_block" and isinstance(node.func, ast.Attribute) and len(node.args) == 2:
            p = self.ev(node.args[0])
            k = self.ev(node.args[1])
            if isinstance(p, PointV) and isinstance(k, Opaque) and k.tag == "block":
                return PointV({("P", k.payload, a): v for a, v in p.d.items()})
        # a callback that delegates to another callback of the same object (own or inherited): evaluate that one on the same samples
        f = node.func
        target = None
        if isinstance(f, ast.Attribute) and isinstance(f.value, ast.Name) and f.value.id == "self":
            target = self.cls.find_method(f.attr)
        elif isinstance(f, ast.Attribute) and isinstance(f.value, ast.Call) and isinstance(f.value.func, ast.Name) and f.value.func.id == "super":
            for b in self.cls.mro()[1:]:
                if f.attr in b.methods:
                    target = b.methods[f.attr]
                    break
        call_args = list(node.args)
        if target is None and isinstance(f, ast.Attribute) and isinstance(f.value, ast.Name) and getattr(self.cls, "module", None) is not None:
            # OtherClass.callback(...) -- a condition borrowed from another family (static callback, or an ordinary one given `self` explicitly)
            repo0 = getattr(self.cls, "repo", None) or getattr(self.cls.module, "repo", None)
            r0 = repo0.resolve_name(self.cls.module, f.value.id) if repo0 is not None else None
            if isinstance(r0, ClassInfo):
                t0 = r0.find_method(f.attr)
                if t0 is not None:
                    static = any(isinstance(d0, ast.Name) and d0.id == "staticmethod" for d0 in t0.decorator_list)
                    if static:
                        target = t0
                    elif call_args and isinstance(call_args[0], ast.Name) and call_args[0].id == "self":
                        target, call_args = t0, call_args[1:]
        if target is not None and not node.keywords and getattr(self, "depth", 0) < 3:
            args = [self.ev(a) for a in call_args]
            sub_depth = getattr(self, "depth", 0) + 1
            v, used = _eval_callback_once(self.cls, target, args, self.attr_sorts, depth=sub_depth, want_used=True)
            self.used_attrs |= used
            return v
        raise AnalysisError("call %s outside the analysed fragment" % src(node))


def eval_callback(cls, fn, bound_args, attr_sorts=None):
    """Normal form of the constraint returned by callback `fn` when its (non-self) parameters are bound to bound_args."""
    attr_sorts = dict(attr_sorts or {})
    tried = []
    for attempt in range(4):
        try:
            return _eval_callback_once(cls, fn, bound_args, attr_sorts), attr_sorts
        except SortError as e:
            # retry with an attribute re-sorted as a point (e.g. the infimal displacement vector of nonexpansive operators)
            cands = [a for a in getattr(e, "used_attrs", []) if attr_sorts.get(a, "scalar") == "scalar" and a not in tried]
            if not cands:
                raise
            tried.append(cands[0])
            attr_sorts[cands[0]] = "point"
    raise AnalysisError("cannot sort the attributes of %s.%s" % (cls.name, fn.name))


def _eval_callback_once(cls, fn, bound_args, attr_sorts, depth=0, want_used=False):
    params = params_of(fn)
    is_static = any(isinstance(d, ast.Name) and d.id == "staticmethod" for d in fn.decorator_list)
    if not is_static:
        params = params[1:]
    if len(params) != len(bound_args):
        raise AnalysisError("%s.%s takes %d sample components, the generator passes %d"
                            % (cls.name, fn.name, len(params), len(bound_args)))
    ev = CondEval(cls, dict(zip(params, bound_args)), attr_sorts)
    ev.depth = depth
    try:
        for st in fn.body:
            if isinstance(st, ast.Assign) and len(st.targets) == 1:
                val = ev.ev(st.value)
                _bind(ev, st.targets[0], val)
            elif isinstance(st, ast.Return):
                v = ev.ev(st.value)
                if not isinstance(v, ConsV):
                    raise AnalysisError("%s.%s does not return a comparison of expressions" % (cls.name, fn.name))
                return (v, set(ev.used_attrs)) if want_used else v
            elif isinstance(st, ast.Pass):
                continue
            elif isinstance(st, ast.If) and not st.orelse and len(st.body) == 1 and isinstance(st.body[0], ast.Return) \
                    and (st.body[0].value is None or is_const(st.body[0].value, None)):
                # the callback declines to state its condition for some pairs: it sees components, not samples, so the pairs it drops are
                # not "a sample with itself" (that case is the generator's business) -- the condition is missing for them
                e = SortError("the callback returns no condition when `%s`: pairs of distinct samples satisfying this test get no constraint" % src(st.test))
                e.used_attrs = []
                raise e
            else:
                raise AnalysisError("%s.%s: statement %s outside the analysed fragment" % (cls.name, fn.name, norm_stmt(st)))
    except SortError as e:
        e.used_attrs = sorted(set(getattr(e, "used_attrs", [])) | set(ev.used_attrs)) if not str(e).startswith("the callback returns no condition") else []
        raise
    raise AnalysisError("%s.%s has no return statement on its straight-line path" % (cls.name, fn.name))


def _bind(ev, target, val):
    if isinstance(target, ast.Name):
        ev.env[target.id] = val
    elif isinstance(target, ast.Tuple):
        if not isinstance(val, TupleV) or len(val.items) != len(target.elts):
            raise AnalysisError("cannot unpack %s into %s" % (val, src(target)))
        for t, v in zip(target.elts, val.items):
            _bind(ev, t, v)
    else:
        raise AnalysisError("assignment target %s outside the analysed fragment" % src(target))


def guard_text(test, polarity=True):
    """Canonical text of a parameter guard: spelling variants of 'parameter is finite' / 'parameter is set' map to one text."""
    if not polarity:
        test = ast.UnaryOp(op=ast.Not(), operand=test)
        polarity = True
    t = " ".join(src(test).replace("numpy.", "np.").replace("float('inf')", "np.inf").replace('float("inf")', "np.inf").replace("math.inf", "np.inf").split())
    import re as _re
    m = _re.fullmatch(r"(self\.\w+) (!=|<) np\.inf", t) or _re.fullmatch(r"np\.inf (!=|>) (self\.\w+)", t)
    if m:
        attr = m.group(1) if m.group(1).startswith("self.") else m.group(2)
        t = "%s != np.inf" % attr
    m = _re.fullmatch(r"np\.isfinite\((self\.\w+)\)", t)
    if m:
        t = "%s != np.inf" % m.group(1)
    m = _re.fullmatch(r"not (self\.\w+) == np\.inf", t) or _re.fullmatch(r"not \((self\.\w+) == np\.inf\)", t)
    if m:
        t = "%s != np.inf" % m.group(1)
    m = _re.fullmatch(r"(self\.\w+) != None", t) or _re.fullmatch(r"not (self\.\w+) is None", t) or _re.fullmatch(r"None is not (self\.\w+)", t) \
        or _re.fullmatch(r"not \((self\.\w+) is None\)", t)
    if m:
        t = "%s is not None" % m.group(1)
    return t if polarity else "not (%s)" % t


class HookResult:
    def __init__(self):
        self.emissions = []
        self.events = []       # ('create-stationary', guard tuple, stmt), ('table-write', ...), ...
        self.skipped = []      # statements not interpreted (text)
        self.table_inits = []


def normalise_guards(stmts, in_loop=False):
    """`if c: A; continue` + REST  ->  `if c: A else: REST` (inside a loop);  `if c: A; return` + REST  ->  `if c: A else: REST`.
    Works on clones; positions are kept."""
    out = []
    for i, s in enumerate(stmts):
        if isinstance(s, ast.If) and not s.orelse and s.body and (
                (in_loop and isinstance(s.body[-1], ast.Continue)) or (isinstance(s.body[-1], ast.Return) and s.body[-1].value is None)):
            s2 = clone(s)
            s2.body = normalise_guards(s2.body[:-1], in_loop) or [ast.Pass(lineno=s.lineno, col_offset=0)]
            s2.orelse = normalise_guards([clone(x) for x in stmts[i + 1:]], in_loop)
            out.append(s2)
            return out
        s2 = clone(s)
        if isinstance(s2, ast.If):
            s2.body = normalise_guards(s2.body, in_loop)
            s2.orelse = normalise_guards(s2.orelse, in_loop)
        elif isinstance(s2, (ast.For, ast.While)):
            s2.body = normalise_guards(s2.body, True)
        out.append(s2)
    return out


class _AliasSub(ast.NodeTransformer):
    def __init__(self, aliases):
        self.aliases = aliases

    def visit_Name(self, node):
        if isinstance(node.ctx, ast.Load) and node.id in self.aliases:
            return clone(self.aliases[node.id])
        return node


def asub(node, ctx):
    """node with the hook's local aliases (points = self.list_of_points, same = (point_i == point_j), loop-bound literals) substituted"""
    al = ctx.get("alias")
    if not al or node is None:
        return node
    return _AliasSub(al).visit(clone(node))


def _aliasable(v):
    """Right-hand sides that can be re-read at the use site: attribute chains, names, constants, comparisons / boolean combinations of those."""
    for n in ast.walk(v):
        if not isinstance(n, (ast.Name, ast.Attribute, ast.Constant, ast.Compare, ast.BoolOp, ast.UnaryOp, ast.Load, ast.And, ast.Or, ast.Not, ast.BinOp, ast.Add,
                              ast.Eq, ast.NotEq, ast.Is, ast.IsNot, ast.Lt, ast.LtE, ast.Gt, ast.GtE, ast.In, ast.NotIn, ast.USub)):
            return False
    return True


def analyse_hook(repo, cls, gens):
    """Interpret cls.add_class_constraints."""
    fn = cls.find_method(HOOK)
    if fn is None:
        raise AnalysisError("%s has no %s" % (cls.name, HOOK))
    res = HookResult()
    res.fn = fn
    res.cls = cls
    ctx = {"guards": [], "loops": [], "env": {}, "matrices": {}, "psd": {}, "attr_sorts": {}, "alias": {}}
    body = normalise_guards(fn.body)
    from .model import set_parents
    holder = ast.Module(body=body, type_ignores=[])
    set_parents(holder)
    _interp_block(repo, cls, fn, body, ctx, res, gens)
    return res


def _interp_block(repo, cls, fn, stmts, ctx, res, gens):
    for k, st in enumerate(stmts):
        # guard clause:  if <test>: return   -> the rest of the block runs under `not <test>`
        if isinstance(st, ast.If) and not st.orelse and len(st.body) == 1 and isinstance(st.body[0], ast.Return) and st.body[0].value is None \
                and _is_same_sample_test(asub(st.test, ctx), ctx) is None:
            ctx2 = dict(ctx)
            ctx2["guards"] = ctx["guards"] + [guard_text(ast.UnaryOp(op=ast.Not(), operand=asub(st.test, ctx)))]
            _interp_block(repo, cls, fn, stmts[k + 1:], ctx2, res, gens)
            return
        # a branch that leaves a *formula-valued* local (a point, an expression) different from what the other branch leaves: the rest of the
        # block means something else after each branch, so it is interpreted once per branch, under that branch's guard
        if isinstance(st, ast.If) and _is_same_sample_test(asub(st.test, ctx), ctx) is None and _assigns_names(st) and ctx.get("split_depth", 0) < 3:
            div = _divergent_locals(repo, cls, fn, st, ctx, gens)
            if div:
                test = asub(st.test, ctx)
                for branch, guard in ((st.body, guard_text(test)), (st.orelse, guard_text(test, False))):
                    other = guard_text(test, False) if guard == guard_text(test) else guard_text(test)
                    if other in ctx["guards"]:
                        continue          # this branch contradicts a decision already taken on the same test
                    ctx_b = _fork_ctx(ctx)
                    ctx_b["guards"] = ctx["guards"] + [guard]
                    ctx_b["split_depth"] = ctx.get("split_depth", 0) + 1
                    _interp_block(repo, cls, fn, list(branch) + list(stmts[k + 1:]), ctx_b, res, gens)
                return
        _interp_stmt(repo, cls, fn, st, ctx, res, gens)


def _is_empty_list_expr(v):
    return (isinstance(v, ast.List) and not v.elts) or (isinstance(v, ast.Call) and isinstance(v.func, ast.Name) and v.func.id == "list" and not v.args and not v.keywords)


def _feeds_sink(fn, name):
    """the local list `name` is poured into a class sink somewhere in the hook (`sink.extend(name)` / `sink += name`)"""
    for n0 in ast.walk(fn):
        if isinstance(n0, ast.Call) and call_name(n0) == "extend" and dotted(n0.func.value) in ("self.list_of_class_constraints", "self.list_of_class_psd") \
                and n0.args and isinstance(n0.args[0], ast.Name) and n0.args[0].id == name:
            return True
        if isinstance(n0, ast.AugAssign) and dotted(n0.target) in ("self.list_of_class_constraints", "self.list_of_class_psd") \
                and isinstance(n0.value, ast.Name) and n0.value.id == name:
            return True
    return False


def _pour(cls, ctx, res, acc, sink, where):
    """the collected emissions reach the sink: unconditionally and once (outside every loop), into the sink of their kind"""
    if ctx["loops"] or ctx["guards"]:
        raise AnalysisError("%s: a local list of constraints is poured into %s under a loop / condition (%s)" % (cls.name, sink, where))
    if acc.get("poured"):
        raise AnalysisError("%s: a local list of constraints is poured twice (%s)" % (cls.name, where))
    want = "self.list_of_class_psd" if acc["kind"] == "lmi" else "self.list_of_class_constraints"
    if acc["kind"] is not None and sink != want:
        raise AnalysisError("%s: %s objects poured into %s (%s)" % (cls.name, acc["kind"], sink, where))
    acc["poured"] = True
    res.emissions.extend(acc["pending"].emissions)
    res.events.extend(acc["pending"].events)


def _fork_ctx(ctx):
    c = dict(ctx)
    for key in ("env", "matrices", "psd", "attr_sorts", "alias"):
        if isinstance(c.get(key), dict):
            c[key] = dict(c[key])
    if isinstance(c.get("tables"), dict):
        c["tables"] = {k0: list(v0) for k0, v0 in c["tables"].items()}
    return c


def _assigns_names(st):
    return any(isinstance(n0, ast.Assign) and any(isinstance(t0, (ast.Name, ast.Tuple)) for t0 in n0.targets) for b0 in (st.body, st.orelse) for x0 in b0 for n0 in ast.walk(x0))


def _divergent_locals(repo, cls, fn, st, ctx, gens):
    """names that hold a point / expression after one branch of `st` and something else (or another point / expression) after the other"""
    envs = []
    for branch in (st.body, st.orelse):
        ctx_b = _fork_ctx(ctx)
        scratch = HookResult()
        scratch.fn, scratch.cls = fn, cls
        try:
            _interp_block(repo, cls, fn, list(branch), ctx_b, scratch, gens)
        except AnalysisError:
            return []
        envs.append(ctx_b["env"])
    out = []
    for name in set(envs[0]) | set(envs[1]):
        a, b = envs[0].get(name), envs[1].get(name)
        if a is b:
            continue
        fa, fb = isinstance(a, (PointV, ExprV, TupleV)), isinstance(b, (PointV, ExprV, TupleV))
        if not (fa or fb):
            continue
        try:
            same = fa and fb and type(a) is type(b) and not isinstance(a, TupleV) and a.equals(b)
        except Exception:
            same = False
        if not same:
            out.append(name)
    return out


SINK_ATTRS = ("list_of_class_constraints", "list_of_class_psd", "list_of_constraints", "list_of_psd")


def _mentions_sink(st):
    for n in ast.walk(st):
        if isinstance(n, ast.Attribute) and n.attr in SINK_ATTRS:
            return True
        if isinstance(n, ast.Call) and call_name(n) in (GEN_ONE, GEN_TWO, "add_constraint", "add_psd_matrix"):
            return True
    return False


def _hook_env_eval(cls, ctx):
    env = dict(ctx["env"])
    return CondEval(cls, env, ctx["attr_sorts"])


def _interp_stmt(repo, cls, fn, st, ctx, res, gens):
    where = "%s:%d" % (fn._module.rel, st.lineno)
    if isinstance(st, ast.Pass):
        return
    if isinstance(st, ast.If):
        # creation of the stationary sample, parameter guards, same-sample skip
        test = asub(st.test, ctx)
        t = guard_text(test)
        is_skip = _is_same_sample_test(test, ctx)
        if is_skip is not None:
            pos_emits = not is_skip      # branch in which the two samples differ
            body_same, body_diff = (st.body, st.orelse) if is_skip else (st.orelse, st.body)
            for b, same in ((body_same, True), (body_diff, False)):
                ctx2 = dict(ctx)
                ctx2["skip"] = "same-sample-branch" if same else "distinct-branch"
                _interp_block(repo, cls, fn, b, ctx2, res, gens)
            return
        ctx_t = dict(ctx)
        ctx_t["guards"] = ctx["guards"] + [t]
        _interp_block(repo, cls, fn, st.body, ctx_t, res, gens)
        if st.orelse:
            ctx_f = dict(ctx)
            ctx_f["guards"] = ctx["guards"] + [guard_text(test, False)]
            _interp_block(repo, cls, fn, st.orelse, ctx_f, res, gens)
        return
    if isinstance(st, ast.For):
        it0 = asub(st.iter, ctx)
        if isinstance(it0, ast.Name) and it0.id in ctx.get("tables", {}):
            # a local table of (name, callback) pairs, possibly extended under guards: one unrolled iteration per entry, under the entry's guards
            for e, extra in ctx["tables"][it0.id]:
                ctx_u = dict(ctx)
                ctx_u["alias"] = dict(ctx["alias"])
                ctx_u["env"] = dict(ctx["env"])
                ctx_u["guards"] = tuple(ctx["guards"]) + tuple(extra)
                tg = st.target
                if isinstance(tg, ast.Name):
                    ctx_u["alias"][tg.id] = e
                elif isinstance(tg, ast.Tuple) and isinstance(e, (ast.Tuple, ast.List)) and len(tg.elts) == len(e.elts) and all(isinstance(x, ast.Name) for x in tg.elts):
                    for x, y in zip(tg.elts, e.elts):
                        ctx_u["alias"][x.id] = y
                else:
                    raise AnalysisError("%s: loop `%s` over a local table outside the analysed fragment (%s)" % (cls.name, norm_stmt(st)[:60], where))
                _interp_block(repo, cls, fn, st.body, ctx_u, res, gens)
            return
        if isinstance(it0, ast.Name):
            # a local bound once to a literal tuple / list (a table of (name, callback) pairs), or to list(enumerate(X)) / enumerate(X) / list(X)
            from . import flow as _flow
            d0 = _flow._single_def(fn, it0.id)
            if isinstance(d0, (ast.Tuple, ast.List)):
                it0 = asub(d0, ctx)
            elif isinstance(d0, ast.Call) and call_name(d0) in ("list", "tuple") and isinstance(d0.func, ast.Name) and len(d0.args) == 1:
                it0 = asub(d0.args[0], ctx)
            elif isinstance(d0, ast.Call) and call_name(d0) == "enumerate":
                it0 = asub(d0, ctx)
        if isinstance(it0, ast.Call) and call_name(it0) == "product" and isinstance(st.target, ast.Tuple):
            # for a, b in product(X, Y) / product(X, repeat=2): the nested loops it abbreviates
            rep = [k for k in it0.keywords if k.arg == "repeat"]
            comps = list(it0.args)
            if rep and isinstance(rep[0].value, ast.Constant) and isinstance(rep[0].value.value, int):
                comps = comps * rep[0].value.value
            if len(comps) == len(st.target.elts) and len(comps) >= 2:
                inner = st.body
                for tg0, c0 in reversed(list(zip(st.target.elts, comps))):
                    node = ast.For(target=tg0, iter=c0, body=inner, orelse=[])
                    ast.copy_location(node, st)
                    node._parent = getattr(st, "_parent", None)
                    inner = [node]
                _interp_stmt(repo, cls, fn, inner[0], ctx, res, gens)
                return
        if isinstance(it0, (ast.Tuple, ast.List)) and it0.elts and not any(isinstance(e, ast.Starred) for e in it0.elts):
            # loop over a literal tuple (e.g. of (condition name, callback) pairs): unrolled
            for e in it0.elts:
                ctx_u = dict(ctx)
                ctx_u["alias"] = dict(ctx["alias"])
                ctx_u["env"] = dict(ctx["env"])
                tg = st.target
                if isinstance(tg, ast.Name):
                    ctx_u["alias"][tg.id] = e
                elif isinstance(tg, ast.Tuple) and isinstance(e, (ast.Tuple, ast.List)) and len(tg.elts) == len(e.elts) and all(isinstance(x, ast.Name) for x in tg.elts):
                    for x, y in zip(tg.elts, e.elts):
                        ctx_u["alias"][x.id] = y
                else:
                    raise AnalysisError("%s: loop `%s` over a literal outside the analysed fragment (%s)" % (cls.name, norm_stmt(st)[:60], where))
                _interp_block(repo, cls, fn, st.body, ctx_u, res, gens)
            return
        base, enum = _iter_base(it0)
        role = list_role_of(base)
        ctx2 = dict(ctx)
        ctx2["env"] = dict(ctx["env"])
        if role is not None:
            depth = len([l for l in ctx["loops"] if l["kind"] == "samples"])
            suffix = "ij"[depth] if depth < 2 else "k%d" % depth
            tgt = st.target
            idx = None
            if enum:
                if not (isinstance(tgt, ast.Tuple) and len(tgt.elts) == 2 and isinstance(tgt.elts[0], ast.Name)):
                    raise AnalysisError("loop target %s outside the analysed fragment" % src(tgt))
                idx = tgt.elts[0].id
                tgt = tgt.elts[1]
            sample = role_atoms(role, suffix)
            if isinstance(tgt, ast.Name):
                el = tgt.id
                ctx2["env"][el] = sample
            elif isinstance(tgt, ast.Tuple) and len(tgt.elts) == 3 and all(isinstance(e, ast.Name) for e in tgt.elts):
                # the sample is unpacked in the loop header
                el = "<unpacked@%d>" % st.lineno
                for e, v in zip(tgt.elts, sample.items):
                    ctx2["env"][e.id] = v
            else:
                raise AnalysisError("loop target %s outside the analysed fragment" % src(tgt))
            ctx2["loops"] = ctx["loops"] + [{"kind": "samples", "role": role, "index": idx, "element": el,
                                             "suffix": suffix, "node": st, "iter": base}]
            if idx:
                ctx2["env"][idx] = Opaque("index", suffix)
            _interp_block(repo, cls, fn, st.body, ctx2, res, gens)
            return
        st_b = st
        if it0 is not st.iter:
            st_b = clone(st)
            st_b.iter = it0
        bvar = _block_loop_var(st_b, ctx)
        if bvar is not None:
            ctx2["loops"] = ctx["loops"] + [{"kind": "blocks", "var": bvar, "node": st}]
            ctx2["env"][bvar] = Opaque("block", "k")
            if isinstance(st.target, ast.Tuple):
                for e in st.target.elts:
                    if isinstance(e, ast.Name) and e.id != bvar:
                        ctx2["env"][e.id] = Opaque("blockname")
            _interp_block(repo, cls, fn, st.body, ctx2, res, gens)
            return
        if _mentions_sink(st):
            raise AnalysisError("%s: loop `%s` feeds a constraint sink but is outside the analysed fragment (%s)"
                                % (cls.name, norm_stmt(st)[:80], where))
        res.skipped.append(norm_stmt(st)[:100])
        return
    if isinstance(st, ast.Assign) and len(st.targets) == 1 and isinstance(st.targets[0], ast.Tuple) and isinstance(st.value, ast.Tuple) \
            and len(st.targets[0].elts) == len(st.value.elts) and all(isinstance(t0, ast.Name) for t0 in st.targets[0].elts) \
            and not ({t0.id for t0 in st.targets[0].elts} & {n0.id for n0 in ast.walk(st.value) if isinstance(n0, ast.Name)}):
        # a, b = x, y  with independent sides: two assignments
        for t0, v0 in zip(st.targets[0].elts, st.value.elts):
            one = ast.Assign(targets=[t0], value=v0)
            ast.copy_location(one, st)
            one._parent = getattr(st, "_parent", None)
            _interp_stmt(repo, cls, fn, one, ctx, res, gens)
        return
    if isinstance(st, ast.Assign) and len(st.targets) == 1 and isinstance(st.targets[0], ast.Name) and isinstance(st.value, (ast.List, ast.Tuple)) \
            and st.value.elts and all(isinstance(e0, ast.Tuple) for e0 in st.value.elts) \
            and any(isinstance(c0, ast.Call) and call_name(c0) in ("append", "extend") and dotted(c0.func.value) == st.targets[0].id for c0 in ast.walk(fn)):
        # a local table of (name, callback) pairs that is extended later (under guards): kept as a table, unrolled where it is iterated
        ctx.setdefault("tables", {})
        ctx["tables"][st.targets[0].id] = [(asub(e0, ctx), ()) for e0 in st.value.elts]
        ctx.setdefault("table_base", {})[st.targets[0].id] = len(ctx["guards"])
        return
    if isinstance(st, ast.Expr) and isinstance(st.value, ast.Call) and call_name(st.value) == "append" and isinstance(st.value.func.value, ast.Name) \
            and st.value.func.value.id in ctx.get("tables", {}) and len(st.value.args) == 1 and isinstance(st.value.args[0], ast.Tuple):
        nm0 = st.value.func.value.id
        extra = tuple(ctx["guards"])[ctx["table_base"][nm0]:]
        ctx["tables"][nm0].append((asub(st.value.args[0], ctx), extra))
        return
    if isinstance(st, ast.Assign) and len(st.targets) == 1:
        tgt = st.targets[0]
        # matrix entry   T[i, j] = expr
        if isinstance(tgt, ast.Subscript) and isinstance(tgt.value, ast.Name) and tgt.value.id in ctx["matrices"]:
            _matrix_entry(cls, fn, st, tgt, ctx, res)
            return
        # table cell initialisation  self.tables_of_constraints[...] = ...
        if isinstance(tgt, ast.Subscript) and dotted(tgt.value) == "self.tables_of_constraints":
            res.table_inits.append((st, list(ctx["loops"])))
            return
        if isinstance(st.value, ast.Call) and call_name(st.value) == "empty":
            ctx["matrices"][tgt.id] = {"node": st, "dims": _matrix_dims(st.value, ctx), "entry": None}
            return
        if isinstance(tgt, ast.Name) and isinstance(st.value, ast.Name) and st.value.id in ctx["matrices"]:
            ctx["matrices"][tgt.id] = ctx["matrices"][st.value.id]       # another name of a matrix being filled (e.g. the result of an inlined builder)
            return
        if isinstance(st.value, ast.Call) and call_name(st.value) == "PSDMatrix":
            arg = get_arg(st.value, 0, "matrix_of_expressions")
            mname, symd = _matrix_arg(arg)
            if mname not in ctx["matrices"]:
                raise AnalysisError("%s: PSDMatrix built from %s, which is not a matrix filled in the hook (%s)"
                                    % (cls.name, src(arg), where))
            ctx["psd"][tgt.id] = (mname, symd, st)
            return
        if isinstance(st.value, ast.Call) and call_name(st.value) == "len":
            r = list_role_of(asub(st.value.args[0], ctx)) if st.value.args else None
            ctx["env"][tgt.id] = Opaque("len", r)
            return
        if isinstance(tgt, ast.Name) and isinstance(st.value, ast.Call) and call_name(st.value) == "get_nb_blocks":
            ctx["env"][tgt.id] = Opaque("nblocks")
            return
        if isinstance(tgt, ast.Name) and isinstance(st.value, ast.ListComp) and len(st.value.generators) == 1 and not st.value.generators[0].ifs:
            g0 = st.value.generators[0]
            if isinstance(g0.iter, ast.Call) and call_name(g0.iter) == "range" and len(g0.iter.args) == 1 and _is_block_count(g0.iter.args[0], ctx):
                ctx["env"][tgt.id] = Opaque("blocklist")
                return
        if isinstance(tgt, ast.Name) and isinstance(st.value, ast.Call) and call_name(st.value) == "partial" and st.value.args \
                and isinstance(st.value.args[0], ast.Attribute) and dotted(st.value.args[0].value) == "self" and st.value.args[0].attr in (GEN_TWO, GEN_ONE):
            # functools.partial(self.<generator>, ...): the generator with some of its arguments already given
            ctx["partials"] = dict(ctx.get("partials", {}))
            ctx["partials"][tgt.id] = (st.value.args[0], [asub(a, ctx) for a in st.value.args[1:]], [(k.arg, asub(k.value, ctx)) for k in st.value.keywords])
            return
        if isinstance(tgt, ast.Name) and not ctx["loops"] and _is_empty_list_expr(st.value) and _feeds_sink(fn, tgt.id):
            # a local list that collects constraints / LMIs and is poured into a sink later: appends to it are emissions kept aside
            ctx.setdefault("locallists", {})[tgt.id] = {"kind": None, "pending": HookResult()}
            return
        if isinstance(tgt, ast.Name) and _aliasable(st.value) and not isinstance(st.value, ast.Constant):
            # a local that only re-reads something (a list attribute, a same-sample test): kept as an alias, substituted at its uses
            sub = asub(st.value, ctx)
            if list_role_of(sub) is not None or _is_same_sample_test(sub, ctx) is not None or (isinstance(sub, ast.Attribute) and dotted(sub) and dotted(sub).startswith("self.") and isinstance(cls.find_method(sub.attr), ast.FunctionDef)) \
                    or (isinstance(sub, ast.Attribute) and sub.attr == "get_block" and (dotted(sub) or "").startswith("self.")):
                ctx["alias"] = dict(ctx["alias"])
                ctx["alias"][tgt.id] = sub
                return
        ev = _hook_env_eval(cls, ctx)
        try:
            val = ev.ev(asub(st.value, ctx) if ctx.get("alias") else st.value)
        except SortError as e:
            if _mentions_sink(st) or isinstance(st.value, ast.Compare):
                res.emissions.append(Emission(kind="scalar", family=cls.name, via="direct", lists=_lists(ctx), where=where,
                                              error="operand kinds: %s" % e, guard=ctx["guards"]))
                return
            val = Opaque("unknown")
        except AnalysisError:
            if isinstance(st.value, ast.Compare):
                raise
            val = Opaque("unknown")
        if isinstance(tgt, ast.Name):
            ctx["env"][tgt.id] = val
        elif isinstance(tgt, ast.Tuple):
            if isinstance(val, TupleV) and len(val.items) == len(tgt.elts):
                for t, v in zip(tgt.elts, val.items):
                    if isinstance(t, ast.Name):
                        ctx["env"][t.id] = v
            else:
                for t in tgt.elts:
                    if isinstance(t, ast.Name):
                        ctx["env"][t.id] = Opaque("unknown")
        return
    if isinstance(st, ast.Expr) and isinstance(st.value, ast.Call):
        call = st.value
        name = call_name(call)
        recv = dotted(call.func.value) if isinstance(call.func, ast.Attribute) else None
        if name in (GEN_TWO, GEN_ONE) and recv == "self":
            _generator_call(repo, cls, fn, call, ctx, res, gens, where)
            return
        if isinstance(call.func, ast.Name) and call.func.id in ctx.get("partials", {}):
            f0, pargs, pkws = ctx["partials"][call.func.id]
            if any(k.arg is None for k in call.keywords) or any(k.arg in dict(pkws) for k in call.keywords if False):
                raise AnalysisError("%s: **kwargs in a partial generator call (%s)" % (cls.name, where))
            later = {k.arg for k in call.keywords}
            full = ast.copy_location(ast.Call(func=clone(f0), args=[clone(a) for a in pargs] + list(call.args),
                                              keywords=[ast.keyword(arg=k0, value=clone(v0)) for k0, v0 in pkws if k0 not in later] + list(call.keywords)), call)
            _generator_call(repo, cls, fn, full, ctx, res, gens, where)
            return
        if name == "append" and recv == "self.list_of_class_constraints":
            _direct_scalar(cls, fn, st, call, ctx, res, where)
            return
        ll = ctx.get("locallists", {})
        if name == "append" and recv in ll and len(call.args) == 1:
            pend = ll[recv]["pending"]
            a0 = call.args[0]
            is_lmi = (isinstance(a0, ast.Name) and a0.id in ctx["psd"]) or (isinstance(a0, ast.Call) and call_name(a0) == "PSDMatrix")
            (_direct_lmi if is_lmi else _direct_scalar)(cls, fn, st, call, ctx, pend, where)
            ll[recv]["kind"] = "lmi" if is_lmi else "scalar"
            return
        if name == "extend" and recv in ("self.list_of_class_constraints", "self.list_of_class_psd") and len(call.args) == 1 \
                and isinstance(call.args[0], ast.Name) and call.args[0].id in ll:
            _pour(cls, ctx, res, ll[call.args[0].id], recv, where)
            return
        if name == "append" and recv == "self.list_of_class_psd":
            _direct_lmi(cls, fn, st, call, ctx, res, where)
            return
        if name == "stationary_point" and recv == "self":
            res.events.append(("create-stationary", tuple(ctx["guards"]), st))
            return
        if name == "set_name":
            res.events.append(("set-name", recv, st, list(ctx["loops"]), ctx.get("skip")))
            return
        if name == "append" and recv is None and isinstance(call.func.value, ast.Subscript):
            root = call.func.value
            while isinstance(root, ast.Subscript):
                root = root.value
            if dotted(root) == "self.tables_of_constraints":
                res.events.append(("table-append", st, list(ctx["loops"]), ctx.get("skip")))
                return
        if name in ("add_constraint", "add_psd_matrix") and recv == "self":
            raise AnalysisError("%s: hook adds a user-level constraint through %s (%s)" % (cls.name, name, where))
        if _mentions_sink(st):
            raise AnalysisError("%s: statement `%s` touches a constraint sink in an unrecognised way (%s)"
                                % (cls.name, norm_stmt(st)[:80], where))
        res.skipped.append(norm_stmt(st)[:100])
        return
    if isinstance(st, ast.AugAssign) and isinstance(st.op, ast.Add) and dotted(st.target) in ("self.list_of_class_constraints", "self.list_of_class_psd") \
            and isinstance(st.value, ast.Name) and st.value.id in ctx.get("locallists", {}):
        _pour(cls, ctx, res, ctx["locallists"][st.value.id], dotted(st.target), where)
        return
    if _mentions_sink(st):
        raise AnalysisError("%s: statement `%s` touches a constraint sink in an unrecognised way (%s)"
                            % (cls.name, norm_stmt(st)[:80], where))
    res.skipped.append(norm_stmt(st)[:100])


def _is_block_count(e, ctx):
    """`self.partition.get_nb_blocks()` or a local bound to it"""
    if isinstance(e, ast.Call) and call_name(e) == "get_nb_blocks":
        return True
    if isinstance(e, ast.Name):
        v = ctx["env"].get(e.id)
        return isinstance(v, Opaque) and v.tag == "nblocks"
    return False


def _block_loop_var(st, ctx):
    """Name of the block index of a loop over all blocks: range(<number of blocks>), enumerate(<per-block list>), or None."""
    it = st.iter
    if isinstance(it, ast.Call) and call_name(it) == "range" and len(it.args) == 1 and isinstance(st.target, ast.Name) and _is_block_count(it.args[0], ctx):
        return st.target.id
    base, enum = _iter_base(it)
    if enum and isinstance(base, ast.Name) and isinstance(ctx["env"].get(base.id), Opaque) and ctx["env"][base.id].tag == "blocklist" \
            and isinstance(st.target, ast.Tuple) and len(st.target.elts) == 2 and isinstance(st.target.elts[0], ast.Name):
        return st.target.elts[0].id
    return None


def _is_same_sample_test(test, ctx):
    """point_i == point_j / point_i is point_j  -> True (branch taken when same); != / is not -> False; else None."""
    if isinstance(test, ast.Compare) and len(test.ops) == 1 and isinstance(test.left, ast.Name) \
            and isinstance(test.comparators[0], ast.Name):
        els = [l["element"] for l in ctx["loops"] if l["kind"] == "samples"]
        idxs = [l["index"] for l in ctx["loops"] if l["kind"] == "samples"]
        a, b = test.left.id, test.comparators[0].id
        same_list = len({l["role"] for l in ctx["loops"] if l["kind"] == "samples"}) == 1
        if a in els and b in els and a != b:
            if isinstance(test.ops[0], (ast.Eq, ast.Is)):
                return True
            if isinstance(test.ops[0], (ast.NotEq, ast.IsNot)):
                return False
        if a in idxs and b in idxs and a != b and same_list:
            if isinstance(test.ops[0], ast.Eq):
                return True
            if isinstance(test.ops[0], ast.NotEq):
                return False
    return None


def _lists(ctx):
    return tuple(l["role"] for l in ctx["loops"] if l["kind"] == "samples")


def _block(ctx):
    return "k" if any(l["kind"] == "blocks" for l in ctx["loops"]) else None


def _matrix_dims(call, ctx):
    """np.empty((N, N), dtype=...) -> list of what each dimension is the length of."""
    if not call.args:
        return None
    shape = call.args[0]
    dims = []
    if isinstance(shape, (ast.Tuple, ast.List)):
        for e in shape.elts:
            if isinstance(e, ast.Name) and isinstance(ctx["env"].get(e.id), Opaque) and ctx["env"][e.id].tag == "len":
                dims.append(ctx["env"][e.id].payload)
            elif isinstance(e, ast.Call) and call_name(e) == "len" and e.args:
                dims.append(list_role_of(e.args[0]))
            else:
                dims.append("?" + src(e))
    return dims


def _matrix_arg(arg):
    """T -> ('T', False);  (T + T.T) / 2 -> ('T', True)."""
    if isinstance(arg, ast.Name):
        return arg.id, False
    if isinstance(arg, ast.BinOp) and isinstance(arg.op, ast.Div) and is_const(arg.right) and arg.right.value == 2:
        s = arg.left
        if isinstance(s, ast.BinOp) and isinstance(s.op, ast.Add):
            parts = [s.left, s.right]
            names = [p.id for p in parts if isinstance(p, ast.Name)]
            trans = [p.value.id for p in parts if isinstance(p, ast.Attribute) and p.attr == "T" and isinstance(p.value, ast.Name)]
            if len(names) == 1 and trans == names:
                return names[0], True
    if isinstance(arg, ast.BinOp) and isinstance(arg.op, ast.Mult):
        # 0.5 * (T + T.T)
        for a, b in ((arg.left, arg.right), (arg.right, arg.left)):
            if is_const(a) and a.value == 0.5 and isinstance(b, ast.BinOp) and isinstance(b.op, ast.Add):
                parts = [b.left, b.right]
                names = [p.id for p in parts if isinstance(p, ast.Name)]
                trans = [p.value.id for p in parts if isinstance(p, ast.Attribute) and p.attr == "T" and isinstance(p.value, ast.Name)]
                if len(names) == 1 and trans == names:
                    return names[0], True
    return src(arg), False


def _matrix_entry(cls, fn, st, tgt, ctx, res):
    m = ctx["matrices"][tgt.value.id]
    sl = tgt.slice
    if not (isinstance(sl, ast.Tuple) and len(sl.elts) == 2 and all(isinstance(e, ast.Name) for e in sl.elts)):
        raise AnalysisError("%s: matrix entry index %s outside the analysed fragment" % (cls.name, src(sl)))
    loops = [l for l in ctx["loops"] if l["kind"] == "samples"]
    idx = [e.id for e in sl.elts]
    pos = []
    for name in idx:
        hit = [k for k, l in enumerate(loops) if l["index"] == name]
        pos.append(hit[0] if hit else None)
    ev = _hook_env_eval(cls, ctx)
    try:
        val = ev.ev(st.value)
        err = None
    except SortError as e:
        val, err = None, "operand kinds: %s" % e
    m["entry"] = {"expr": val, "index_loops": pos, "lists": _lists(ctx), "stmt": st, "error": err,
                  "guards": list(ctx["guards"]), "skip": ctx.get("skip"),
                  "suffixes": [l["suffix"] for l in loops], "loop_iters": [l["iter"] for l in loops]}


def _generator_call(repo, cls, fn, call, ctx, res, gens, where):
    name = call_name(call)
    g = gens[name]
    if [l for l in ctx["loops"]]:
        raise AnalysisError("%s: generator called inside a loop (%s)" % (cls.name, where))
    # bind the call's arguments to the generator's parameters
    bound = {}
    gparams = g.params[1:]
    for k, a in enumerate(call.args):
        bound[gparams[k]] = asub(a, ctx)
    for kw in call.keywords:
        if kw.arg is None:
            raise AnalysisError("%s: **kwargs in a generator call (%s)" % (cls.name, where))
        bound[kw.arg] = asub(kw.value, ctx)
    lists, list_exprs = [], []
    for lp in g.loops:
        if lp["param"] is None or lp["param"] not in bound:
            raise AnalysisError("%s: sample list argument of %s not resolved (%s)" % (cls.name, name, where))
        r = list_role_of(bound[lp["param"]])
        lists.append(r if r is not None else "?" + src(bound[lp["param"]]))
        list_exprs.append(bound[lp["param"]])
    sym = False
    if g.sym_param and g.sym_param in bound:
        s = bound[g.sym_param]
        if not (isinstance(s, ast.Constant) and isinstance(s.value, bool)):
            raise AnalysisError("%s: non-constant symmetry argument (%s)" % (cls.name, where))
        sym = s.value
    elif g.sym_param:
        sym = bool(g.default_of[g.sym_param].value)
    cname = None
    if g.name_param and g.name_param in bound and isinstance(bound[g.name_param], ast.Constant):
        cname = bound[g.name_param].value
    cb = bound.get(g.cb_param)
    cbfn = None
    if isinstance(cb, ast.Attribute) and dotted(cb.value) == "self":
        cbfn = cls.find_method(cb.attr)
    elif isinstance(cb, ast.Lambda) and not (cb.args.vararg or cb.args.kwarg or cb.args.kwonlyargs or cb.args.defaults):
        # a condition written in place: the function it denotes (free names -- `self`, class parameters -- are those of the hook)
        cbfn = ast.FunctionDef(name="<lambda>", args=cb.args, body=[ast.Return(value=cb.body, lineno=cb.lineno, col_offset=0)],
                               decorator_list=[ast.Name(id="staticmethod", ctx=ast.Load())], lineno=cb.lineno, col_offset=0)
        cbfn._cls, cbfn._module = cls, fn._module
    elif isinstance(cb, ast.Name):
        local = [n0 for n0 in fn.body if isinstance(n0, ast.FunctionDef) and n0.name == cb.id]
        if len(local) == 1 and not local[0].decorator_list:
            cbfn = clone(local[0])
            cbfn.decorator_list = [ast.Name(id="staticmethod", ctx=ast.Load())]
            cbfn._cls, cbfn._module = cls, fn._module
    if cbfn is None:
        raise AnalysisError("%s: callback %s of %s not resolved (%s)" % (cls.name, src(cb) if cb is not None else None, name, where))
    em = Emission(kind="scalar", family=cls.name, via="two_lists" if g.arity == 2 else "one_list", name=cname,
                  lists=tuple(lists), symmetry=sym, guard=ctx["guards"], where=where, call=call, callback=cbfn,
                  list_exprs=list_exprs, named=True, tabled=True)
    if any(l.startswith("?") for l in lists):
        em.error = "sample list %s is not one of the function's recorded sample lists" % lists
        res.emissions.append(em)
        return
    suffixes = ["i", "j"] if g.arity == 2 else ["i"]
    samples = [role_atoms(lists[k], suffixes[k]) for k in range(g.arity)]
    args = [samples[k].items[c] for (k, c) in g.cb_roles]
    try:
        cond, sorts = eval_callback(cls, cbfn, args, ctx["attr_sorts"])
        ctx["attr_sorts"].update(sorts)
        em.cond = cond
    except SortError as e:
        em.error = "operand kinds: %s" % e
    res.emissions.append(em)


def _direct_scalar(cls, fn, st, call, ctx, res, where):
    arg = call.args[0]
    ev = _hook_env_eval(cls, ctx)
    em = Emission(kind="scalar", family=cls.name, via="direct", lists=_lists(ctx), guard=ctx["guards"], where=where,
                  block=_block(ctx), skip="same-sample" if ctx.get("skip") == "distinct-branch" else "none",
                  list_exprs=[l["iter"] for l in ctx["loops"] if l["kind"] == "samples"])
    if ctx.get("skip") == "same-sample-branch":
        em.error = "a constraint is emitted for a sample paired with itself"
    for l in ctx["loops"]:
        if l["kind"] == "samples" and list_role_of(l["iter"]) is None:
            em.error = "loop over %s is not over a whole recorded sample list" % src(l["iter"])
    try:
        v = ev.ev(arg)
        if not isinstance(v, ConsV):
            raise AnalysisError("%s: appended class constraint %s is not a comparison (%s)" % (cls.name, src(arg), where))
        em.cond = v
    except SortError as e:
        em.error = "operand kinds: %s" % e
    em.named = False
    em.tabled = False
    em.appended = arg
    res.emissions.append(em)


def _direct_lmi(cls, fn, st, call, ctx, res, where):
    arg = call.args[0]
    if isinstance(arg, ast.Name) and arg.id in ctx["psd"]:
        mname, symd, pst = ctx["psd"][arg.id]
    elif isinstance(arg, ast.Call) and call_name(arg) == "PSDMatrix":
        mname, symd = _matrix_arg(get_arg(arg, 0, "matrix_of_expressions"))
    else:
        raise AnalysisError("%s: class LMI %s not resolved to a matrix built in the hook (%s)" % (cls.name, src(arg), where))
    m = ctx["matrices"].get(mname)
    if m is None or m["entry"] is None:
        raise AnalysisError("%s: matrix %s of a class LMI has no interpreted entry assignment (%s)" % (cls.name, mname, where))
    e = m["entry"]
    em = Emission(kind="lmi", family=cls.name, via="direct", lists=e["lists"], guard=ctx["guards"] + e["guards"], where=where,
                  entry=e["expr"], symmetrised=symd, dims=m["dims"], error=e["error"])
    em.index_loops = e["index_loops"]
    em.loop_iters = e["loop_iters"]
    if e["skip"] is not None:
        em.error = "matrix entries are assigned under a same-sample test"
    res.emissions.append(em)
